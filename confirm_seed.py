#!/usr/bin/env python3
"""Independently confirms a seeded change in a scratch worktree of /repo:
 (1) demo passes on clean HEAD, (2) patch applies and the touched modules build,
 (3) demo fails with the patch, (4) the existing tests of the touched packages that are in
 the pinned baseline still pass with the patch. Writes <seed>/confirm.json.
usage: confirm_seed.py <seed_dir>..."""
import json, os, re, subprocess, sys, shutil, concurrent.futures as cf

BASE = set(json.load(open('/root/.vp/BASELINE.json'))['stable_pass'])
MODROOT = 'github.com/containerd/stargz-snapshotter'

def sh(cmd, cwd, timeout=3000):
    env = dict(os.environ, GOFLAGS='-mod=mod')
    r = subprocess.run(cmd, shell=True, cwd=cwd, capture_output=True, text=True, env=env, timeout=timeout)
    return r.returncode, (r.stdout + r.stderr)

def module_of(path):
    for m in ('cmd/', 'estargz/', 'ipfs/'):
        if path.startswith(m):
            return m.rstrip('/')
    return '.'

def confirm(seed):
    seed = seed.rstrip('/')
    name = os.path.basename(seed)
    meta = json.load(open(os.path.join(seed, 'meta.json')))
    dc = meta.get('demo_cmd', '')
    m = re.search(r'cp\s+\S*demo_test\.go\s+(\S+)', dc)
    dest = m.group(1) if m else None
    if dest:
        dest = re.sub(r'^/tmp/seed/[A-Za-z0-9]+/', '', dest)
    if not dest:
        src = open(os.path.join(seed, 'demo_test.go')).read()
        return name, {'error': 'cannot parse demo destination from demo_cmd'}
    runre = re.search(r"-run[ =]'?\"?([^'\" ]+)", dc)
    run = runre.group(1) if runre else 'Test'
    wt = '/tmp/confirm/' + name
    subprocess.run(['git', '-C', '/repo', 'worktree', 'remove', '--force', wt], capture_output=True)
    shutil.rmtree(wt, ignore_errors=True)
    subprocess.check_call(['git', '-C', '/repo', 'worktree', 'add', '-q', '--detach', wt, 'HEAD'])
    res = {'demo_dest': dest, 'run': run}
    try:
        pkgdir = os.path.dirname(dest)
        mod = module_of(dest)
        modcwd = wt if mod == '.' else os.path.join(wt, mod)
        relpkg = './' + (pkgdir if mod == '.' else pkgdir[len(mod) + 1:])
        shutil.copy(os.path.join(seed, 'demo_test.go'), os.path.join(wt, dest))
        rc, out = sh("go test -count=1 -run '%s' %s" % (run, relpkg), modcwd)
        res['demo_passes_without_patch'] = rc == 0
        res['demo_clean_tail'] = out[-300:]
        rc, out = sh('git apply %s' % os.path.join(seed, 'patch.diff'), wt)
        res['patch_applies'] = rc == 0
        if rc != 0:
            res['apply_out'] = out[-300:]
            return name, res
        files = re.findall(r'^\+\+\+ b/(\S+)', open(os.path.join(seed, 'patch.diff')).read(), re.M)
        mods = sorted(set(module_of(f) for f in files) | {'.', 'cmd'})
        builds = True
        for mo in mods:
            rc, out = sh('go build ./... && go vet ./... >/dev/null 2>&1; go build ./...', wt if mo == '.' else os.path.join(wt, mo))
            if rc != 0:
                builds = False
                res['build_out'] = out[-400:]
        res['builds_with_patch'] = builds
        rc, out = sh("go test -count=1 -run '%s' %s" % (run, relpkg), modcwd)
        res['demo_fails_with_patch'] = rc != 0
        res['demo_patched_tail'] = out[-400:]
        os.remove(os.path.join(wt, dest))
        # existing tests of touched packages (baseline tests only)
        failed_baseline, ran = [], 0
        for f in files:
            mo = module_of(f)
            pdir = os.path.dirname(f)
            rp = './' + (pdir if mo == '.' else pdir[len(mo) + 1:])
            rc, out = sh('go test -json -vet=off -count=1 -timeout 25m %s' % rp, wt if mo == '.' else os.path.join(wt, mo))
            for line in out.splitlines():
                try:
                    e = json.loads(line)
                except Exception:
                    continue
                if e.get('Action') in ('pass', 'fail') and e.get('Test'):
                    tid = e['Package'] + '::' + e['Test']
                    if tid in BASE:
                        ran += 1
                        if e['Action'] == 'fail':
                            failed_baseline.append(tid)
        res['baseline_tests_run_in_touched_pkgs'] = ran
        res['baseline_tests_failed_with_patch'] = failed_baseline[:10]
        res['existing_tests_pass_with_patch'] = len(failed_baseline) == 0
        res['confirmed'] = bool(res.get('demo_passes_without_patch') and res.get('builds_with_patch') and res.get('demo_fails_with_patch') and res['existing_tests_pass_with_patch'])
    finally:
        subprocess.run(['git', '-C', '/repo', 'worktree', 'remove', '--force', wt], capture_output=True)
        shutil.rmtree(wt, ignore_errors=True)
    json.dump(res, open(os.path.join(seed, 'confirm.json'), 'w'), indent=1)
    return name, res

os.makedirs('/tmp/confirm', exist_ok=True)
with cf.ThreadPoolExecutor(5) as ex:
    for name, res in ex.map(confirm, sys.argv[1:]):
        print(name, 'CONFIRMED' if res.get('confirmed') else 'NOT-CONFIRMED', {k: v for k, v in res.items() if k in ('demo_passes_without_patch', 'builds_with_patch', 'demo_fails_with_patch', 'existing_tests_pass_with_patch', 'baseline_tests_run_in_touched_pkgs', 'error')})
