package task

// Reproducer for finding F9 (property C13): place in /repo/task and run
//   go test -run TestF9BodyOverlap ./task
// Before the fix InvokeBackgroundTask returns from an attempt on the
// prioritized-start case without waiting for the body goroutine, so the retry
// starts a second execution while the first (slow to honour cancellation) is
// still running, although the semaphore has weight 1.

import (
	"context"
	"sync/atomic"
	"testing"
	"time"
)

func TestF9BodyOverlap(t *testing.T) {
	ts := NewBackgroundTaskManager(1, 10*time.Millisecond)
	var running, maxRunning, execs int32
	started := make(chan struct{}, 8)
	body := func(ctx context.Context) {
		n := atomic.AddInt32(&running, 1)
		for {
			m := atomic.LoadInt32(&maxRunning)
			if n <= m || atomic.CompareAndSwapInt32(&maxRunning, m, n) {
				break
			}
		}
		k := atomic.AddInt32(&execs, 1)
		started <- struct{}{}
		if k == 1 {
			<-ctx.Done()
			time.Sleep(300 * time.Millisecond) // reacts late to cancellation
		}
		atomic.AddInt32(&running, -1)
	}
	ret := make(chan struct{})
	go func() { ts.InvokeBackgroundTask(body, time.Minute); close(ret) }()
	<-started
	ts.DoPrioritizedTask()
	ts.DonePrioritizedTask()
	<-ret
	if r := atomic.LoadInt32(&running); r != 0 {
		t.Errorf("a body is still running when the invocation returned (running=%d)", r)
	}
	if m := atomic.LoadInt32(&maxRunning); m > 1 {
		t.Errorf("two executions of one invoked task overlapped (max running=%d)", m)
	}
}
