// NOT a seed: demonstration of a defect of the UNMODIFIED HEAD w.r.t. property C16
// (registry errors during resolution). Copy to store/demo_test.go and run
//
//	GOFLAGS=-mod=mod go test ./store/ -run 'TestC16Head' -count=1
//
// Both tests FAIL on the unmodified HEAD.

package store

import (
	"bytes"
	"context"
	"encoding/json"
	"fmt"
	"io"
	"net/http"
	"net/http/httptest"
	"os"
	"runtime"
	"strings"
	"sync"
	"testing"
	"time"

	"github.com/containerd/containerd/v2/core/remotes/docker"
	"github.com/containerd/containerd/v2/pkg/reference"
	"github.com/containerd/stargz-snapshotter/estargz"
	"github.com/containerd/stargz-snapshotter/fs/config"
	memorymetadata "github.com/containerd/stargz-snapshotter/metadata/memory"
	"github.com/containerd/stargz-snapshotter/util/testutil"
	digest "github.com/opencontainers/go-digest"
	"github.com/opencontainers/image-spec/specs-go"
	ocispec "github.com/opencontainers/image-spec/specs-go/v1"
)

// TestC16HeadCachedResolveError: a transient registry error while the layers of an image
// are resolved is remembered in LayerManager.resolveLayerCache; the lookup keeps failing
// after the registry has recovered.
func TestC16HeadCachedResolveError(t *testing.T) {
	reg := newC16Registry()
	img := reg.pushImage(t, "example.com/team/app:v1", "aaa", "bbb")
	lm := newC16LayerManager(t, reg)
	// Only the layer blobs fail (ranged GET / HEAD); manifest and config can be fetched.
	reg.setFail(func(r *http.Request) bool {
		return strings.Contains(r.URL.Path, "/blobs/") && (r.Header.Get("Range") != "" || r.Method == "HEAD")
	})
	if err := c16Lookup(lm, img.ref, img.tocs[0]); err == nil {
		t.Fatalf("expected a failure during the registry error")
	}
	reg.setFail(nil)
	if err := c16Lookup(lm, img.ref, img.tocs[0]); err != nil {
		t.Errorf("lookup after the registry recovered still fails: %v", err)
	}
}

// TestC16HeadCachedResolveErrorWhileSiblingInUse: same, but another layer of the image is
// in use, so even use/release cycles of the failed layer never drop the cached error.
func TestC16HeadCachedResolveErrorWhileSiblingInUse(t *testing.T) {
	reg := newC16Registry()
	img := reg.pushImage(t, "example.com/team/app:v1", "aaa", "bbb")
	lm := newC16LayerManager(t, reg)
	ctx := context.Background()
	m, _, err := lm.refPool.loadRef(ctx, img.ref)
	if err != nil {
		t.Fatal(err)
	}
	l1 := m.Layers[1].Digest.String()
	reg.setFail(func(r *http.Request) bool { return strings.Contains(r.URL.Path, l1) })
	if err := c16Lookup(lm, img.ref, img.tocs[0]); err != nil {
		t.Fatalf("layer 0: %v", err)
	}
	lm.use(img.ref, img.tocs[0])
	for { // wait until the (failing) resolution of layer 1 has finished
		lm.mu.Lock()
		_, ok := lm.resolveLayerCache[img.ref.String()][l1]
		lm.mu.Unlock()
		if ok {
			break
		}
		time.Sleep(10 * time.Millisecond)
	}
	reg.setFail(nil)
	for i := 0; i < 2; i++ {
		lm.use(img.ref, img.tocs[1])
		if err := c16Lookup(lm, img.ref, img.tocs[1]); err != nil {
			t.Errorf("round %d: lookup of layer 1 after the registry recovered still fails: %v", i, err)
		}
		lm.release(ctx, img.ref, img.tocs[1])
	}
}

// ---- harness ----

type c16Registry struct {
	mu        sync.Mutex
	manifests map[string][]byte // "<repo>:<tag>" or "<repo>@<digest>" -> manifest
	blobs     map[string][]byte // "<repo>@<digest>" -> blob
	fail      func(r *http.Request) bool
	requests  []string
}

func newC16Registry() *c16Registry {
	return &c16Registry{manifests: map[string][]byte{}, blobs: map[string][]byte{}}
}

func (reg *c16Registry) setFail(f func(r *http.Request) bool) {
	reg.mu.Lock()
	reg.fail = f
	reg.mu.Unlock()
}

func (reg *c16Registry) RoundTrip(req *http.Request) (*http.Response, error) {
	rec := httptest.NewRecorder()
	reg.serve(rec, req)
	res := rec.Result()
	res.Request = req
	return res, nil
}

func (reg *c16Registry) serve(w http.ResponseWriter, r *http.Request) {
	reg.mu.Lock()
	fail := reg.fail
	reg.requests = append(reg.requests, r.Method+" "+r.URL.Path)
	reg.mu.Unlock()
	if fail != nil && fail(r) {
		http.Error(w, "injected registry error", http.StatusNotFound)
		return
	}
	p := strings.TrimPrefix(r.URL.Path, "/v2/")
	if p == "" {
		w.WriteHeader(http.StatusOK)
		return
	}
	if i := strings.LastIndex(p, "/manifests/"); i >= 0 {
		repo, ref := p[:i], p[i+len("/manifests/"):]
		key := repo + ":" + ref
		if strings.HasPrefix(ref, "sha256:") {
			key = repo + "@" + ref
		}
		reg.mu.Lock()
		m, ok := reg.manifests[key]
		reg.mu.Unlock()
		if !ok {
			http.Error(w, "manifest unknown", http.StatusNotFound)
			return
		}
		w.Header().Set("Content-Type", ocispec.MediaTypeImageManifest)
		w.Header().Set("Docker-Content-Digest", digest.FromBytes(m).String())
		http.ServeContent(w, r, "", time.Time{}, bytes.NewReader(m))
		return
	}
	if i := strings.LastIndex(p, "/blobs/"); i >= 0 {
		repo, dgst := p[:i], p[i+len("/blobs/"):]
		reg.mu.Lock()
		b, ok := reg.blobs[repo+"@"+dgst]
		reg.mu.Unlock()
		if !ok {
			http.Error(w, "blob unknown", http.StatusNotFound)
			return
		}
		w.Header().Set("Content-Type", "application/octet-stream")
		http.ServeContent(w, r, "", time.Time{}, bytes.NewReader(b))
		return
	}
	http.Error(w, "not found", http.StatusNotFound)
}

func (reg *c16Registry) hosts(refspec reference.Spec) ([]docker.RegistryHost, error) {
	return []docker.RegistryHost{{
		Client:       &http.Client{Transport: reg},
		Host:         refspec.Hostname(),
		Scheme:       "http",
		Path:         "/v2",
		Capabilities: docker.HostCapabilityPull | docker.HostCapabilityResolve,
	}}, nil
}

type c16Image struct {
	ref  reference.Spec
	tocs []digest.Digest // TOC digest of each layer
}

// pushImage builds an image of len(files) eStargz layers (layer i contains one file
// whose contents is files[i]) and stores it in the registry as ref.
func (reg *c16Registry) pushImage(t *testing.T, ref string, files ...string) c16Image {
	t.Helper()
	refspec, err := reference.Parse(ref)
	if err != nil {
		t.Fatalf("bad ref %q: %v", ref, err)
	}
	repo := strings.TrimPrefix(refspec.Locator, refspec.Hostname()+"/")
	img := c16Image{ref: refspec}
	var (
		layers  []ocispec.Descriptor
		diffIDs []digest.Digest
	)
	for i, contents := range files {
		sr, toc, err := testutil.BuildEStargz([]testutil.TarEntry{
			testutil.File(fmt.Sprintf("file%d.txt", i), contents),
		})
		if err != nil {
			t.Fatalf("failed to build layer: %v", err)
		}
		b, err := io.ReadAll(sr)
		if err != nil {
			t.Fatal(err)
		}
		d := digest.FromBytes(b)
		reg.mu.Lock()
		reg.blobs[repo+"@"+d.String()] = b
		reg.mu.Unlock()
		layers = append(layers, ocispec.Descriptor{
			MediaType:   ocispec.MediaTypeImageLayerGzip,
			Digest:      d,
			Size:        int64(len(b)),
			Annotations: map[string]string{estargz.TOCJSONDigestAnnotation: toc.String()},
		})
		diffIDs = append(diffIDs, digest.FromString("diffid of "+contents))
		img.tocs = append(img.tocs, toc)
	}
	cfg, err := json.Marshal(ocispec.Image{
		Platform: ocispec.Platform{Architecture: runtime.GOARCH, OS: runtime.GOOS},
		RootFS:   ocispec.RootFS{Type: "layers", DiffIDs: diffIDs},
	})
	if err != nil {
		t.Fatal(err)
	}
	cfgD := digest.FromBytes(cfg)
	m, err := json.Marshal(ocispec.Manifest{
		Versioned: specs.Versioned{SchemaVersion: 2},
		MediaType: ocispec.MediaTypeImageManifest,
		Config:    ocispec.Descriptor{MediaType: ocispec.MediaTypeImageConfig, Digest: cfgD, Size: int64(len(cfg))},
		Layers:    layers,
	})
	if err != nil {
		t.Fatal(err)
	}
	reg.mu.Lock()
	reg.blobs[repo+"@"+cfgD.String()] = cfg
	reg.manifests[repo+":"+refspec.Object] = m
	reg.manifests[repo+"@"+digest.FromBytes(m).String()] = m
	reg.mu.Unlock()
	return img
}

func newC16LayerManager(t *testing.T, reg *c16Registry) *LayerManager {
	t.Helper()
	// Not t.TempDir(): the caches are filled asynchronously and may still write into the
	// directory while the test finishes, which would make the TempDir cleanup fail.
	root, err := os.MkdirTemp("", "c16demo")
	if err != nil {
		t.Fatal(err)
	}
	t.Cleanup(func() { os.RemoveAll(root) })
	lm, err := NewLayerManager(context.Background(), root, reg.hosts, memorymetadata.NewReader, config.Config{
		NoPrometheus:      true,
		NoPrefetch:        true,
		NoBackgroundFetch: true,
	})
	if err != nil {
		t.Fatalf("failed to create the layer manager: %v", err)
	}
	return lm
}

// c16Lookup is what layernode.Lookup does for "diff" and "blob".
func c16Lookup(lm *LayerManager, ref reference.Spec, toc digest.Digest) error {
	l, err := lm.getLayer(context.Background(), ref, toc)
	if err != nil {
		return err
	}
	return l.Verify(toc)
}
