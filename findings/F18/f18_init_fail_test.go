package fusemanager

// Reproducer for finding F18 (property C17): place in /repo/fusemanager and run
//   go test -run TestF18 ./fusemanager
// History: the very first Init fails (e.g. malformed configuration). Init marks
// the manager Ready unconditionally on return, although no filesystem was
// created. A following Mount request is then not refused ("requests before
// initialisation fail") but dereferences the nil current filesystem.

import (
	"context"
	"net"
	"path/filepath"
	"testing"

	pb "github.com/containerd/stargz-snapshotter/fusemanager/api"
	"google.golang.org/grpc"
)

func TestF18MountAfterFailedFirstInit(t *testing.T) {
	ctx := context.Background()
	dir := t.TempDir()
	l, err := net.Listen("unix", filepath.Join(dir, "sock"))
	if err != nil {
		t.Fatal(err)
	}
	defer l.Close()
	fm, err := NewFuseManager(ctx, l, grpc.NewServer(), filepath.Join(dir, "store", "fusestore.db"), filepath.Join(dir, "sock"))
	if err != nil {
		t.Fatal(err)
	}
	if _, err := fm.Init(ctx, &pb.InitRequest{Root: dir, Config: []byte("{not json")}); err == nil {
		t.Fatal("Init with a malformed config must fail")
	}
	defer func() {
		if r := recover(); r != nil {
			t.Errorf("Mount after a failed first Init panicked instead of being refused: %v", r)
		}
	}()
	if _, err := fm.Mount(ctx, &pb.MountRequest{Mountpoint: filepath.Join(dir, "mp")}); err == nil {
		t.Errorf("Mount succeeded although the manager was never initialised")
	}
}
