// Reproducer F28 (C12/C10): filesystem.Mount gives up after 30 s if the layer is not resolved. The resolve goroutine then
// blocks forever on its unbuffered result channel: the goroutine leaks and the resolved layer's reference is never
// released (the layer and both of its cache directories stay pinned; TTL eviction never finalises a referenced entry).
// Copy into fs/ and run (takes about 40 s): go test ./fs/ -run TestF28 -count=1 -timeout 120s
package fs

import (
	"bytes"
	"context"
	"crypto/sha256"
	"fmt"
	"io"
	"path/filepath"
	"runtime"
	"strings"
	"testing"
	"time"

	"github.com/containerd/containerd/v2/core/remotes/docker"
	"github.com/containerd/containerd/v2/pkg/reference"
	"github.com/containerd/stargz-snapshotter/estargz"
	"github.com/containerd/stargz-snapshotter/fs/config"
	"github.com/containerd/stargz-snapshotter/fs/remote"
	"github.com/containerd/stargz-snapshotter/fs/source"
	tutil "github.com/containerd/stargz-snapshotter/util/testutil"
	digest "github.com/opencontainers/go-digest"
	ocispec "github.com/opencontainers/image-spec/specs-go/v1"
)

type f28Handler struct {
	blob  []byte
	delay time.Duration
}

func (h *f28Handler) Handle(ctx context.Context, desc ocispec.Descriptor) (remote.Fetcher, int64, error) {
	time.Sleep(h.delay) // a registry that answers after Mount has given up
	return &f28Fetcher{h.blob}, int64(len(h.blob)), nil
}

type f28Fetcher struct{ blob []byte }

func (f *f28Fetcher) Fetch(ctx context.Context, off int64, size int64) (io.ReadCloser, error) {
	if off < 0 || off > int64(len(f.blob)) {
		return nil, fmt.Errorf("out of range")
	}
	end := off + size
	if end > int64(len(f.blob)) {
		end = int64(len(f.blob))
	}
	return io.NopCloser(bytes.NewReader(f.blob[off:end])), nil
}
func (f *f28Fetcher) Check() error { return nil }
func (f *f28Fetcher) GenID(off int64, size int64) string {
	return fmt.Sprintf("%x", sha256.Sum256([]byte(fmt.Sprintf("%d-%d", off, size))))
}

func f28ResolveGoroutines() int {
	buf := make([]byte, 1<<20)
	buf = buf[:runtime.Stack(buf, true)]
	n := 0
	for _, g := range strings.Split(string(buf), "\n\n") {
		if strings.Contains(g, "fs.(*filesystem).Mount.func") && strings.Contains(g, "chan send") {
			n++
		}
	}
	return n
}

func TestF28MountTimeoutDoesNotLeakTheResolvedLayer(t *testing.T) {
	sr, tocDgst, err := tutil.BuildEStargz([]tutil.TarEntry{tutil.File("hello.txt", "hello")},
		tutil.WithEStargzOptions(estargz.WithChunkSize(8)))
	if err != nil {
		t.Fatal(err)
	}
	blob, err := io.ReadAll(sr)
	if err != nil {
		t.Fatal(err)
	}
	root := t.TempDir()
	fsys, err := NewFilesystem(filepath.Join(root, "fsroot"), config.Config{
		NoPrefetch:        true,
		NoBackgroundFetch: true,
		NoPrometheus:      true,
		HTTPCacheType:     "memory",
		FSCacheType:       "memory",
	},
		WithResolveHandler("mem", &f28Handler{blob: blob, delay: 33 * time.Second}),
		WithGetSources(source.FromDefaultLabels(func(reference.Spec) ([]docker.RegistryHost, error) {
			return nil, fmt.Errorf("no registry in this test")
		})),
	)
	if err != nil {
		t.Fatal(err)
	}
	layerDigest := digest.FromBytes(blob).String()
	labels := map[string]string{
		"containerd.io/snapshot/remote/stargz.reference": "registry.example.com/test/img:latest",
		"containerd.io/snapshot/remote/stargz.digest":    layerDigest,
		"containerd.io/snapshot/remote/stargz.layers":    layerDigest,
		estargz.TOCJSONDigestAnnotation:                  tocDgst.String(),
	}
	err = fsys.Mount(context.Background(), filepath.Join(root, "mnt"), labels)
	if err == nil || !strings.Contains(err.Error(), "timeout") {
		t.Fatalf("expected the resolve timeout, got: %v", err)
	}
	// the registry answers a few seconds later
	time.Sleep(8 * time.Second)
	if n := f28ResolveGoroutines(); n != 0 {
		t.Fatalf("%d resolve goroutine(s) of Mount are blocked forever sending the resolved layer: its reference is never released", n)
	}
}
