package db

// Reproducer for finding F13 (property C05): place in
// /repo/cmd/containerd-stargz-grpc/db and run (in /repo/cmd)
//   go test -run TestF13 ./containerd-stargz-grpc/db
// A spec-conforming blob whose TOC JSON file carries trailing whitespace:
// the TOC digest is defined as the SHA-256 of the TOC JSON file. The DB store
// hashes the whole TOC stream, the memory store (estargz.Open) stops hashing
// where the JSON decoder stopped reading, so the two stores report different
// TOC digests for the same blob (and the memory store would reject the layer
// at verification).

import (
	"archive/tar"
	"bytes"
	"compress/gzip"
	"encoding/json"
	"fmt"
	"io"
	"path/filepath"
	"testing"

	"github.com/containerd/stargz-snapshotter/estargz"
	"github.com/containerd/stargz-snapshotter/metadata/memory"
	digest "github.com/opencontainers/go-digest"
	bolt "go.etcd.io/bbolt"
)

func f13Footer(tocOff int64) []byte {
	buf := bytes.NewBuffer(make([]byte, 0, 51))
	zw, _ := gzip.NewWriterLevel(buf, gzip.NoCompression)
	header := make([]byte, 4)
	header[0], header[1] = 'S', 'G'
	subfield := fmt.Sprintf("%016xSTARGZ", tocOff)
	header[2], header[3] = byte(len(subfield)), 0
	zw.Extra = append(header, []byte(subfield)...)
	zw.Close()
	return buf.Bytes()
}

func TestF13TrailingWhitespaceTOC(t *testing.T) {
	toc := &estargz.JTOC{Version: 1, Entries: []*estargz.TOCEntry{{Name: "a/", Type: "dir", Mode: 0755}}}
	tocJSON, err := json.Marshal(toc)
	if err != nil {
		t.Fatal(err)
	}
	tocJSON = append(tocJSON, bytes.Repeat([]byte(" "), 100000)...)
	want := digest.FromBytes(tocJSON)

	var blob bytes.Buffer
	gz := gzip.NewWriter(&blob) // empty payload member
	gz.Close()
	tocOff := int64(blob.Len())
	gz = gzip.NewWriter(&blob)
	tw := tar.NewWriter(gz)
	tw.WriteHeader(&tar.Header{Typeflag: tar.TypeReg, Name: estargz.TOCTarName, Size: int64(len(tocJSON))})
	tw.Write(tocJSON)
	tw.Close()
	gz.Close()
	blob.Write(f13Footer(tocOff))
	sr := func() *io.SectionReader { return io.NewSectionReader(bytes.NewReader(blob.Bytes()), 0, int64(blob.Len())) }

	mr, err := memory.NewReader(sr())
	if err != nil {
		t.Fatal(err)
	}
	db, err := bolt.Open(filepath.Join(t.TempDir(), "db"), 0600, nil)
	if err != nil {
		t.Fatal(err)
	}
	defer db.Close()
	dr, err := NewReader(db, sr())
	if err != nil {
		t.Fatal(err)
	}
	if dr.TOCDigest() != want {
		t.Errorf("db store: TOC digest %v, want sha256(TOC JSON file) = %v", dr.TOCDigest(), want)
	}
	if mr.TOCDigest() != want {
		t.Errorf("memory store: TOC digest %v, want sha256(TOC JSON file) = %v", mr.TOCDigest(), want)
	}
	if mr.TOCDigest() != dr.TOCDigest() {
		t.Errorf("the two metadata stores report different TOC digests for the same blob: memory=%v db=%v", mr.TOCDigest(), dr.TOCDigest())
	}
}
