package db

// Finding F13z (property C05, recorded as a known finding, not repaired): same
// history as f13_tocdigest_test.go but for a zstd:chunked blob. Place in
// /repo/cmd/containerd-stargz-grpc/db and run (in /repo/cmd)
//   go test -run TestF13Zstd ./containerd-stargz-grpc/db
// The memory store hashes only what the JSON decoder consumed of the TOC
// frame, the DB store hashes the whole decompressed TOC frame.

import (
	"bytes"
	"encoding/binary"
	"encoding/json"
	"io"
	"path/filepath"
	"testing"

	"github.com/containerd/stargz-snapshotter/estargz"
	"github.com/containerd/stargz-snapshotter/estargz/zstdchunked"
	"github.com/containerd/stargz-snapshotter/metadata"
	"github.com/containerd/stargz-snapshotter/metadata/memory"
	"github.com/klauspost/compress/zstd"
	digest "github.com/opencontainers/go-digest"
	bolt "go.etcd.io/bbolt"
)

func skippable(b []byte) []byte {
	out := []byte{0x50, 0x2a, 0x4d, 0x18}
	size := make([]byte, 4)
	binary.LittleEndian.PutUint32(size, uint32(len(b)))
	return append(append(out, size...), b...)
}

func TestF13ZstdTrailingWhitespaceTOC(t *testing.T) {
	toc := &estargz.JTOC{Version: 1, Entries: []*estargz.TOCEntry{{Name: "a/", Type: "dir", Mode: 0755}}}
	tocJSON, _ := json.Marshal(toc)
	tocJSON = append(tocJSON, bytes.Repeat([]byte(" "), 1<<20)...)
	want := digest.FromBytes(tocJSON)

	var cbuf bytes.Buffer
	enc, _ := zstd.NewWriter(&cbuf)
	enc.Write(tocJSON)
	enc.Close()
	compressedTOC := cbuf.Bytes()

	var blob bytes.Buffer
	enc, _ = zstd.NewWriter(&blob) // empty payload frame
	enc.Close()
	off := uint64(blob.Len())
	blob.Write(skippable(compressedTOC))
	footer := make([]byte, zstdchunked.FooterSize)
	binary.LittleEndian.PutUint64(footer, off+8)
	binary.LittleEndian.PutUint64(footer[8:], uint64(len(compressedTOC)))
	binary.LittleEndian.PutUint64(footer[16:], uint64(len(tocJSON)))
	binary.LittleEndian.PutUint64(footer[24:], 1)
	copy(footer[32:40], []byte{0x47, 0x6e, 0x55, 0x6c, 0x49, 0x6e, 0x55, 0x78})
	blob.Write(skippable(footer))
	sr := func() *io.SectionReader { return io.NewSectionReader(bytes.NewReader(blob.Bytes()), 0, int64(blob.Len())) }

	mr, err := memory.NewReader(sr(), metadata.WithDecompressors(new(zstdchunked.Decompressor)))
	if err != nil {
		t.Fatal(err)
	}
	db, err := bolt.Open(filepath.Join(t.TempDir(), "db"), 0600, nil)
	if err != nil {
		t.Fatal(err)
	}
	defer db.Close()
	dr, err := NewReader(db, sr(), metadata.WithDecompressors(new(zstdchunked.Decompressor)))
	if err != nil {
		t.Fatal(err)
	}
	if dr.TOCDigest() != want {
		t.Errorf("db store: TOC digest %v, want %v", dr.TOCDigest(), want)
	}
	if mr.TOCDigest() != dr.TOCDigest() {
		t.Errorf("the two metadata stores report different TOC digests for the same zstd:chunked blob: memory=%v db=%v", mr.TOCDigest(), dr.TOCDigest())
	}
}
