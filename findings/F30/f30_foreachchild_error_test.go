package reader

import (
	"fmt"
	"io"
	"os"
	"strings"
	"sync/atomic"
	"testing"

	"github.com/containerd/stargz-snapshotter/cache"
	"github.com/containerd/stargz-snapshotter/estargz"
	"github.com/containerd/stargz-snapshotter/metadata"
	memorymetadata "github.com/containerd/stargz-snapshotter/metadata/memory"
	tutil "github.com/containerd/stargz-snapshotter/util/testutil"
	digest "github.com/opencontainers/go-digest"
)

type headC15Registry struct {
	r   io.ReaderAt
	off atomic.Bool
	n   atomic.Int64
}

func (r *headC15Registry) ReadAt(p []byte, off int64) (int, error) {
	r.n.Add(1)
	if r.off.Load() {
		return 0, fmt.Errorf("registry is unreachable")
	}
	return r.r.ReadAt(p, off)
}

// With the default directory cache (SyncAdd=false) chunks are committed to disk
// asynchronously. Right after Cache() (prefetch) returned, a chunk can be neither in
// the small memory LRU nor on disk yet, so reading a prefetched file goes to the registry.
func TestHeadC15AsyncCommitRace(t *testing.T) {
	const chunks = 3000
	content := strings.Repeat("abc", chunks)
	sr, tocDgst, err := tutil.BuildEStargz([]tutil.TarEntry{
		tutil.File("big", content),
	}, tutil.WithEStargzOptions(
		estargz.WithChunkSize(3),
		estargz.WithPrioritizedFiles([]string{"big"}),
	))
	if err != nil {
		t.Fatalf("failed to build eStargz: %v", err)
	}
	for i := 0; i < 10; i++ {
		registry := &headC15Registry{r: sr}
		mr, err := memorymetadata.NewReader(io.NewSectionReader(registry, 0, sr.Size()))
		if err != nil {
			t.Fatalf("failed to create metadata reader: %v", err)
		}
		dc, err := cache.NewDirectoryCache(t.TempDir(), cache.DirectoryCacheConfig{}) // defaults, as in layer.newCache
		if err != nil {
			t.Fatalf("failed to create cache: %v", err)
		}
		vr, err := NewReader(mr, dc, digest.FromString(""))
		if err != nil {
			t.Fatalf("failed to create reader: %v", err)
		}
		r, err := vr.VerifyTOC(tocDgst)
		if err != nil {
			t.Fatalf("failed to verify: %v", err)
		}
		if err := vr.Cache(); err != nil { // prefetch
			t.Fatalf("prefetch failed: %v", err)
		}
		registry.off.Store(true)
		registry.n.Store(0)
		id, _, err := r.Metadata().GetChild(r.Metadata().RootID(), "big")
		if err != nil {
			t.Fatalf("failed to lookup: %v", err)
		}
		ra, err := r.OpenFile(id)
		if err != nil {
			t.Fatalf("failed to open: %v", err)
		}
		buf := make([]byte, len(content))
		_, rerr := ra.ReadAt(buf, 0)
		if n := registry.n.Load(); n != 0 || rerr != nil {
			t.Fatalf("round %d: %d registry accesses right after prefetch completed (read err: %v)", i, n, rerr)
		}
	}
}

type headC15FailingDirReader struct {
	metadata.Reader
	failID uint32
}

func (r *headC15FailingDirReader) ForeachChild(id uint32, f func(name string, id uint32, mode os.FileMode) bool) error {
	if id == r.failID {
		return fmt.Errorf("metadata store is gone")
	}
	return r.Reader.ForeachChild(id, f)
}

// cacheWithReader drops the error returned by metadata.Reader.ForeachChild. Cache()
// (and so prefetch / background fetch) reports success although a directory couldn't be walked.
func TestHeadC15ForeachChildErrorSwallowed(t *testing.T) {
	sr, tocDgst, err := tutil.BuildEStargz([]tutil.TarEntry{
		tutil.File("a", sampleData1),
		tutil.Dir("d/"),
		tutil.File("d/b", sampleData1+"b"),
	}, tutil.WithEStargzOptions(estargz.WithChunkSize(sampleChunkSize)))
	if err != nil {
		t.Fatalf("failed to build eStargz: %v", err)
	}
	registry := &headC15Registry{r: sr}
	mr, err := memorymetadata.NewReader(io.NewSectionReader(registry, 0, sr.Size()))
	if err != nil {
		t.Fatalf("failed to create metadata reader: %v", err)
	}
	dirID, _, err := mr.GetChild(mr.RootID(), "d")
	if err != nil {
		t.Fatalf("failed to lookup d: %v", err)
	}
	fr := &headC15FailingDirReader{Reader: mr, failID: dirID}
	vr, err := NewReader(fr, cache.NewMemoryCache(), digest.FromString(""))
	if err != nil {
		t.Fatalf("failed to create reader: %v", err)
	}
	r, err := vr.VerifyTOC(tocDgst)
	if err != nil {
		t.Fatalf("failed to verify: %v", err)
	}
	if err := vr.Cache(); err != nil {
		return // fine: the failure is reported
	}
	// Cache() claims that everything has been cached.
	registry.off.Store(true)
	id, _, err := mr.GetChild(dirID, "b")
	if err != nil {
		t.Fatalf("failed to lookup d/b: %v", err)
	}
	ra, err := r.OpenFile(id)
	if err != nil {
		t.Fatalf("failed to open: %v", err)
	}
	buf := make([]byte, len(sampleData1)+1)
	if _, err := ra.ReadAt(buf, 0); err != nil {
		t.Errorf("Cache() returned nil but d/b isn't cached: %v", err)
	}
}
