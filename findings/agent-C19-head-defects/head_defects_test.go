// Reproducers for defects observed in the UNMODIFIED tree (not seeds).
// Copy into nativeconverter/estargz/externaltoc/ and run:
//
//	cd /tmp/seed/C19 && GOFLAGS=-mod=mod go test -count=1 -v -run TestC19Head ./nativeconverter/estargz/externaltoc/
//
// All three tests FAIL on HEAD.
package externaltoc

import (
	"archive/tar"
	"bytes"
	"compress/gzip"
	"context"
	"fmt"
	"io"
	"sync"
	"testing"

	"github.com/containerd/containerd/v2/core/content"
	"github.com/containerd/containerd/v2/core/images"
	"github.com/containerd/containerd/v2/pkg/labels"
	"github.com/containerd/containerd/v2/plugins/content/local"
	"github.com/containerd/stargz-snapshotter/estargz"
	estargzconvert "github.com/containerd/stargz-snapshotter/nativeconverter/estargz"
	"github.com/klauspost/compress/zstd"
	"github.com/opencontainers/go-digest"
	ocispec "github.com/opencontainers/image-spec/specs-go/v1"
)

type headLabels struct {
	mu sync.Mutex
	m  map[digest.Digest]map[string]string
}

func (l *headLabels) Get(d digest.Digest) (map[string]string, error) {
	l.mu.Lock()
	defer l.mu.Unlock()
	out := map[string]string{}
	for k, v := range l.m[d] {
		out[k] = v
	}
	return out, nil
}
func (l *headLabels) Set(d digest.Digest, lb map[string]string) error {
	l.mu.Lock()
	defer l.mu.Unlock()
	cp := map[string]string{}
	for k, v := range lb {
		cp[k] = v
	}
	l.m[d] = cp
	return nil
}
func (l *headLabels) Update(d digest.Digest, update map[string]string) (map[string]string, error) {
	l.mu.Lock()
	defer l.mu.Unlock()
	cur := l.m[d]
	if cur == nil {
		cur = map[string]string{}
		l.m[d] = cur
	}
	for k, v := range update {
		if v == "" {
			delete(cur, k)
		} else {
			cur[k] = v
		}
	}
	out := map[string]string{}
	for k, v := range cur {
		out[k] = v
	}
	return out, nil
}

func headStore(t *testing.T) content.Store {
	cs, err := local.NewLabeledStore(t.TempDir(), &headLabels{m: map[digest.Digest]map[string]string{}})
	if err != nil {
		t.Fatal(err)
	}
	return cs
}

func headTar(t *testing.T, seed string) []byte {
	buf := new(bytes.Buffer)
	tw := tar.NewWriter(buf)
	for i := 0; i < 3; i++ {
		data := bytes.Repeat([]byte(fmt.Sprintf("%s-%d;", seed, i)), 300)
		if err := tw.WriteHeader(&tar.Header{Typeflag: tar.TypeReg, Name: fmt.Sprintf("%s/f%d", seed, i), Mode: 0644, Size: int64(len(data))}); err != nil {
			t.Fatal(err)
		}
		if _, err := tw.Write(data); err != nil {
			t.Fatal(err)
		}
	}
	if err := tw.Close(); err != nil {
		t.Fatal(err)
	}
	return buf.Bytes()
}

func headPut(t *testing.T, ctx context.Context, cs content.Store, mt string, blob []byte) ocispec.Descriptor {
	d := ocispec.Descriptor{MediaType: mt, Digest: digest.FromBytes(blob), Size: int64(len(blob))}
	if err := content.WriteBlob(ctx, cs, "src-"+d.Digest.String(), bytes.NewReader(blob), d); err != nil {
		t.Fatal(err)
	}
	return d
}

// (1) zstd source layer converted to (gzip) eStargz keeps the "+zstd" media type.
func TestC19HeadZstdSourceMediaType(t *testing.T) {
	ctx := context.Background()
	cs := headStore(t)
	zbuf := new(bytes.Buffer)
	zw, _ := zstd.NewWriter(zbuf)
	zw.Write(headTar(t, "z"))
	zw.Close()
	desc := headPut(t, ctx, cs, ocispec.MediaTypeImageLayerZstd, zbuf.Bytes())
	out, err := estargzconvert.LayerConvertFunc()(ctx, cs, desc)
	if err != nil {
		t.Fatal(err)
	}
	blob, err := content.ReadBlob(ctx, cs, *out)
	if err != nil {
		t.Fatal(err)
	}
	comp, _ := images.DiffCompression(ctx, out.MediaType)
	t.Logf("media type %q (=%s); blob magic % x", out.MediaType, comp, blob[:4])
	if bytes.HasPrefix(blob, []byte{0x1f, 0x8b}) && comp != "gzip" {
		t.Errorf("gzip eStargz blob is described as %q", out.MediaType)
	}
}

// (2) content blob that already exists: labels (containerd.io/uncompressed) are never applied.
func TestC19HeadAlreadyExistsNoLabel(t *testing.T) {
	ctx := context.Background()
	cs1 := headStore(t)
	src := headTar(t, "a")
	desc := headPut(t, ctx, cs1, ocispec.MediaTypeImageLayer, src)
	out1, err := estargzconvert.LayerConvertFunc()(ctx, cs1, desc)
	if err != nil {
		t.Fatal(err)
	}
	blob, _ := content.ReadBlob(ctx, cs1, *out1)

	// second store: the converted blob is already there (e.g. pulled before), without the label
	cs2 := headStore(t)
	headPut(t, ctx, cs2, ocispec.MediaTypeImageLayer, src)
	headPut(t, ctx, cs2, ocispec.MediaTypeImageLayerGzip, blob)
	out2, err := estargzconvert.LayerConvertFunc()(ctx, cs2, desc)
	if err != nil {
		t.Fatal(err)
	}
	if out2.Digest != out1.Digest {
		t.Fatalf("non-deterministic conversion")
	}
	info, _ := cs2.Info(ctx, out2.Digest)
	if info.Labels[labels.LabelUncompressed] == "" {
		t.Errorf("converted blob %v has no %s label (Commit returned AlreadyExists and the labels were dropped)", out2.Digest, labels.LabelUncompressed)
	}
}

// barrierStore makes every Info() call wait until n callers have arrived.
type barrierStore struct {
	content.Store
	mu      sync.Mutex
	arrived int
	n       int
	ch      chan struct{}
}

func (b *barrierStore) Info(ctx context.Context, d digest.Digest) (content.Info, error) {
	b.mu.Lock()
	b.arrived++
	if b.arrived == b.n {
		close(b.ch)
	}
	b.mu.Unlock()
	<-b.ch
	return b.Store.Info(ctx, d)
}

// (3) externaltoc.LayerConvertFunc appends to the caller's option slice in every (concurrent) call.
func TestC19HeadExternalTOCSharedOptsSlice(t *testing.T) {
	ctx := context.Background()
	base := headStore(t)
	// like getESGZConvertOpts() of ctr-remote with --estargz-record-in / --estargz-gzip-helper:
	// the slice has spare capacity
	esgzOpts := make([]estargz.Option, 0, 8)
	esgzOpts = append(esgzOpts, estargz.WithChunkSize(0))
	lcf, finalize := LayerConvertFunc(esgzOpts, gzip.BestSpeed)

	descs := []ocispec.Descriptor{
		headPut(t, ctx, base, ocispec.MediaTypeImageLayer, headTar(t, "one")),
		headPut(t, ctx, base, ocispec.MediaTypeImageLayer, headTar(t, "two")),
	}
	cs := &barrierStore{Store: base, n: len(descs), ch: make(chan struct{})}
	out := make([]*ocispec.Descriptor, len(descs))
	errs := make([]error, len(descs))
	var wg sync.WaitGroup
	for i := range descs {
		wg.Add(1)
		go func() {
			defer wg.Done()
			defer func() {
				if r := recover(); r != nil {
					errs[i] = fmt.Errorf("panic: %v", r)
				}
			}()
			out[i], errs[i] = lcf(ctx, cs, descs[i])
		}()
	}
	wg.Wait()
	for i, err := range errs {
		if err != nil {
			t.Errorf("layer %d: %v", i, err)
		}
	}
	if t.Failed() {
		return
	}
	img, err := finalize(ctx, base, "example.com/x:y", nil)
	if err != nil {
		t.Fatal(err)
	}
	mb, _ := content.ReadBlob(ctx, base, img.Target)
	t.Logf("TOC manifest: %s", mb)
	_ = io.Discard
}
