package zstdchunked

// Reproducer for finding F12b (property C19): place in
// /repo/nativeconverter/zstdchunked and run
//   go test -run TestF12 ./nativeconverter/zstdchunked
// The ConvertFunc returned by LayerConvertFunc() is one closure for all layers
// and assigns `opts = append(opts, WithCompression(<per-call compressor>))`
// back to the captured variable. Called in parallel (as containerd does), a
// layer is built with another call's compressor, whose metadata map belongs to
// the other call: the emitted descriptor then lacks / mixes up the
// zstd:chunked manifest annotations of the blob that was actually written.

import (
	"bytes"
	"context"
	"fmt"
	"sync"
	"testing"

	"github.com/containerd/containerd/v2/core/content"
	"github.com/containerd/containerd/v2/plugins/content/local"
	"github.com/containerd/stargz-snapshotter/estargz"
	"github.com/containerd/stargz-snapshotter/estargz/zstdchunked"
	"github.com/containerd/stargz-snapshotter/util/testutil"
	"github.com/opencontainers/go-digest"
	ocispec "github.com/opencontainers/image-spec/specs-go/v1"
	"io"
)

func TestF12SharedOpts(t *testing.T) {
	ctx := context.Background()
	for round := 0; round < 20; round++ {
		cs, err := local.NewStore(t.TempDir())
		if err != nil {
			t.Fatal(err)
		}
		var descs []ocispec.Descriptor
		for i := 0; i < 32; i++ {
			var buf bytes.Buffer
			buf.ReadFrom(testutil.BuildTar([]testutil.TarEntry{testutil.File(fmt.Sprintf("f%d-%d", round, i), fmt.Sprintf("data%d", i))}))
			d := ocispec.Descriptor{MediaType: ocispec.MediaTypeImageLayer, Digest: digest.FromBytes(buf.Bytes()), Size: int64(buf.Len())}
			if err := content.WriteBlob(ctx, cs, d.Digest.String(), bytes.NewReader(buf.Bytes()), d); err != nil {
				t.Fatal(err)
			}
			descs = append(descs, d)
		}
		cf := LayerConvertFunc()
		out := make([]*ocispec.Descriptor, len(descs))
		var wg sync.WaitGroup
		for i, d := range descs {
			wg.Add(1)
			go func() {
				defer wg.Done()
				nd, err := cf(ctx, cs, d)
				if err != nil {
					t.Errorf("convert: %v", err)
					return
				}
				out[i] = nd
			}()
		}
		wg.Wait()
		for i, nd := range out {
			if nd == nil {
				continue
			}
			pos, ok := nd.Annotations[zstdchunked.ManifestPositionAnnotation]
			if !ok {
				t.Fatalf("round %d layer %d: descriptor lacks the zstd:chunked manifest position of the blob it describes", round, i)
			}
			// the annotation must describe this very blob: parse it the same way the runtime does
			ra, err := cs.ReaderAt(ctx, *nd)
			if err != nil {
				t.Fatal(err)
			}
			var off, clen, ulen, ty int64
			fmt.Sscanf(pos, "%d:%d:%d:%d", &off, &clen, &ulen, &ty)
			sr := io.NewSectionReader(ra, 0, nd.Size)
			if _, err := estargz.Open(sr, estargz.WithDecompressors(new(zstdchunked.Decompressor)), estargz.WithTOCOffset(off)); err != nil {
				t.Fatalf("round %d layer %d: descriptor's manifest position %q does not locate the TOC of the written blob: %v", round, i, pos, err)
			}
			if off+clen > nd.Size {
				t.Fatalf("round %d layer %d: manifest position %q lies outside the blob of size %d", round, i, pos, nd.Size)
			}
			ra.Close()
		}
	}
}
