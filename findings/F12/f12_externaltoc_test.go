package externaltoc

// Reproducer for finding F12a (property C19): place in
// /repo/nativeconverter/estargz/externaltoc and run
//   go test -run TestF12 ./nativeconverter/estargz/externaltoc          (stress: crash or lost TOC records)
//   F12_CHILD=1 go test -race -run TestF12 ./nativeconverter/estargz/externaltoc   (reports the data race on the map deterministically)
// containerd's converter calls one ConvertFunc for all layers of a manifest in
// parallel (errgroup in core/images/converter.convertManifest). The external
// TOC converter records every layer's TOC in a plain map shared by those
// calls: concurrent map writes are a fatal runtime error, so the victim runs
// in a child process.

import (
	"bytes"
	"encoding/json"
	"context"
	"fmt"
	"os"
	"os/exec"
	"sync"
	"testing"

	"github.com/containerd/containerd/v2/core/content"
	"github.com/containerd/containerd/v2/plugins/content/local"
	"github.com/containerd/stargz-snapshotter/util/testutil"
	"github.com/opencontainers/go-digest"
	ocispec "github.com/opencontainers/image-spec/specs-go/v1"
)

func TestF12ConcurrentLayers(t *testing.T) {
	if os.Getenv("F12_CHILD") == "1" {
		ctx := context.Background()
		cs, err := local.NewStore(t.TempDir())
		if err != nil {
			t.Fatal(err)
		}
		var descs []ocispec.Descriptor
		for i := 0; i < 64; i++ {
			var buf bytes.Buffer
			buf.ReadFrom(testutil.BuildTar([]testutil.TarEntry{testutil.File(fmt.Sprintf("f%d", i), fmt.Sprintf("data%d", i))}))
			d := ocispec.Descriptor{MediaType: ocispec.MediaTypeImageLayer, Digest: digest.FromBytes(buf.Bytes()), Size: int64(buf.Len())}
			if err := content.WriteBlob(ctx, cs, d.Digest.String(), bytes.NewReader(buf.Bytes()), d); err != nil {
				t.Fatal(err)
			}
			descs = append(descs, d)
		}
		cf, finalize := LayerConvertFunc(nil, 6)
		var wg sync.WaitGroup
		for _, d := range descs {
			wg.Add(1)
			go func() {
				defer wg.Done()
				if _, err := cf(ctx, cs, d); err != nil {
					fmt.Println("convert error:", err)
				}
			}()
		}
		wg.Wait()
		img, err := finalize(ctx, cs, "example.com/img:1", nil)
		fmt.Println("child finished:", img != nil, err)
		if err == nil {
			// every converted layer must have its TOC recorded in the TOC manifest
			b, rerr := content.ReadBlob(ctx, cs, img.Target)
			var m ocispec.Manifest
			if rerr != nil || json.Unmarshal(b, &m) != nil || len(m.Layers) != len(descs) {
				fmt.Printf("TOC manifest lists %d TOCs for %d converted layers (%v)\n", len(m.Layers), len(descs), rerr)
				os.Exit(3)
			}
		}
		return
	}
	for round := 0; round < 30; round++ {
		cmd := exec.Command(os.Args[0], "-test.run", "TestF12ConcurrentLayers")
		cmd.Env = append(os.Environ(), "F12_CHILD=1")
		out, err := cmd.CombinedOutput()
		if err != nil {
			if len(out) > 400 {
				out = out[:400]
			}
			t.Fatalf("converting the layers of one manifest in parallel crashed the converter: %v\n%s", err, out)
		}
	}
}
