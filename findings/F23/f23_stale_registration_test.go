// Reproducer F23 (C12/C09): filesystem.Mount registers the layer in fs.layer before the FUSE server is up. When the
// FUSE mount fails (here: the mountpoint does not exist) the layer reference is dropped but the registration stays, so
// Check(mountpoint) reports an unmounted directory as available.
// Copy into fs/ and run:  go test ./fs/ -run TestF23 -count=1
package fs

import (
	"bytes"
	"context"
	"crypto/sha256"
	"fmt"
	"io"
	"path/filepath"
	"testing"

	"github.com/containerd/containerd/v2/core/remotes/docker"
	"github.com/containerd/containerd/v2/pkg/reference"
	"github.com/containerd/stargz-snapshotter/estargz"
	"github.com/containerd/stargz-snapshotter/fs/config"
	"github.com/containerd/stargz-snapshotter/fs/remote"
	"github.com/containerd/stargz-snapshotter/fs/source"
	tutil "github.com/containerd/stargz-snapshotter/util/testutil"
	digest "github.com/opencontainers/go-digest"
	ocispec "github.com/opencontainers/image-spec/specs-go/v1"
)

type f23Handler struct{ blob []byte }

func (h *f23Handler) Handle(ctx context.Context, desc ocispec.Descriptor) (remote.Fetcher, int64, error) {
	return &f23Fetcher{h.blob}, int64(len(h.blob)), nil
}

type f23Fetcher struct{ blob []byte }

func (f *f23Fetcher) Fetch(ctx context.Context, off int64, size int64) (io.ReadCloser, error) {
	if off < 0 || off > int64(len(f.blob)) {
		return nil, fmt.Errorf("out of range")
	}
	end := off + size
	if end > int64(len(f.blob)) {
		end = int64(len(f.blob))
	}
	return io.NopCloser(bytes.NewReader(f.blob[off:end])), nil
}
func (f *f23Fetcher) Check() error { return nil }
func (f *f23Fetcher) GenID(off int64, size int64) string {
	return fmt.Sprintf("%x", sha256.Sum256([]byte(fmt.Sprintf("%d-%d", off, size))))
}

func TestF23FailedMountLeavesNoRegistration(t *testing.T) {
	sr, tocDgst, err := tutil.BuildEStargz([]tutil.TarEntry{tutil.File("hello.txt", "hello")},
		tutil.WithEStargzOptions(estargz.WithChunkSize(8)))
	if err != nil {
		t.Fatal(err)
	}
	blob, err := io.ReadAll(sr)
	if err != nil {
		t.Fatal(err)
	}
	root := t.TempDir()
	mountpoint := filepath.Join(root, "does", "not", "exist") // the FUSE mount will fail
	fsys, err := NewFilesystem(filepath.Join(root, "fsroot"), config.Config{
		NoPrefetch:        true,
		NoBackgroundFetch: true,
		NoPrometheus:      true,
		HTTPCacheType:     "memory",
		FSCacheType:       "memory",
	},
		WithResolveHandler("mem", &f23Handler{blob}),
		WithGetSources(source.FromDefaultLabels(func(reference.Spec) ([]docker.RegistryHost, error) {
			return nil, fmt.Errorf("no registry in this test")
		})),
	)
	if err != nil {
		t.Fatal(err)
	}
	layerDigest := digest.FromBytes(blob).String()
	labels := map[string]string{
		"containerd.io/snapshot/remote/stargz.reference": "registry.example.com/test/img:latest",
		"containerd.io/snapshot/remote/stargz.digest":    layerDigest,
		"containerd.io/snapshot/remote/stargz.layers":    layerDigest,
		estargz.TOCJSONDigestAnnotation:                  tocDgst.String(),
	}
	if err := fsys.Mount(context.Background(), mountpoint, labels); err == nil {
		fsys.Unmount(context.Background(), mountpoint)
		t.Skip("mount unexpectedly succeeded; cannot exercise the failure path here")
	} else {
		t.Logf("mount failed as intended: %v", err)
	}
	if err := fsys.Check(context.Background(), mountpoint, labels); err == nil {
		t.Fatalf("Check reports the mountpoint %q as available although its mount failed", mountpoint)
	} else {
		t.Logf("Check refuses the mountpoint: %v", err)
	}
}
