// Reproducers F24 (C05): the bolt metadata store and the memory store must expose the same tree for
//  (a) a TOC in which a directory's child precedes the directory's own entry (builder-reachable: a tar that repeats
//      directory entries; estargz.Build keeps the last duplicate, so "a/f" comes before "a/"), and
//  (b) a tar that carries an entry for the root directory itself ("./").
// Copy into cmd/containerd-stargz-grpc/db/ and run: cd cmd && go test ./containerd-stargz-grpc/db/ -run TestF24 -count=1
package db

import (
	"fmt"
	"io"
	"os"
	"sort"
	"strings"
	"testing"

	"github.com/containerd/stargz-snapshotter/metadata"
	memorymetadata "github.com/containerd/stargz-snapshotter/metadata/memory"
	tutil "github.com/containerd/stargz-snapshotter/util/testutil"
	bolt "go.etcd.io/bbolt"
)

func f24Dump(r metadata.Reader) (string, error) {
	var sb strings.Builder
	fmt.Fprintf(&sb, "toc=%s\n", r.TOCDigest())
	if _, err := r.GetOffset(r.RootID()); err != nil { // waits for the initialization
		return "", err
	}
	var walk func(id uint32, p string, depth int) error
	walk = func(id uint32, p string, depth int) error {
		if depth > 16 {
			return fmt.Errorf("too deep: %q", p)
		}
		attr, err := r.GetAttr(id)
		if err != nil {
			return err
		}
		if attr.NumLink == 0 {
			attr.NumLink = 1 // zero means one (see fs/layer/node.go)
		}
		fmt.Fprintf(&sb, "%q mode=%v size=%d nlink=%d uid=%d gid=%d link=%q\n", p, attr.Mode, attr.Size, attr.NumLink, attr.UID, attr.GID, attr.LinkName)
		if attr.Mode.IsRegular() {
			f, err := r.OpenFile(id)
			if err != nil {
				return err
			}
			data := make([]byte, attr.Size)
			if _, err := f.ReadAt(data, 0); err != nil && err != io.EOF {
				return err
			}
			fmt.Fprintf(&sb, "   data=%q\n", string(data))
		}
		if attr.Mode.IsDir() {
			children := map[string]uint32{}
			var names []string
			if err := r.ForeachChild(id, func(name string, id uint32, mode os.FileMode) bool {
				children[name] = id
				names = append(names, name)
				return true
			}); err != nil {
				return err
			}
			sort.Strings(names)
			for _, n := range names {
				if err := walk(children[n], p+"/"+n, depth+1); err != nil {
					return err
				}
			}
		}
		return nil
	}
	err := walk(r.RootID(), "", 0)
	return sb.String(), err
}

func f24Diff(t *testing.T, sr *io.SectionReader) {
	t.Helper()
	f, err := os.CreateTemp("", "f24")
	if err != nil {
		t.Fatal(err)
	}
	f.Close()
	defer os.Remove(f.Name())
	bdb, err := bolt.Open(f.Name(), 0600, nil)
	if err != nil {
		t.Fatal(err)
	}
	defer bdb.Close()
	var dbDump string
	dr, dbErr := NewReader(bdb, sr)
	if dbErr == nil {
		defer dr.Close()
		dbDump, dbErr = f24Dump(dr)
	}
	var memDump string
	mr, memErr := memorymetadata.NewReader(sr)
	if memErr == nil {
		defer mr.Close()
		memDump, memErr = f24Dump(mr)
	}
	if (dbErr == nil) != (memErr == nil) {
		t.Fatalf("the stores disagree on accepting the blob: memory: %v; db: %v", memErr, dbErr)
	}
	if dbErr != nil {
		t.Fatalf("both stores rejected the blob: memory: %v; db: %v", memErr, dbErr)
	}
	if memDump != dbDump {
		t.Fatalf("the stores expose different filesystems:\n--- memory\n%s--- db\n%s", memDump, dbDump)
	}
}

func TestF24ChildBeforeDirectory(t *testing.T) {
	// the tar repeats the directory entries; Build keeps the last occurrence of each name
	sr, _, err := tutil.BuildEStargz([]tutil.TarEntry{
		tutil.Dir("a/"),
		tutil.File("a/f", "ffff"),
		tutil.Dir("a/b/"),
		tutil.Dir("c/"),
		tutil.Dir("a/"),
		tutil.Dir("a/b/"),
	})
	if err != nil {
		t.Fatal(err)
	}
	f24Diff(t, sr)
}

func TestF24RootEntry(t *testing.T) {
	sr, _, err := tutil.BuildEStargz([]tutil.TarEntry{
		tutil.Dir("./"),
		tutil.File("./foo", "foo"),
		tutil.Dir("./a/"),
	})
	if err != nil {
		t.Fatal(err)
	}
	f24Diff(t, sr)
}
