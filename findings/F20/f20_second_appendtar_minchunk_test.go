package estargz

// Reproducer F20 (C03): a Writer with MinChunkSize > 0 that receives two AppendTar calls. The second call starts while
// the compression stream of the first is still open; its first small file must nevertheless be readable through the TOC
// (Offset = start of a stream, InnerOffset relative to that stream). Copy into estargz/ and run: go test -run TestF20 .

import (
	"archive/tar"
	"bytes"
	"io"
	"testing"
)

func f20tar(t *testing.T, name, content string) io.Reader {
	var buf bytes.Buffer
	tw := tar.NewWriter(&buf)
	if err := tw.WriteHeader(&tar.Header{Name: name, Typeflag: tar.TypeReg, Mode: 0644, Size: int64(len(content))}); err != nil {
		t.Fatal(err)
	}
	if _, err := tw.Write([]byte(content)); err != nil {
		t.Fatal(err)
	}
	if err := tw.Close(); err != nil {
		t.Fatal(err)
	}
	return &buf
}

func TestF20SecondAppendTarWithMinChunkSize(t *testing.T) {
	var out bytes.Buffer
	w := NewWriter(&out)
	w.MinChunkSize = 4096
	if err := w.AppendTar(f20tar(t, "first.txt", "first-contents")); err != nil {
		t.Fatal(err)
	}
	if err := w.AppendTar(f20tar(t, "second.txt", "second-contents")); err != nil {
		t.Fatal(err)
	}
	if _, err := w.Close(); err != nil {
		t.Fatal(err)
	}
	r, err := Open(io.NewSectionReader(bytes.NewReader(out.Bytes()), 0, int64(out.Len())))
	if err != nil {
		t.Fatal(err)
	}
	for name, want := range map[string]string{"first.txt": "first-contents", "second.txt": "second-contents"} {
		e, ok := r.Lookup(name)
		if !ok {
			t.Fatalf("%s not found", name)
		}
		sr, err := r.OpenFile(name)
		if err != nil {
			t.Fatalf("%s (off=%d inner=%d): %v", name, e.Offset, e.InnerOffset, err)
		}
		got, err := io.ReadAll(sr)
		if err != nil {
			t.Fatalf("%s (off=%d inner=%d): %v", name, e.Offset, e.InnerOffset, err)
		}
		if string(got) != want {
			t.Fatalf("%s (off=%d inner=%d): got %q want %q", name, e.Offset, e.InnerOffset, got, want)
		}
	}
}
