package zstdchunked

// Reproducer for C04 finding F3 (place in /repo/estargz/zstdchunked).
// estargz.Open hands ParseFooter a slice shorter than the footer when the TOC
// offset taken from the zstd:chunked manifest annotation lies within the last
// FooterSize bytes of the blob (fetchSize = blobSize - tocOffset < 40).

import (
	"bytes"
	"io"
	"testing"

	"github.com/containerd/stargz-snapshotter/estargz"
)

func TestC04F3TinyBlob(t *testing.T) {
	defer func() {
		if r := recover(); r != nil {
			t.Errorf("panic: %v", r)
		}
	}()
	blob := make([]byte, 100)
	sr := io.NewSectionReader(bytes.NewReader(blob), 0, int64(len(blob)))
	if _, err := estargz.Open(sr, estargz.WithDecompressors(new(Decompressor)), estargz.WithTOCOffset(90)); err == nil {
		t.Errorf("expected an error")
	}
}
