package externaltoc

// Reproducer for C04 finding F2 (place in /repo/estargz/externaltoc):
// a FooterSize-long gzip stream without an extra field.

import (
	"bytes"
	"compress/gzip"
	"testing"
)

func TestC04F2NoExtra(t *testing.T) {
	defer func() {
		if r := recover(); r != nil {
			t.Errorf("panic: %v", r)
		}
	}()
	var buf bytes.Buffer
	gz, _ := gzip.NewWriterLevel(&buf, gzip.NoCompression)
	gz.Write(bytes.Repeat([]byte{'x'}, FooterSize))
	gz.Close()
	p := buf.Bytes()[:FooterSize]
	if _, _, _, err := new(GzipDecompressor).ParseFooter(p); err == nil {
		t.Errorf("expected an error")
	}
}
