package estargz

// Reproducers for C04 findings F1, F4, F5, F8, F17 and F7 (place in /repo/estargz,
// run `go test -run TestC04 ./` in the estargz module). Every sub-test feeds
// untrusted bytes and requires "error or success, never a panic / stack overflow".

import (
	"bytes"
	"compress/gzip"
	"encoding/json"
	"archive/tar"
	"fmt"
	"io"
	"os"
	"os/exec"
	"testing"
)

func noPanic(t *testing.T, name string, f func()) {
	t.Helper()
	defer func() {
		if r := recover(); r != nil {
			t.Errorf("%s: panic: %v", name, r)
		}
	}()
	f()
}

// F1: 51-byte footer whose gzip extra field is only 4 bytes long but declares a 22-byte subfield.
func TestC04F1ShortExtra(t *testing.T) {
	var buf bytes.Buffer
	gz, _ := gzip.NewWriterLevel(&buf, gzip.NoCompression)
	gz.Extra = []byte{'S', 'G', 22, 0}
	gz.Close()
	p := buf.Bytes()
	for len(p) < FooterSize {
		p = append(p, 0)
	}
	p = p[:FooterSize]
	noPanic(t, "GzipDecompressor.ParseFooter", func() { new(GzipDecompressor).ParseFooter(p) })
}

func tocBlob(t *testing.T, toc *JTOC) *io.SectionReader {
	var blob bytes.Buffer
	// an (empty) gzip member as payload
	gz := gzip.NewWriter(&blob)
	gz.Close()
	off := int64(blob.Len())
	if _, err := new(GzipCompressor).WriteTOCAndFooter(&blob, off, toc, nil); err != nil {
		t.Fatal(err)
	}
	return io.NewSectionReader(bytes.NewReader(blob.Bytes()), 0, int64(blob.Len()))
}

// F4: footer whose TOC offset points beyond the blob: negative TOC size.
func TestC04F4NegativeTOCSize(t *testing.T) {
	footer := gzipFooterBytes(1 << 40)
	blob := append(make([]byte, 100), footer...)
	sr := io.NewSectionReader(bytes.NewReader(blob), 0, int64(len(blob)))
	noPanic(t, "Open", func() {
		if _, err := Open(sr); err == nil {
			t.Errorf("expected an error")
		}
	})
}

// F17: TOC entry with a huge size and chunk size 1: capacity hint derived from untrusted integers.
func TestC04F17HugeChunkCount(t *testing.T) {
	toc := &JTOC{Version: 1, Entries: []*TOCEntry{{Name: "a", Type: "reg", Size: 1 << 62, ChunkSize: 1, Offset: 10}}}
	noPanic(t, "Open", func() { Open(tocBlob(t, toc)) })
}

// F5: a hardlink that points to itself. A stack overflow is fatal (not recoverable),
// so the victim runs in a child process.
func TestC04F5HardlinkSelf(t *testing.T) {
	if os.Getenv("C04_CHILD") == "F5" {
		toc := &JTOC{Version: 1, Entries: []*TOCEntry{{Name: "a", Type: "hardlink", LinkName: "a"}}}
		_, err := Open(tocBlob(t, toc))
		fmt.Println("child finished:", err)
		return
	}
	cmd := exec.Command(os.Args[0], "-test.run", "TestC04F5HardlinkSelf")
	cmd.Env = append(os.Environ(), "C04_CHILD=F5", "GOMAXPROCS=2")
	out, err := cmd.CombinedOutput()
	if err != nil {
		t.Errorf("Open crashed on a self-referencing hardlink: %v\n%s", err, firstLines(out))
	}
}

func firstLines(b []byte) string {
	if len(b) > 300 {
		b = b[:300]
	}
	return string(b)
}

// F8: input that starts with the gzip magic but is not a gzip stream.
func TestC04F8TruncatedGzipInput(t *testing.T) {
	w := NewWriter(io.Discard)
	noPanic(t, "AppendTar", func() {
		if err := w.AppendTar(bytes.NewReader([]byte{0x1f, 0x8b, 0x08})); err == nil {
			t.Errorf("expected an error")
		}
	})
}

// F7: prioritized file that is part of a hardlink cycle (builder input).
func TestC04F7PrioritizedHardlinkCycle(t *testing.T) {
	if os.Getenv("C04_CHILD") == "F7" {
		var buf bytes.Buffer
		tw := tar.NewWriter(&buf)
		tw.WriteHeader(&tar.Header{Name: "a", Typeflag: tar.TypeLink, Linkname: "b"})
		tw.WriteHeader(&tar.Header{Name: "b", Typeflag: tar.TypeLink, Linkname: "a"})
		tw.Close()
		sr := io.NewSectionReader(bytes.NewReader(buf.Bytes()), 0, int64(buf.Len()))
		_, err := Build(sr, WithPrioritizedFiles([]string{"a"}))
		fmt.Println("child finished:", err)
		return
	}
	cmd := exec.Command(os.Args[0], "-test.run", "TestC04F7PrioritizedHardlinkCycle")
	cmd.Env = append(os.Environ(), "C04_CHILD=F7", "GOMAXPROCS=2")
	out, err := cmd.CombinedOutput()
	if err != nil {
		t.Errorf("Build crashed on a hardlink cycle: %v\n%s", err, firstLines(out))
	}
}

var _ = json.Marshal
