package db

// Reproducer for C04 finding F4 in the DB metadata store (place in
// /repo/cmd/containerd-stargz-grpc/db): TOC offset beyond the blob.

import (
	"bytes"
	"compress/gzip"
	"fmt"
	"io"
	"path/filepath"
	"testing"

	bolt "go.etcd.io/bbolt"
)

func footer(tocOff int64) []byte {
	buf := bytes.NewBuffer(make([]byte, 0, 51))
	zw, _ := gzip.NewWriterLevel(buf, gzip.NoCompression)
	header := make([]byte, 4)
	header[0], header[1] = 'S', 'G'
	subfield := fmt.Sprintf("%016xSTARGZ", tocOff)
	header[2], header[3] = byte(len(subfield)), 0
	zw.Extra = append(header, []byte(subfield)...)
	zw.Close()
	return buf.Bytes()
}

func TestC04F4NegativeTOCSizeDB(t *testing.T) {
	defer func() {
		if r := recover(); r != nil {
			t.Errorf("panic: %v", r)
		}
	}()
	db, err := bolt.Open(filepath.Join(t.TempDir(), "db"), 0600, nil)
	if err != nil {
		t.Fatal(err)
	}
	defer db.Close()
	blob := append(make([]byte, 100), footer(1<<40)...)
	if _, err := NewReader(db, io.NewSectionReader(bytes.NewReader(blob), 0, int64(len(blob)))); err == nil {
		t.Errorf("expected an error")
	}
}
