package memory

// Reproducer for C04 finding F6 (place in /repo/metadata/memory): a hardlink
// whose target is its own parent directory makes the entry tree cyclic and
// assignIDs recurses until the stack overflows (fatal).

import (
	"bytes"
	"compress/gzip"
	"fmt"
	"io"
	"os"
	"os/exec"
	"testing"

	"github.com/containerd/stargz-snapshotter/estargz"
)

func TestC04F6HardlinkToParentDir(t *testing.T) {
	if os.Getenv("C04_CHILD") == "F6" {
		toc := &estargz.JTOC{Version: 1, Entries: []*estargz.TOCEntry{
			{Name: "a/", Type: "dir"},
			{Name: "a/b", Type: "hardlink", LinkName: "a"},
		}}
		var blob bytes.Buffer
		gz := gzip.NewWriter(&blob)
		gz.Close()
		if _, err := new(estargz.GzipCompressor).WriteTOCAndFooter(&blob, int64(blob.Len()), toc, nil); err != nil {
			t.Fatal(err)
		}
		_, err := NewReader(io.NewSectionReader(bytes.NewReader(blob.Bytes()), 0, int64(blob.Len())))
		fmt.Println("child finished:", err)
		return
	}
	cmd := exec.Command(os.Args[0], "-test.run", "TestC04F6HardlinkToParentDir")
	cmd.Env = append(os.Environ(), "C04_CHILD=F6", "GOMAXPROCS=2")
	out, err := cmd.CombinedOutput()
	if err != nil {
		if len(out) > 300 {
			out = out[:300]
		}
		t.Errorf("NewReader crashed on a hardlink to the parent directory: %v\n%s", err, out)
	}
}
