package estargz

// Reproducer F19 (C03/C14): a prioritized hardlink whose target does not exist in the tar, built with
// WithAllowPrioritizeNotFound, must not silently vanish from the built blob: either it stays (and the dangling link is
// rejected loudly, as before commit 3d47154) or the build fails. Copy into estargz/ and run: go test -run TestF19 .

import (
	"archive/tar"
	"bytes"
	"io"
	"testing"
)

func TestF19DanglingPrioritizedHardlink(t *testing.T) {
	var buf bytes.Buffer
	tw := tar.NewWriter(&buf)
	must := func(err error) {
		if err != nil {
			t.Fatal(err)
		}
	}
	must(tw.WriteHeader(&tar.Header{Name: "a.txt", Typeflag: tar.TypeReg, Mode: 0644, Size: 1}))
	_, err := tw.Write([]byte("a"))
	must(err)
	must(tw.WriteHeader(&tar.Header{Name: "h", Typeflag: tar.TypeLink, Linkname: "missing", Mode: 0644}))
	must(tw.Close())
	in := io.NewSectionReader(bytes.NewReader(buf.Bytes()), 0, int64(buf.Len()))

	var missed []string
	blob, err := Build(in, WithPrioritizedFiles([]string{"h"}), WithAllowPrioritizeNotFound(&missed))
	if err != nil {
		t.Logf("Build rejects the dangling hardlink loudly (fine): %v", err)
		return
	}
	defer blob.Close()
	data, err := io.ReadAll(blob)
	must(err)
	r, err := Open(io.NewSectionReader(bytes.NewReader(data), 0, int64(len(data))))
	if err != nil {
		t.Logf("the built blob keeps the dangling hardlink and Open rejects it loudly (fine): %v", err)
		return
	}
	// The build succeeded and the blob opens: the entry must not have silently vanished from the layer.
	for _, e := range r.toc.Entries {
		if e.Name == "h" {
			return
		}
	}
	t.Fatalf("hardlink entry %q was silently dropped from the built blob (missed=%v)", "h", missed)
}
