// Reproducer F27 (C04): with passthrough enabled, opening a file whose chunk straddles a merge-buffer boundary (chunk size
// 3, merge buffer 4, 10-byte file) makes processBatchChunks slice the batch buffer beyond its length. The panic happens in
// an errgroup goroutine, so it cannot be recovered and takes the snapshotter down. Chunk geometry comes from the layer's
// TOC, i.e. from untrusted bytes.
// Copy into fs/reader/ and run: go test ./fs/reader/ -run TestF27 -count=1
package reader

import (
	"testing"

	"github.com/containerd/stargz-snapshotter/cache"
	"github.com/containerd/stargz-snapshotter/estargz"
	memorymetadata "github.com/containerd/stargz-snapshotter/metadata/memory"
	tutil "github.com/containerd/stargz-snapshotter/util/testutil"
	digest "github.com/opencontainers/go-digest"
)

func TestF27PassthroughChunkStraddlesMergeBuffer(t *testing.T) {
	sr, tocDgst, err := tutil.BuildEStargz([]tutil.TarEntry{tutil.File("data.bin", "0123456789")},
		tutil.WithEStargzOptions(estargz.WithChunkSize(3)))
	if err != nil {
		t.Fatal(err)
	}
	mr, err := memorymetadata.NewReader(sr)
	if err != nil {
		t.Fatal(err)
	}
	dc, err := cache.NewDirectoryCache(t.TempDir(), cache.DirectoryCacheConfig{SyncAdd: true})
	if err != nil {
		t.Fatal(err)
	}
	vr, err := NewReader(mr, dc, digest.FromString(""))
	if err != nil {
		t.Fatal(err)
	}
	r, err := vr.VerifyTOC(tocDgst)
	if err != nil {
		t.Fatal(err)
	}
	id, _, err := r.Metadata().GetChild(r.Metadata().RootID(), "data.bin")
	if err != nil {
		t.Fatal(err)
	}
	ra, err := r.OpenFile(id)
	if err != nil {
		t.Fatal(err)
	}
	getter, ok := ra.(PassthroughFdGetter)
	if !ok {
		t.Fatal("file does not support passthrough")
	}
	// merge buffer of 4 bytes, 2 workers: the chunk [3,6) straddles the boundary at 4
	_, cr, err := getter.GetPassthroughFd(4, 2)
	if err != nil {
		t.Logf("GetPassthroughFd reports an error (acceptable): %v", err)
		return
	}
	defer cr.Close()
	got := make([]byte, 10)
	if n, err := cr.ReadAt(got, 0); err != nil || n != 10 || string(got) != "0123456789" {
		t.Fatalf("passthrough file contents = %q (n=%d, err=%v)", got[:n], n, err)
	}
}
