// Reproducer F25 (C08): Update without field paths (or with the field path "labels") replaces all labels of a snapshot,
// the snapshotter's own remote mark included. Afterwards Prepare on top of that snapshot hands out mounts although the
// backend's connectivity check for the remote layer fails (the check is never called), and Close no longer unmounts it.
// Copy into snapshot/ and run: go test ./snapshot/ -run TestF25 -count=1   (no root needed; the backend is a fake)
package snapshot

import (
	"context"
	"fmt"
	"sync"
	"testing"

	"github.com/containerd/containerd/v2/core/snapshots"
	"github.com/containerd/errdefs"
)

type f25Fs struct {
	mu     sync.Mutex
	broken bool
	checks int
}

func (f *f25Fs) Mount(ctx context.Context, mountpoint string, labels map[string]string) error {
	return nil
}
func (f *f25Fs) Check(ctx context.Context, mountpoint string, labels map[string]string) error {
	f.mu.Lock()
	defer f.mu.Unlock()
	f.checks++
	if f.broken {
		return fmt.Errorf("connection lost")
	}
	return nil
}
func (f *f25Fs) Unmount(ctx context.Context, mountpoint string) error { return nil }

func TestF25UpdateKeepsRemoteMark(t *testing.T) {
	for _, fieldpaths := range [][]string{nil, {"labels"}} {
		t.Run(fmt.Sprintf("fieldpaths=%v", fieldpaths), func(t *testing.T) {
			ctx := context.Background()
			backend := &f25Fs{}
			sn, err := NewSnapshotter(ctx, t.TempDir(), backend, NoRestore)
			if err != nil {
				t.Fatal(err)
			}
			defer sn.Close()
			_, err = sn.Prepare(ctx, "extract-0", "", snapshots.WithLabels(map[string]string{targetSnapshotLabel: "L0"}))
			if !errdefs.IsAlreadyExists(err) {
				t.Fatalf("remote prepare: %v", err)
			}
			info, err := sn.Stat(ctx, "L0")
			if err != nil || info.Labels[remoteLabel] == "" {
				t.Fatalf("L0 is not a remote snapshot: %v %v", info.Labels, err)
			}
			// a client updates the labels of the committed snapshot
			if _, err := sn.Update(ctx, snapshots.Info{Name: "L0", Labels: map[string]string{"containerd.io/gc.root": "x"}}, fieldpaths...); err != nil {
				t.Fatalf("Update: %v", err)
			}
			backend.mu.Lock()
			backend.broken = true
			backend.checks = 0
			backend.mu.Unlock()
			_, err = sn.Prepare(ctx, "c", "L0")
			backend.mu.Lock()
			checks := backend.checks
			backend.mu.Unlock()
			if err == nil {
				t.Fatalf("mounts were handed out for a chain whose remote layer fails its check (Check called %d times)", checks)
			}
			if !errdefs.IsUnavailable(err) {
				t.Fatalf("unexpected error: %v", err)
			}
		})
	}
}
