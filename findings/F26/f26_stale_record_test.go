// Reproducer F26 (C17/C09): after an unclean stop the fuse manager's store still lists the mountpoints. A newly started
// manager re-mounts them during Init (restoreFuseInfo) and remembers them in fsMap. The restoring snapshotter then
// force-unmounts everything below its snapshots directory and asks the manager to mount each remote snapshot again, but
// Server.mount answers "already mounted" from fsMap without looking at the mount table: nothing is mounted, although the
// record and the manager's table say so.
// Copy into fusemanager/ and run: go test ./fusemanager/ -run TestF26 -count=1
package fusemanager

import (
	"context"
	"net"
	"path/filepath"
	"testing"

	pb "github.com/containerd/stargz-snapshotter/fusemanager/api"
	"google.golang.org/grpc"
)

func TestF26MountAfterExternalUnmount(t *testing.T) {
	ctx := context.Background()
	tmpDir := t.TempDir()
	store := filepath.Join(tmpDir, "fusestore.db")
	mp := filepath.Join(tmpDir, "snapshots", "1", "fs")

	newServer := func(sock string) (*Server, *mockFileSystem) {
		l, err := net.Listen("unix", filepath.Join(tmpDir, sock))
		if err != nil {
			t.Fatal(err)
		}
		t.Cleanup(func() { l.Close() })
		fm, err := NewFuseManager(ctx, l, grpc.NewServer(), store, filepath.Join(tmpDir, sock+".addr"))
		if err != nil {
			t.Fatal(err)
		}
		fsys := newMockFileSystem(t)
		fm.curFs = fsys
		fm.config = &Config{}
		fm.status = FuseManagerReady
		return fm, fsys
	}

	// first life: one mount is recorded, then the process dies without Close
	fm1, _ := newServer("a.sock")
	if _, err := fm1.Mount(ctx, &pb.MountRequest{Mountpoint: mp, Labels: map[string]string{"k": "v"}}); err != nil {
		t.Fatal(err)
	}
	if err := fm1.ms.Close(); err != nil { // release the bolt file lock; the store file stays
		t.Fatal(err)
	}

	// second life: Init restores the recorded mountpoint
	fm2, fs2 := newServer("b.sock")
	if err := fm2.restoreFuseInfo(ctx); err != nil {
		t.Fatal(err)
	}
	if !fs2.mountCalled {
		t.Fatal("restore did not mount the recorded mountpoint")
	}
	// the restoring snapshotter force-unmounts the directory (nothing is mounted at mp in this test either),
	// then asks for the mount again
	fs2.mountCalled = false
	if _, err := fm2.Mount(ctx, &pb.MountRequest{Mountpoint: mp, Labels: map[string]string{"k": "v"}}); err != nil {
		t.Fatal(err)
	}
	if !fs2.mountCalled {
		t.Fatalf("Mount(%q) succeeded without mounting although the mount table shows nothing mounted there", mp)
	}
}
