// NOT a seed: probes for two genuine defects of the UNMODIFIED HEAD that violate C01.
// Copy into fs/reader/ and run:
//   cd /tmp/seed/C01 && GOFLAGS=-mod=mod go test ./fs/reader/ -run 'TestHead' -count=1 -v
// Both tests FAIL on the unmodified HEAD (9f1f2f2).
package reader

import (
	"bytes"
	"compress/gzip"
	"io"
	"testing"

	"github.com/containerd/stargz-snapshotter/cache"
	"github.com/containerd/stargz-snapshotter/estargz"
	memorymetadata "github.com/containerd/stargz-snapshotter/metadata/memory"
	tutil "github.com/containerd/stargz-snapshotter/util/testutil"
	digest "github.com/opencontainers/go-digest"
)

// A: background fetch (Cache(WithReader(..))) goes through metadata/memory reader.Clone, which
// re-opens the blob (footer + TOC) from the given reader and never compares the TOC digest of
// the re-parsed TOC with the verified one. Chunk digests used for verifying the background-fetched
// chunks come from that unverified TOC; the chunks are cached under the same keys and later
// served to verified reads from the cache.
func TestHeadCloneReparsesTOC(t *testing.T) {
	const genuine, altered = "GENUINE-chunk-payload-0123456789", "ALTERED-chunk-payload-0123456789"
	build := func(c string) (*io.SectionReader, digest.Digest) {
		sr, d, err := tutil.BuildEStargz([]tutil.TarEntry{tutil.File("data.bin", c)},
			tutil.WithEStargzOptions(estargz.WithChunkSize(8)))
		if err != nil {
			t.Fatal(err)
		}
		return sr, d
	}
	sr1, d1 := build(genuine)
	sr2, d2 := build(altered)
	if d1 == d2 {
		t.Fatal("bug")
	}
	mr, err := memorymetadata.NewReader(sr1)
	if err != nil {
		t.Fatal(err)
	}
	vr, err := NewReader(mr, cache.NewMemoryCache(), digest.FromString(""))
	if err != nil {
		t.Fatal(err)
	}
	r, err := vr.VerifyTOC(d1)
	if err != nil {
		t.Fatal(err)
	}
	// background fetch: the blob reader now returns another blob (other TOC + payload)
	t.Logf("Cache(WithReader(altered blob)) = %v", vr.Cache(WithReader(sr2)))
	id, _, err := r.Metadata().GetChild(r.Metadata().RootID(), "data.bin")
	if err != nil {
		t.Fatal(err)
	}
	ra, err := r.OpenFile(id)
	if err != nil {
		t.Fatal(err)
	}
	got := make([]byte, len(genuine))
	n, err := ra.ReadAt(got, 0)
	t.Logf("read: %q err=%v", got[:n], err)
	if err == nil && !bytes.Equal(got[:n], []byte(genuine)) {
		t.Errorf("HEAD DEFECT A: verified reader returned %q", got[:n])
	}
}

// B: SkipVerify, read (altered chunk gets cached unverified), then VerifyTOC on the same reader
// (same cached layer): the verified reader serves the unverified chunk from the cache.
func TestHeadSkipThenVerify(t *testing.T) {
	const genuine, altered = "GENUINE-chunk-payload-0123456789", "ALTERED-chunk-payload-0123456789"
	cl := tutil.GzipCompressionWithLevel(gzip.NoCompression)()
	sr, tocDgst, err := tutil.BuildEStargz([]tutil.TarEntry{tutil.File("data.bin", genuine)},
		tutil.WithEStargzOptions(estargz.WithChunkSize(len(genuine)), estargz.WithCompression(cl)))
	if err != nil {
		t.Fatal(err)
	}
	blob, _ := io.ReadAll(sr)
	blob = bytes.Replace(blob, []byte(genuine), []byte(altered), 1)
	mr, err := memorymetadata.NewReader(io.NewSectionReader(bytes.NewReader(blob), 0, int64(len(blob))))
	if err != nil {
		t.Fatal(err)
	}
	vr, err := NewReader(mr, cache.NewMemoryCache(), digest.FromString(""))
	if err != nil {
		t.Fatal(err)
	}
	r0 := vr.SkipVerify()
	id, _, _ := r0.Metadata().GetChild(r0.Metadata().RootID(), "data.bin")
	ra0, _ := r0.OpenFile(id)
	got := make([]byte, len(genuine))
	n, err := ra0.ReadAt(got, 0)
	t.Logf("skip-verify read: %q err=%v", got[:n], err)

	r1, err := vr.VerifyTOC(tocDgst)
	if err != nil {
		t.Logf("VerifyTOC failed: %v", err)
		return
	}
	ra1, err := r1.OpenFile(id)
	if err != nil {
		t.Fatal(err)
	}
	got = make([]byte, len(genuine))
	n, err = ra1.ReadAt(got, 0)
	t.Logf("verified read: %q err=%v", got[:n], err)
	if err == nil && !bytes.Equal(got[:n], []byte(genuine)) {
		t.Errorf("HEAD DEFECT B: verified reader returned %q", got[:n])
	}
}
