// Reproducer F29 (C20): the pull-side handler always writes the urls label, also for a layer without URLs (value "").
// The mount-side readers split that value and reconstruct URLs == [""] instead of no URLs: the labels do not reproduce
// the layer's source. Copy into fs/source/ and run: go test ./fs/source/ -run TestF29 -count=1
package source

import (
	"context"
	"testing"

	"github.com/containerd/containerd/v2/core/images"
	"github.com/containerd/containerd/v2/core/remotes/docker"
	"github.com/containerd/containerd/v2/pkg/reference"
	digest "github.com/opencontainers/go-digest"
	ocispec "github.com/opencontainers/image-spec/specs-go/v1"
)

func TestF29LayerWithoutURLsRoundTrips(t *testing.T) {
	l0 := ocispec.Descriptor{MediaType: ocispec.MediaTypeImageLayerGzip, Digest: digest.FromString("l0"), Size: 1}
	l1 := ocispec.Descriptor{MediaType: ocispec.MediaTypeImageLayerGzip, Digest: digest.FromString("l1"), Size: 1}
	cfg := ocispec.Descriptor{MediaType: ocispec.MediaTypeImageConfig, Digest: digest.FromString("cfg"), Size: 1}
	inner := images.HandlerFunc(func(ctx context.Context, desc ocispec.Descriptor) ([]ocispec.Descriptor, error) {
		return []ocispec.Descriptor{cfg, l0, l1}, nil
	})
	h := AppendDefaultLabelsHandlerWrapper("registry.example.com/a/b:1", 0)(inner)
	children, err := h.Handle(context.Background(), ocispec.Descriptor{MediaType: ocispec.MediaTypeImageManifest})
	if err != nil {
		t.Fatal(err)
	}
	get := FromDefaultLabels(func(reference.Spec) ([]docker.RegistryHost, error) { return nil, nil })
	srcs, err := get(children[1].Annotations)
	if err != nil {
		t.Fatal(err)
	}
	if got := srcs[0].Target.URLs; len(got) != 0 {
		t.Errorf("target layer was pulled without URLs but is mounted with URLs %q", got)
	}
	for _, n := range srcs[0].Manifest.Layers[1:] {
		if len(n.URLs) != 0 {
			t.Errorf("neighbouring layer %s was pulled without URLs but is reconstructed with URLs %q", n.Digest, n.URLs)
		}
	}
}
