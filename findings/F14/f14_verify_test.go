package layer

// Reproducer for finding F14 (property C01, recorded as a known finding): place
// in /repo/fs/layer and run  go test -run TestF14 ./fs/layer
// History: one cached layer object receives a verify request with the right
// TOC digest D (or a skip-verify request) and later a verify request with a
// different digest D'. (*layer).Verify returns early when l.r != nil, so the
// second request succeeds although the TOC in use does not hash to D'.

import (
	"testing"

	"github.com/containerd/stargz-snapshotter/cache"
	"github.com/containerd/stargz-snapshotter/fs/reader"
	"github.com/containerd/stargz-snapshotter/metadata/memory"
	"github.com/containerd/stargz-snapshotter/util/testutil"
	digest "github.com/opencontainers/go-digest"
)

func newF14Layer(t *testing.T) (*layer, digest.Digest) {
	sr, tocDgst, err := testutil.BuildEStargz([]testutil.TarEntry{testutil.File("a", "hello")})
	if err != nil {
		t.Fatal(err)
	}
	mr, err := memory.NewReader(sr)
	if err != nil {
		t.Fatal(err)
	}
	vr, err := reader.NewReader(mr, cache.NewMemoryCache(), digest.FromString("layer"))
	if err != nil {
		t.Fatal(err)
	}
	return &layer{verifiableReader: vr}, tocDgst
}

func TestF14VerifyAfterVerify(t *testing.T) {
	l, right := newF14Layer(t)
	wrong := digest.FromString("another TOC")
	if err := l.Verify(right); err != nil {
		t.Fatalf("Verify(right): %v", err)
	}
	if err := l.Verify(wrong); err == nil {
		t.Errorf("Verify(D') succeeded on a layer whose TOC hashes to D != D'")
	}
}

func TestF14VerifyAfterSkip(t *testing.T) {
	l, _ := newF14Layer(t)
	wrong := digest.FromString("another TOC")
	l.SkipVerify()
	if err := l.Verify(wrong); err == nil {
		t.Errorf("Verify(D') succeeded on a skip-verified layer whose TOC does not hash to D'")
	}
}
