package remote

// Reproducer for finding F11 (property C18): place in /repo/fs/remote and run
//   go test -run TestF11 ./fs/remote          (stress: observes the leak)
//   go test -race -run TestF11 ./fs/remote    (reports the data race on httpFetcher.header)
// The registry host is configured with a custom header. The blob endpoint
// alternates between answering directly (2xx: url=blobURL, header=custom) and
// redirecting to a CDN (3xx: url=cdn, header=nil). fetch() reads f.url under
// urlMu but f.header outside of it, so a refresh between the two reads makes
// it send the registry's custom header to the CDN location.

import (
	"bytes"
	"context"
	"fmt"
	"io"
	"net/http"
	"sync"
	"sync/atomic"
	"testing"
	"time"
)

type f11RT struct {
	redirectMode atomic.Bool
	leaks        atomic.Int64
	cdnReqs      atomic.Int64
}

func (rt *f11RT) RoundTrip(req *http.Request) (*http.Response, error) {
	res := &http.Response{Header: http.Header{}, Body: io.NopCloser(bytes.NewReader([]byte("ab"))), Request: req}
	if req.URL.Host == "cdn.example.com" {
		rt.cdnReqs.Add(1)
		if req.Header.Get("X-Registry-Secret") != "" {
			rt.leaks.Add(1)
		}
		res.StatusCode = http.StatusPartialContent
		res.Header.Set("Content-Range", "bytes 0-1/2")
		return res, nil
	}
	if rt.redirectMode.Load() {
		res.StatusCode = http.StatusTemporaryRedirect
		res.Header.Set("Location", "https://cdn.example.com/blob")
		return res, nil
	}
	res.StatusCode = http.StatusPartialContent
	res.Header.Set("Content-Range", "bytes 0-1/2")
	return res, nil
}

func TestF11HeaderFollowsRedirect(t *testing.T) {
	rt := &f11RT{}
	secret := http.Header{"X-Registry-Secret": []string{"s3cr3t"}}
	f := &httpFetcher{
		url:       "https://registry.example.com/v2/img/blobs/sha256:x",
		blobURL:   "https://registry.example.com/v2/img/blobs/sha256:x",
		tr:        rt,
		header:    secret,
		orgHeader: secret,
	}
	ctx := context.Background()
	stop := make(chan struct{})
	var wg sync.WaitGroup
	wg.Add(1)
	go func() {
		defer wg.Done()
		for i := 0; ; i++ {
			select {
			case <-stop:
				return
			default:
			}
			rt.redirectMode.Store(i%2 == 0)
			if err := f.refreshURL(ctx); err != nil {
				panic(err)
			}
		}
	}()
	for w := 0; w < 4; w++ {
		wg.Add(1)
		go func() {
			defer wg.Done()
			for {
				select {
				case <-stop:
					return
				default:
				}
				mr, err := f.fetch(ctx, []region{{0, 1}}, false)
				if err == nil {
					mr.Close()
				}
			}
		}()
	}
	deadline := time.After(20 * time.Second)
	tick := time.NewTicker(50 * time.Millisecond)
loop:
	for {
		select {
		case <-deadline:
			break loop
		case <-tick.C:
			if rt.leaks.Load() > 0 {
				break loop
			}
		}
	}
	close(stop)
	wg.Wait()
	fmt.Printf("requests to the redirect location: %d, carrying the registry header: %d\n", rt.cdnReqs.Load(), rt.leaks.Load())
	if n := rt.leaks.Load(); n > 0 {
		t.Errorf("%d requests sent the registry's custom header to the redirect location", n)
	}
}
