package store

// Reproducer for finding F10 (property C16): place in /repo/store and run
//   go test -run TestF10 ./store
// History: a layer of an image is looked up (resolved and memoised), used once
// and released down to zero. The release must drop the use counter and reset
// the resolution memo of that layer so that a later lookup resolves it again;
// a further release must fail instead of driving the counter negative.

import (
	"context"
	"testing"

	"github.com/containerd/containerd/v2/pkg/reference"
	"github.com/containerd/stargz-snapshotter/fs/layer"
	digest "github.com/opencontainers/go-digest"
)

type fakeLayer struct {
	layer.Layer
	info layer.Info
	done int
}

func (l *fakeLayer) Info() layer.Info { return l.info }
func (l *fakeLayer) Done()            { l.done++ }

func TestF10ReleaseToZero(t *testing.T) {
	ctx := context.Background()
	pool, err := newRefPool(ctx, t.TempDir(), nil)
	if err != nil {
		t.Fatal(err)
	}
	refspec, err := reference.Parse("registry.example.com/img:1")
	if err != nil {
		t.Fatal(err)
	}
	toc := digest.FromString("toc")
	layerDgst := digest.FromString("layer")
	other := digest.FromString("other-layer")
	l := &fakeLayer{info: layer.Info{Digest: layerDgst, TOCDigest: toc}}
	r := &LayerManager{refPool: pool}
	// state after a successful lookup of the layer: cached + memoised as resolved
	r.cacheLayer(refspec, toc, l)
	r.resolveLayerCache = map[string]map[string]error{refspec.String(): {layerDgst.String(): nil, other.String(): nil}}
	// another layer of the same image stays in use
	otherTOC := digest.FromString("other-toc")
	r.use(refspec, otherTOC)

	r.use(refspec, toc)
	if n, err := r.release(ctx, refspec, toc); err != nil || n != 0 {
		t.Fatalf("release: n=%d err=%v", n, err)
	}
	if l.done != 1 {
		t.Errorf("layer not released: done=%d", l.done)
	}
	if r.getCachedLayer(refspec, toc) != nil {
		t.Errorf("released layer is still cached")
	}
	if _, ok := r.refcounter[refspec.String()][toc.String()]; ok {
		t.Errorf("use counter of the released layer was not dropped: %v", r.refcounter)
	}
	if _, ok := r.resolveLayerCache[refspec.String()][layerDgst.String()]; ok {
		t.Errorf("resolution memo of the released layer was not reset: a later lookup answers 'not found' without resolving again")
	}
	if n, err := r.release(ctx, refspec, toc); err == nil {
		t.Errorf("a second release succeeded and drove the counter to %d", n)
	}
}
