#!/usr/bin/env python3
"""Generates MANIFEST.json from claims.json (one record per claimed property)
and the fixed property list; every property not claimed is listed under
not_applicable with its reason from claims.json["not_applicable"]."""
import json
props = [json.loads(l)["id"] for l in open("/verif/properties.jsonl")]
claims = json.load(open("/verif/claims.json"))
checks = []
for pid in props:
    cl = claims["claimed"].get(pid)
    if not cl:
        continue
    checks.append({
        "property_id": pid,
        "quick_cmd": "./run.sh %s quick" % pid,
        "thorough_cmd": "./run.sh %s thorough" % pid,
        "evidence_file": "/verif/evidence/%s.json" % pid,
        "replay_cmd_template": "./run.sh %s --replay {path}" % pid,
        "engine": "stargzlint",
        "level_claimed": {"category": "other", "text": cl["text"], "design_ref": "DESIGN.md section 4, " + pid},
        "level_note": cl["note"],
        "technique": cl["technique"],
    })
na = []
for pid in props:
    if pid not in claims["claimed"]:
        na.append({"property_id": pid, "reason": claims["not_applicable"].get(pid, "check not built yet; structural clauses designed in DESIGN.md section 4 are not implemented, so nothing is claimed")})
m = {
    "version": 1,
    "setup_cmd": "./setup.sh",
    "hooks": {
        "guard": "verif",
        "enable": "none needed: static analysis reads /repo's working tree; no instrumentation is compiled in",
        "baseline_off_cmd": "for m in . cmd estargz ipfs; do (cd /repo/$m && GOFLAGS=-mod=mod go test -vet=off -count=1 -timeout 25m ./...) || exit 1; done",
        "source_commits": [],
        "add_only": True,
    },
    "engines": [{
        "name": "stargzlint",
        "path": "/verif/checker",
        "serves_properties": sorted(claims["claimed"].keys()),
        "kind_free_text": "repository-specific static analyzer over go/packages + go/ssa (x/tools v0.50.0, vendored): must-pass-through on CFG with success edges, paired-effect, who-may-call/write, must-hold lockset, table agreement, bounds prover, recursion bound, provenance rules",
    }],
    "checks": checks,
    "notes": "All claims are at level 'other': the structural necessary conditions (clauses) listed per property in DESIGN.md section 4 hold on all paths/sites of the current source. Each evidence file lists the clauses, their obligations and verdicts. Known genuine defects are in known-findings.jsonl.",
    "not_applicable": na,
}
json.dump(m, open("/verif/MANIFEST.json", "w"), indent=1)
print("claimed", len(checks), "not_applicable", len(na))
