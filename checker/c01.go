package main

import (
	"fmt"
	"go/token"
	"go/types"
	"strings"

	"golang.org/x/tools/go/ssa"
)

func init() {
	register("C01", "Digest-chain wiring TOC digest → verified flag → per-chunk check → cache/return, on all paths: Mount and the store Lookup expose a layer only after Verify(d) succeeded or a gated SkipVerify; layer.r and reader.verify have exactly their intended writers, guarded by the digest comparison with the caller's digest; in fs/reader every byte buffer obtained from the metadata file reader reaches the chunk cache or the caller only after a successful verification of that buffer against the digest of that chunk; the prefetch/VerifyTOC handshake and its lock discipline; every TOC parser returns the digest of the stream it decoded. Not decided: SHA-256/go-digest, chunk boundary arithmetic, which schedules occur.", runC01)
}

// verifierSummary: function f verifies parameter bufIdx against digest parameter dgIdx on every nil-error return.
type verifierSummary struct {
	buf, dg int
}

func (c *Ctx) computeVerifiers(pkg string) map[*ssa.Function]verifierSummary {
	out := map[*ssa.Function]verifierSummary{}
	prim := c.fn(pkg, "(*reader).verifyChunk")
	if prim == nil {
		return out
	}
	// primitive is checked separately (C01.d primitive); assume positions from its signature: (gr, id, p []byte, chunkDigestStr string)
	out[prim] = verifierSummary{2, 3}
	for round := 0; round < 4; round++ {
		for _, f := range c.pkgFuncs(pkg) {
			if _, done := out[f]; done || f.Parent() != nil {
				continue
			}
			res := f.Signature.Results()
			if res.Len() == 0 || !isErrorType(res.At(res.Len()-1).Type()) {
				continue
			}
			// candidate calls to known verifiers with args that are f's own params
			for _, ci := range callsIn(f, func(id string, ci ssa.CallInstruction) bool { _, ok := out[staticFn(ci)]; return ok && staticFn(ci) != nil }) {
				s := out[staticFn(ci)]
				args := ci.Common().Args
				bp, ok1 := stripConv(args[s.buf]).(*ssa.Parameter)
				dp, ok2 := stripConv(args[s.dg]).(*ssa.Parameter)
				if !ok1 || !ok2 {
					continue
				}
				se := successEdges(f, ci)
				if len(se) == 0 {
					continue
				}
				all := true
				for _, r := range realReturns(f) {
					if !returnsNilError(r) {
						continue
					}
					if okp, _ := mustPass(f, r, newCuts().addEdges(se)); !okp {
						all = false
					}
				}
				if all {
					out[f] = verifierSummary{paramIndex(f, bp), paramIndex(f, dp)}
				}
			}
		}
	}
	return out
}

// sliceRoot strips re-slicing: ip[:n] → ip.
func sliceRoot(v ssa.Value) ssa.Value {
	v = stripConv(v)
	for {
		if s, ok := v.(*ssa.Slice); ok {
			v = stripConv(s.X)
			continue
		}
		return v
	}
}

func runC01(c *Ctx) {
	const rp = "fs/reader"
	const lp = "fs/layer"
	live := c.liveFuncs()

	// ---------- C01.a Mount gate ----------
	c.clause("C01.a", "T1", "RootNode (and blob exposure) is reached only after Verify(d) succeeded with d parsed from the label/directory name, or after SkipVerify on an explicitly allowed edge", 3)
	if mf := c.mustFn("fs", "(*filesystem).Mount"); mf != nil {
		roots := callsIn(mf, idIs(lp+".(Layer).RootNode"))
		// the verification decision lives in Mount itself or in a helper that Mount owns (extract-method refactoring)
		f := mf
		for _, hf := range c.withHelpers(mf) {
			if hf.Parent() == nil && len(callsIn(hf, idIs(lp+".(Layer).Verify"))) > 0 {
				f = hf
			}
		}
		verifies := callsIn(f, idIs(lp+".(Layer).Verify"))
		skips := callsIn(f, idIs(lp+".(Layer).SkipVerify"))
		k := newCuts()
		nGood := 0
		for _, v := range verifies {
			// digest argument: result of digest.Parse of the TOC-digest label value
			dOK := false
			if e, ok := stripConv(v.Common().Args[0]).(*ssa.Extract); ok && e.Index == 0 {
				if pc, ok := e.Tuple.(*ssa.Call); ok && calleeID(pc) == "github.com/opencontainers/go-digest.Parse" {
					// parsed string = labels[estargz.TOCJSONDigestAnnotation]
					if le, ok := stripConv(pc.Call.Args[0]).(*ssa.Extract); ok {
						if lk, ok := le.Tuple.(*ssa.Lookup); ok {
							if key, ok := constString(lk.Index); ok && key == c.constVal("estargz", "TOCJSONDigestAnnotation") && (addrKey(lk.X) == "labels" || isParamish(lk.X)) {
								dOK = true
							}
						}
					}
					// and Parse succeeded
					if dOK {
						if okp, _ := mustPass(f, v, newCuts().addEdges(successEdges(f, pc))); !okp {
							dOK = false
						}
					}
				}
			}
			c.verdict(c.fnKey(f)+":Verify-digest", v.Pos(), dOK, "Verify receives the successfully parsed TOC-digest label", "Verify is not called with the parsed TOC digest label of this mount request")
			if dOK {
				k.addEdges(successEdges(f, v))
				nGood++
			}
		}
		for _, s := range skips {
			// allowed only on disableVerification true-edge, or (skip label present ∧ allowNoVerification)
			dis := condEdges(f, func(cond ssa.Value) int {
				if _, ok := isFieldLoad(cond, "fs.filesystem", "disableVerification"); ok {
					return 1
				}
				return 0
			})
			allow := condEdges(f, func(cond ssa.Value) int {
				if _, ok := isFieldLoad(cond, "fs.filesystem", "allowNoVerification"); ok {
					return 1
				}
				return 0
			})
			lbl := condEdges(f, func(cond ssa.Value) int {
				if e, ok := cond.(*ssa.Extract); ok && e.Index == 1 {
					if lk, ok := e.Tuple.(*ssa.Lookup); ok {
						if key, ok := constString(lk.Index); ok && key == c.constVal("fs/config", "TargetSkipVerifyLabel") {
							return 1
						}
					}
				}
				return 0
			})
			// a pinned TOC digest wins over the skip label: the label-driven skip lies behind the "no TOC digest label" edge
			noToc := condEdges(f, func(cond ssa.Value) int {
				if e, ok := cond.(*ssa.Extract); ok && e.Index == 1 {
					if lk, ok := e.Tuple.(*ssa.Lookup); ok {
						if key, ok := constString(lk.Index); ok && key == c.constVal("estargz", "TOCJSONDigestAnnotation") {
							return -1
						}
					}
				}
				return 0
			})
			ok1, _ := mustPass(f, s, newCuts().addEdges(dis))
			ok2a, _ := mustPass(f, s, newCuts().addEdges(allow))
			ok2b, _ := mustPass(f, s, newCuts().addEdges(lbl))
			ok2c, _ := mustPass(f, s, newCuts().addEdges(noToc))
			good := (ok1 && len(dis) > 0) || (ok2a && ok2b && ok2c && len(allow) > 0 && len(lbl) > 0 && len(noToc) > 0)
			c.verdict(c.fnKey(f)+":SkipVerify-gate", s.Pos(), good, "SkipVerify only when verification is disabled by configuration, or the skip label is present, allowed, and no TOC digest is pinned", "SkipVerify reachable without the configuration gate, or although a TOC digest label is present: unverified layers get mounted")
			if good {
				k.addInstr(s)
			}
		}
		if f != mf {
			// the helper reports success only after a verification (or gated skip); Mount proceeds only on its success
			hOK := true
			for _, r := range realReturns(f) {
				if returnsNilError(r) {
					if o, _ := mustPass(f, r, k); !o {
						hOK = false
					}
				}
			}
			c.verdict(c.fnKey(f)+":verifies-before-success", f.Pos(), hOK && nGood > 0, "the helper returns nil only after Verify succeeded or a gated SkipVerify", "the verification helper can return nil without having verified the layer")
			k = newCuts()
			var hcalls []ssa.CallInstruction
			for _, ci := range callsIn(mf, func(_ string, ci ssa.CallInstruction) bool { return staticFn(ci) == f }) {
				hcalls = append(hcalls, ci)
				if hOK {
					k.addEdges(successEdges(mf, ci))
				}
			}
			for _, r := range roots {
				okp, path := mustPass(mf, r, k)
				c.verdict(c.fnKey(mf)+":RootNode-gate", r.Pos(), okp && nGood > 0 && len(hcalls) > 0, "RootNode only after the verification helper succeeded", "the layer's root node is obtained on a path without successful verification: "+c.pathStr(mf, path))
				same := false
				for _, hc := range hcalls {
					for _, a := range hc.Common().Args {
						if sameValue(a, r.Common().Value) {
							same = true
						}
					}
				}
				c.verdict(c.fnKey(mf)+":same-layer", r.Pos(), same, "the verified layer is the mounted layer", "RootNode is taken from a different layer object than the one verified")
			}
			roots = nil
			if len(hcalls) == 0 {
				c.bad(c.fnKey(mf)+":RootNode", mf.Pos(), "Mount does not call its verification helper")
			} else {
				goto doneMount
			}
		}
		for _, r := range roots {
			okp, path := mustPass(f, r, k)
			c.verdict(c.fnKey(f)+":RootNode-gate", r.Pos(), okp && nGood > 0, "RootNode only after Verify success or gated SkipVerify", "the layer's root node is obtained on a path without successful verification: "+c.pathStr(f, path))
			// same layer object
			same := true
			for _, v := range verifies {
				if !sameValue(v.Common().Value, r.Common().Value) {
					same = false
				}
			}
			c.verdict(c.fnKey(f)+":same-layer", r.Pos(), same, "the verified layer is the mounted layer", "RootNode is taken from a different layer object than the one verified")
		}
		if len(roots) == 0 {
			c.bad(c.fnKey(f)+":RootNode", f.Pos(), "Mount no longer obtains the root node through Layer.RootNode")
		}
	doneMount:
	}
	// the store's Lookup is C16.d; re-checked here as an instance of the same gate
	if f := c.mustFn("store", "(*layernode).Lookup"); f != nil {
		verifies := callsIn(f, idIs(lp+".(Layer).Verify"))
		var se []edge
		for _, v := range verifies {
			if _, ok := isFieldLoad(v.Common().Args[0], "store.layernode", "digest"); ok {
				se = append(se, successEdges(f, v)...)
			}
		}
		n := 0
		for _, g := range withAnon(f) {
			for _, r := range callsIn(g, idIs(lp+".(Layer).RootNode")) {
				n++
				site := ssa.Instruction(r)
				if g != f {
					eachInstr(f, func(i ssa.Instruction) {
						if ci, ok := asCall(i); ok && staticFn(ci) == g {
							site = i
						}
					})
				}
				okp, path := mustPass(f, site, newCuts().addEdges(se))
				c.verdict(c.fnKey(f)+":RootNode-gate", r.Pos(), okp && len(se) > 0, "store: RootNode only after Verify(directory digest)", "store exposes a layer without verifying it against the directory name: "+c.pathStr(f, path))
			}
		}
		if n == 0 {
			c.bad(c.fnKey(f)+":RootNode", f.Pos(), "store Lookup no longer obtains the root node through Layer.RootNode")
		}
	}

	// ---------- C01.b who sets layer.r ----------
	c.clause("C01.b", "T3+T1+T9", "layer.r is stored only by Verify (from VerifyTOC of the caller's digest) and SkipVerify; RootNode needs l.r != nil; every nil return of Verify follows a successful VerifyTOC(tocDigest)", 5)
	for _, a := range c.fieldAccesses(lp+".layer", "r", live) {
		if !a.write {
			continue
		}
		fk := c.fnKey(a.fn)
		st := a.instr.(*ssa.Store)
		switch fk {
		case lp + ".(*layer).Verify":
			good := false
			if e, ok := stripConv(st.Val).(*ssa.Extract); ok && e.Index == 0 {
				if vc, ok := e.Tuple.(*ssa.Call); ok && calleeID(vc) == rp+".(*VerifiableReader).VerifyTOC" {
					good = isParam(vc.Call.Args[1])
				}
			}
			for _, rv := range reachingVals(st.Val) {
				if e, ok := rv.(*ssa.Extract); ok && e.Index == 0 {
					if vc, ok := e.Tuple.(*ssa.Call); ok && calleeID(vc) == rp+".(*VerifiableReader).VerifyTOC" && isParam(vc.Call.Args[1]) {
						good = true
					}
				}
			}
			c.verdict(fk+":l.r=", st.Pos(), good, "l.r = VerifyTOC(tocDigest) of the caller's digest", "l.r is set from something other than VerifyTOC(caller's digest)")
		case lp + ".(*layer).SkipVerify":
			call, ok := stripConv(st.Val).(*ssa.Call)
			c.verdict(fk+":l.r=", st.Pos(), ok && calleeID(call) == rp+".(*VerifiableReader).SkipVerify", "l.r = SkipVerify()", "unexpected value stored to l.r")
		default:
			c.bad(fk+":l.r=", st.Pos(), "layer.r (the serving reader) is written outside Verify/SkipVerify: a layer becomes mountable without a verification decision")
		}
	}
	if f := c.mustFn(lp, "(*layer).Verify"); f != nil {
		vts := callsIn(f, func(id string, ci ssa.CallInstruction) bool {
			return id == rp+".(*VerifiableReader).VerifyTOC" && isParam(ci.Common().Args[1])
		})
		var se []edge
		for _, v := range vts {
			se = append(se, successEdges(f, v)...)
		}
		for _, r := range realReturns(f) {
			if !returnsNilErrorOrCall(r, vts) {
				continue
			}
			okp, path := mustPass(f, r, newCuts().addCalls(vts))
			key := c.fnKey(f) + ":nil-return-after-VerifyTOC"
			if okp {
				c.ok(key, r.Pos(), "success only after VerifyTOC(tocDigest)")
			} else {
				c.bad(key, r.Pos(), "Verify reports success without comparing the TOC digest with the caller's digest (early return when l.r is already set): a cached layer verified with D, or skip-verified, is accepted for any D': "+c.pathStr(f, path))
			}
		}
	}
	if f := c.mustFn(lp, "(*layer).RootNode"); f != nil {
		nn := condEdges(f, func(cond ssa.Value) int {
			return -nilTest(cond, func(x ssa.Value) bool { _, ok := isFieldLoad(x, lp+".layer", "r"); return ok })
		})
		for _, ci := range callsIn(f, idIs(lp+".newNode")) {
			okp, _ := mustPass(f, ci, newCuts().addEdges(nn))
			_, arg := isFieldLoad(ci.Common().Args[1], lp+".layer", "r")
			c.verdict(c.fnKey(f)+":needs-reader", ci.Pos(), okp && arg && len(nn) > 0, "nodes are created only when l.r != nil and serve through l.r", "RootNode creates nodes without a verified/skip-verified reader")
		}
	}

	// ---------- C01.c who sets reader.verify ----------
	c.clause("C01.c", "T3+T1+T9", "reader.verify is set (to true) only in VerifyTOC after the TOC digest of the wrapped metadata reader compared equal to the caller's digest and no prefetch failure was recorded", 2)
	vt := c.mustFn(rp, "(*VerifiableReader).VerifyTOC")
	nverify := 0
	for _, a := range c.fieldAccesses(rp+".reader", "verify", live) {
		if !a.write {
			continue
		}
		if isFresh(a.base) {
			continue
		}
		nverify++
		fk := c.fnKey(a.fn)
		st := a.instr.(*ssa.Store)
		if a.fn != vt {
			c.bad(fk+":verify=", st.Pos(), "the verified flag is written outside VerifyTOC")
			continue
		}
		k, isC := st.Val.(*ssa.Const)
		if !isC || k.Value == nil || k.Value.String() != "true" {
			c.bad(fk+":verify=", st.Pos(), "verified flag set to something other than true")
			continue
		}
		eq := condEdges(vt, func(cond ssa.Value) int {
			b, ok := cond.(*ssa.BinOp)
			if !ok || (b.Op != token.NEQ && b.Op != token.EQL) {
				return 0
			}
			isActual := func(v ssa.Value) bool {
				call, ok := stripConv(v).(*ssa.Call)
				if !ok || !call.Call.IsInvoke() || call.Call.Method.Name() != "TOCDigest" {
					return false
				}
				// receiver: vr.r.r
				fa, ok := isFieldLoad(call.Call.Value, rp+".reader", "r")
				return ok && fa != nil
			}
			isWant := func(v ssa.Value) bool { p, ok := stripConv(v).(*ssa.Parameter); return ok && p == vt.Params[1] }
			if (isActual(b.X) && isWant(b.Y)) || (isActual(b.Y) && isWant(b.X)) {
				if b.Op == token.EQL {
					return 1
				}
				return -1
			}
			return 0
		})
		okp, path := mustPass(vt, st, newCuts().addEdges(eq))
		c.verdict(fk+":verify=:digest-compared", st.Pos(), okp && len(eq) > 0, "flag set only on TOCDigest() == tocDigest", "verified flag set without the TOC digest comparison: "+c.pathStr(vt, path))
		// recorded prefetch failure
		loads := callsIn(vt, idIs(rp+".(*VerifiableReader).loadLastVerifyErr"))
		var ne []edge
		for _, l := range loads {
			ne = append(ne, nilEdges(vt, l.Value())...)
		}
		okp2, _ := mustPass(vt, st, newCuts().addEdges(ne))
		c.verdict(fk+":verify=:no-recorded-failure", st.Pos(), okp2 && len(ne) > 0, "flag set only when no prefetch verification failure was recorded", "verified flag set although a prefetch-time verification failure may have been recorded")
		// the flag is set on the reader that is returned and that serves reads
		fa := st.Addr.(*ssa.FieldAddr)
		_, onVR := isFieldLoad(fa.X, rp+".VerifiableReader", "r")
		c.verdict(fk+":verify=:target", st.Pos(), onVR, "flag set on vr.r", "flag set on another reader")
	}
	if nverify == 0 {
		c.bad(rp+".(*VerifiableReader).VerifyTOC:verify=", token.NoPos, "nothing ever sets the verified flag")
	}
	if vt != nil {
		for _, r := range realReturns(vt) {
			if !returnsNilError(r) {
				continue
			}
			var sts []ssa.Instruction
			for _, a := range c.fieldAccesses(rp+".reader", "verify", []*ssa.Function{vt}) {
				if a.write {
					sts = append(sts, a.instr)
				}
			}
			okp, _ := mustPass(vt, r, newCuts().addInstr(sts...))
			c.verdict(c.fnKey(vt)+":success-sets-flag", r.Pos(), okp, "VerifyTOC succeeds only after setting the flag", "VerifyTOC can succeed without enabling per-chunk verification")
		}
	}

	// ---------- C01.d verify-before-use ----------
	c.clause("C01.d", "T1+T9", "primitive: verifyChunk succeeds only via !gr.verify or Verified() of a verifier for (id, digest) fed with the buffer; every buffer read from the metadata file/pre-reader reaches the chunk cache, the caller's buffer or a nil return only after a verification of that buffer with that chunk's digest", 8)
	prim := c.mustFn(rp, "(*reader).verifyChunk")
	if prim != nil {
		bypass := condEdges(prim, func(cond ssa.Value) int {
			if _, ok := isFieldLoad(cond, rp+".reader", "verify"); ok {
				return -1 // cond false (not verify) = bypass
			}
			return 0
		})
		var vcall *ssa.Call
		for _, ci := range callsIn(prim, func(id string, ci ssa.CallInstruction) bool {
			_, ok := isFieldLoad(ci.Common().Value, rp+".reader", "verifier")
			return ok
		}) {
			vcall = ci.(*ssa.Call)
		}
		good := vcall != nil && len(bypass) > 0
		why := "no verifier lookup"
		if good {
			args := vcall.Call.Args
			good = len(args) == 2 && stripConv(args[0]) == ssa.Value(prim.Params[1]) && stripConv(args[1]) == ssa.Value(prim.Params[3])
			why = "verifier not created for (id, chunkDigestStr) of the call"
		}
		var verEdges, writeEdges []edge
		if good {
			v := resultN(vcall, 0)
			for _, ci := range callsIn(prim, func(id string, ci ssa.CallInstruction) bool {
				return ci.Common().IsInvoke() && ci.Common().Method.Name() == "Verified" && sameValue(ci.Common().Value, v)
			}) {
				verEdges = append(verEdges, boolEdges(prim, ci.Value(), true)...)
			}
			for _, ci := range callsIn(prim, func(id string, ci ssa.CallInstruction) bool {
				return ci.Common().IsInvoke() && ci.Common().Method.Name() == "Write" && sameValue(ci.Common().Value, v) && stripConv(ci.Common().Args[0]) == ssa.Value(prim.Params[2])
			}) {
				writeEdges = append(writeEdges, successEdges(prim, ci)...)
			}
			if len(verEdges) == 0 || len(writeEdges) == 0 {
				good = false
				why = "the buffer is not written to the verifier or Verified() is not tested"
			}
		}
		if good {
			for _, r := range realReturns(prim) {
				if !returnsNilError(r) {
					continue
				}
				ok1, _ := mustPass(prim, r, newCuts().addEdges(bypass).addEdges(verEdges))
				ok2, _ := mustPass(prim, r, newCuts().addEdges(bypass).addEdges(writeEdges))
				if !ok1 || !ok2 {
					good = false
					why = "a nil return is reachable without Verified()==true on the written buffer"
				}
			}
		}
		c.verdict(c.fnKey(prim)+":primitive", prim.Pos(), good, "nil only via !gr.verify or Write(p)+Verified() on verifier(id, digest)", "chunk verification primitive is broken: "+why)
	}
	vers := c.computeVerifiers(rp)
	nRead := 0
	for _, f := range c.pkgFuncs(rp) {
		// read sites
		type readSite struct {
			at  ssa.CallInstruction
			buf ssa.Value
			off ssa.Value // offset argument (nil for io.ReadFull)
		}
		var reads []readSite
		for _, ci := range callsIn(f, func(id string, ci ssa.CallInstruction) bool {
			return id == "metadata.(File).ReadAt" || (ci.Common().IsInvoke() && ci.Common().Method.Name() == "ReadAt" && typeQName(ci.Common().Value.Type()) == "metadata.File")
		}) {
			reads = append(reads, readSite{ci, ci.Common().Args[0], ci.Common().Args[1]})
		}
		// pre-reader literal: io.ReadFull(r, ip) where r is the callback's io.Reader parameter
		if f.Parent() != nil {
			for _, ci := range callsIn(f, idIs("io.ReadFull")) {
				if isParam(ci.Common().Args[0]) {
					reads = append(reads, readSite{ci, ci.Common().Args[1], nil})
				}
			}
		}
		for _, rs := range reads {
			nRead++
			key := c.fnKey(f) + ":read→use"
			bufRoot := sliceRoot(rs.buf)
			// verifying calls on this buffer with this chunk's digest
			var se []edge
			nv := 0
			for _, ci := range callsIn(f, func(id string, ci ssa.CallInstruction) bool { _, ok := vers[staticFn(ci)]; return ok && staticFn(ci) != nil }) {
				s := vers[staticFn(ci)]
				args := ci.Common().Args
				if sliceRoot(args[s.buf]) != bufRoot || stripConv(args[s.buf]) != stripConv(rs.buf) {
					continue
				}
				if !digestMatchesRead(args[s.dg], rs.off, f) {
					continue
				}
				nv++
				se = append(se, successEdges(f, ci)...)
			}
			// sinks
			isSink := func(i ssa.Instruction) bool {
				switch x := i.(type) {
				case *ssa.Return:
					return i.Block() != f.Recover && returnsNilError(x)
				case ssa.CallInstruction:
					id := calleeID(x)
					args := x.Common().Args
					if id == rp+".(*reader).cacheData" && sliceRoot(args[1]) == bufRoot {
						return true
					}
					if x.Common().IsInvoke() && x.Common().Method.Name() == "Write" && typeQName(x.Common().Value.Type()) == "cache.Writer" && sliceRoot(args[0]) == bufRoot {
						return true
					}
					if id == "builtin.copy" && sliceRoot(args[1]) == bufRoot {
						return true
					}
				}
				return false
			}
			got, path := reach(f, rs.at, isSink, newCuts().addEdges(se))
			if got != nil {
				c.bad(key, rs.at.Pos(), fmt.Sprintf("bytes read from the layer reach %s without a successful verification of that buffer against its chunk digest (%d matching verify calls): %s", describeInstr(got), nv, c.pathStr(f, path)))
			} else {
				c.ok(key, rs.at.Pos(), fmt.Sprintf("every use of the buffer is after one of %d verification calls on it with the chunk's own digest", nv))
			}
		}
	}
	if nRead < 5 {
		c.bad(rp+":read-sites", token.NoPos, fmt.Sprintf("only %d read sites found (5 on the pinned tree)", nRead))
	}
	// wrappers found
	for f, s := range vers {
		if f != prim {
			c.ok(c.fnKey(f)+":verifier-wrapper", f.Pos(), fmt.Sprintf("all nil returns follow a successful verification of param %d with digest param %d", s.buf, s.dg))
		}
	}
	// verifyAndCache caches only after verification (cacheData call passes the verify success edge)
	if f := c.mustFn(rp, "(*reader).verifyAndCache"); f != nil {
		var se []edge
		for _, ci := range callsIn(f, func(id string, ci ssa.CallInstruction) bool { _, ok := vers[staticFn(ci)]; return ok && staticFn(ci) != nil }) {
			if isParam(ci.Common().Args[vers[staticFn(ci)].buf]) {
				se = append(se, successEdges(f, ci)...)
			}
		}
		for _, ci := range callsIn(f, idIs(rp+".(*reader).cacheData")) {
			okp, _ := mustPass(f, ci, newCuts().addEdges(se))
			c.verdict(c.fnKey(f)+":cache-after-verify", ci.Pos(), okp && len(se) > 0 && stripConv(ci.Common().Args[1]) == ssa.Value(f.Params[2]), "the verified buffer is the cached buffer", "verifyAndCache caches before/without verification or caches another buffer")
		}
	}

	// ---------- C01.e prefetch handshake ----------
	c.clause("C01.e", "T1+T4", "readAndCache commits only after Verified() or after recording the failure inside a read-lock region in which prohibitVerifyFailure was read false; VerifyTOC sets the flag and loads the recorded error in one write-lock region", 8)
	const vr = rp + ".VerifiableReader"
	c.guardedBy(vr, "prohibitVerifyFailure", "prohibitVerifyFailureMu", true)
	c.guardedBy(vr, "lastVerifyErr", "lastVerifyErrMu", true)
	if f := c.mustFn(rp, "(*VerifiableReader).readAndCache"); f != nil {
		commits := callsIn(f, func(id string, ci ssa.CallInstruction) bool {
			return ci.Common().IsInvoke() && ci.Common().Method.Name() == "Commit" && typeQName(ci.Common().Value.Type()) == "cache.Writer"
		})
		// verifier value
		var v ssa.Value
		for _, ci := range callsIn(f, func(id string, ci ssa.CallInstruction) bool {
			_, ok := isFieldLoad(ci.Common().Value, vr, "verifier")
			return ok
		}) {
			v = resultN(ci, 0)
			args := ci.Common().Args
			c.verdict(c.fnKey(f)+":verifier-args", ci.Pos(), isParam(args[0]) && isParam(args[1]), "verifier created for the chunk's own (id, digest)", "verifier created for other parameters")
		}
		var verEdges []edge
		for _, ci := range callsIn(f, func(id string, ci ssa.CallInstruction) bool {
			return ci.Common().IsInvoke() && ci.Common().Method.Name() == "Verified" && v != nil && sameValue(ci.Common().Value, v)
		}) {
			verEdges = append(verEdges, boolEdges(f, ci.Value(), true)...)
		}
		// recorded failures under RLock with prohibit read false
		qualifiedRecs := func(g *ssa.Function) []ssa.Instruction {
			notProhibited := condEdges(g, func(cond ssa.Value) int {
				if fa, ok := isFieldLoad(cond, vr, "prohibitVerifyFailure"); ok && fa != nil {
					return -1
				}
				return 0
			})
			var out []ssa.Instruction
			for _, ci := range callsIn(g, idIs(rp+".(*VerifiableReader).storeLastVerifyErr")) {
				held := c.locksAt(ci)["vr.prohibitVerifyFailureMu"] != lockNone
				okp, _ := mustPass(g, ci, newCuts().addEdges(notProhibited))
				// the very first unconditional store (retErr) is not part of the handshake
				if held && okp {
					out = append(out, ci)
				}
			}
			return out
		}
		recs := qualifiedRecs(f)
		// a helper of the same type that returns true only after such a recording (and false only when failures are
		// prohibited) stands for the handshake: its true edge is a recording, its false edge the prohibited edge
		var recEdges, helperProhibited []edge
		for _, ci := range callsIn(f, func(id string, ci ssa.CallInstruction) bool {
			h := staticFn(ci)
			return h != nil && h != f && h.Pkg == f.Pkg && len(h.Blocks) > 0 && h.Signature.Results().Len() == 1 && h.Signature.Results().At(0).Type().String() == "bool"
		}) {
			h := staticFn(ci)
			hr := qualifiedRecs(h)
			if len(hr) == 0 {
				continue
			}
			prohibitedH := condEdges(h, func(cond ssa.Value) int {
				if fa, ok := isFieldLoad(cond, vr, "prohibitVerifyFailure"); ok && fa != nil {
					return 1
				}
				return 0
			})
			okH := true
			for _, r := range realReturns(h) {
				for _, rv := range retVals(r, 0) {
					switch {
					case isConstBool(rv, true):
						if o, _ := mustPass(h, r, newCuts().addInstr(hr...)); !o {
							okH = false
						}
					case isConstBool(rv, false):
						if o, _ := mustPass(h, r, newCuts().addEdges(prohibitedH)); !o || len(prohibitedH) == 0 {
							okH = false
						}
					default:
						okH = false
					}
				}
			}
			if okH && ci.Value() != nil {
				recEdges = append(recEdges, boolEdges(f, ci.Value(), true)...)
				helperProhibited = append(helperProhibited, boolEdges(f, ci.Value(), false)...)
			}
		}
		// the data written is teed into the verifier
		teeOK := false
		for _, ci := range callsIn(f, idIs("io.CopyN", "io.Copy")) {
			if tc, ok := stripConv(ci.Common().Args[1]).(*ssa.Call); ok && calleeID(tc) == "io.TeeReader" {
				for _, src := range valueSources(tc.Call.Args[1], f, 0) {
					if v != nil && sameValue(src, v) {
						teeOK = true
					}
				}
			}
		}
		c.verdict(c.fnKey(f)+":tee-into-verifier", f.Pos(), teeOK, "the bytes copied into the cache writer are teed into the verifier", "cached bytes are not the bytes fed to the verifier")
		var vcallInstr ssa.CallInstruction
		for _, ci := range callsIn(f, func(id string, ci ssa.CallInstruction) bool {
			_, ok := isFieldLoad(ci.Common().Value, vr, "verifier")
			return ok
		}) {
			vcallInstr = ci
		}
		impl := map[string]map[string]bool{}
		if vcallInstr != nil {
			impl = resultImplications(vcallInstr)
		}
		for _, cm := range commits {
			got, path := reachPS(f, nil, isInstr(cm), newCuts().addEdges(verEdges).addEdges(recEdges).addInstr(recs...), impl)
			okp := got == nil
			c.verdict(c.fnKey(f)+":commit-gate", cm.Pos(), okp && len(verEdges) > 0, "Commit only after Verified() or after a failure was recorded before the verification decision", "prefetch commits a chunk that failed (or skipped) verification without recording it for VerifyTOC: "+c.pathStr(f, path))
		}
		if len(commits) == 0 {
			c.bad(c.fnKey(f)+":commit", f.Pos(), "readAndCache never commits")
		}
		// after the decision (prohibit true) the failure path aborts/returns an error: every path through the prohibited edge returns non-nil
		prohibited := condEdges(f, func(cond ssa.Value) int {
			if fa, ok := isFieldLoad(cond, vr, "prohibitVerifyFailure"); ok && fa != nil {
				return 1
			}
			return 0
		})
		prohibited = append(prohibited, helperProhibited...)
		for _, e := range prohibited {
			blk := f.Blocks[e.from].Succs[e.succ]
			first := blk.Instrs[0]
			got, _ := reach(f, first, func(i ssa.Instruction) bool {
				if ci, ok := asCall(i); ok && ci.Common().IsInvoke() && ci.Common().Method.Name() == "Commit" {
					return true
				}
				r, ok := i.(*ssa.Return)
				return ok && returnsNilError(r)
			}, nil)
			c.verdict(c.fnKey(f)+":after-decision-fails", first.Pos(), got == nil, "after the verification decision a failing chunk is neither committed nor reported as success", "a chunk failing verification after the decision can be committed or reported as cached")
		}
	}
	if vt != nil {
		var st ssa.Instruction
		for _, a := range c.fieldAccesses(vr, "prohibitVerifyFailure", []*ssa.Function{vt}) {
			if a.write {
				st = a.instr
			}
		}
		loads := callsIn(vt, idIs(rp+".(*VerifiableReader).loadLastVerifyErr"))
		good := st != nil && len(loads) == 1
		if good {
			lk := "vr.prohibitVerifyFailureMu"
			good = c.locksAt(st)[lk] == lockW && c.locksAt(loads[0])[lk] == lockW && sameRegion(c, vt, st, loads[0], lk) && dominatesInstr(st, loads[0])
		}
		c.verdict(c.fnKey(vt)+":decision-atomic", vt.Pos(), good, "prohibit=true and the load of the recorded error happen in one write-lock region, flag first", "the verification decision and the read of recorded failures are not atomic with respect to prefetch")
	}

	// ---------- C01.f TOC and digest travel together ----------
	c.clause("C01.f", "T9", "each TOC parser returns the digest of the digester teed onto the reader its JSON decoder consumes; estargz.parseTOC and db init pair the TOC with the digest of the same parse", 5)
	for _, f := range live {
		for _, nd := range callsIn(f, idIs("encoding/json.NewDecoder")) {
			tc, ok := stripConv(nd.Common().Args[0]).(*ssa.Call)
			if !ok || calleeID(tc) != "io.TeeReader" {
				continue
			}
			hc, ok := stripConv(tc.Call.Args[1]).(*ssa.Call)
			if !ok || !hc.Call.IsInvoke() || hc.Call.Method.Name() != "Hash" {
				continue
			}
			dgr := hc.Call.Value
			key := c.fnKey(f) + ":toc+digest"
			n := 0
			for _, r := range realReturns(f) {
				if !returnsNilError(r) {
					continue
				}
				for i := range r.Results {
					if typeQName(r.Results[i].Type()) != "github.com/opencontainers/go-digest.Digest" {
						continue
					}
					n++
					good := false
					for _, v := range retVals(r, i) {
						if call, ok := stripConv(v).(*ssa.Call); ok && calleeID(call) == "github.com/opencontainers/go-digest.(Digester).Digest" && sameValue(call.Call.Value, dgr) {
							good = true
						} else {
							good = false
							break
						}
					}
					c.verdict(key, r.Pos(), good, "returned digest is that of the digester hashing the decoded stream", "the digest returned with the TOC is not the one computed over the decoded stream")
				}
			}
			if n == 0 {
				c.bad(key, nd.Pos(), "TOC parser hashes the stream but returns no digest")
			}
		}
	}
	if f := c.mustFn("estargz", "parseTOC"); f != nil {
		n := 0
		eachInstr(f, func(i ssa.Instruction) {
			st, ok := i.(*ssa.Store)
			if !ok {
				return
			}
			fa, ok := st.Addr.(*ssa.FieldAddr)
			if !ok || typeQName(fa.X.Type()) != "estargz.Reader" || fieldName(fa) != "tocDigest" {
				return
			}
			n++
			// sibling store of field toc on the same literal must come from the same ParseTOC call
			good := false
			eachInstr(f, func(j ssa.Instruction) {
				st2, ok := j.(*ssa.Store)
				if !ok {
					return
				}
				fa2, ok := st2.Addr.(*ssa.FieldAddr)
				if !ok || fa2.X != fa.X || fieldName(fa2) != "toc" {
					return
				}
				e1, ok1 := stripConv(st.Val).(*ssa.Extract)
				e2, ok2 := stripConv(st2.Val).(*ssa.Extract)
				if ok1 && ok2 && e1.Tuple == e2.Tuple && e1.Index == 1 && e2.Index == 0 {
					if pc, ok := e1.Tuple.(*ssa.Call); ok && calleeObj(pc) != nil && calleeObj(pc).Name() == "ParseTOC" {
						good = true
					}
				}
			})
			c.verdict(c.fnKey(f)+":Reader{toc,tocDigest}", st.Pos(), good, "toc and tocDigest come from one ParseTOC call", "Reader pairs a TOC with the digest of a different parse")
		})
		if n < 2 {
			c.bad(c.fnKey(f)+":Reader-literals", f.Pos(), "fewer Reader literals than on the pinned tree")
		}
	}
	if f := c.mustFn("cmd/containerd-stargz-grpc/db", "(*reader).init"); f != nil {
		// the digest stored to r.tocDigest is Digest() of the digester teed on the stream copied to the file later parsed by initNodes
		good := false
		for _, a := range c.fieldAccesses("cmd/containerd-stargz-grpc/db.reader", "tocDigest", []*ssa.Function{f}) {
			if !a.write {
				continue
			}
			if call, ok := stripConv(a.instr.(*ssa.Store).Val).(*ssa.Call); ok && calleeID(call) == "github.com/opencontainers/go-digest.(Digester).Digest" {
				for _, cp := range callsIn(f, idIs("io.Copy")) {
					if tc, ok := stripConv(cp.Common().Args[1]).(*ssa.Call); ok && calleeID(tc) == "io.TeeReader" {
						if hc, ok := stripConv(tc.Call.Args[1]).(*ssa.Call); ok && hc.Call.IsInvoke() && sameValue(hc.Call.Value, call.Call.Value) {
							// destination file is the one handed to initNodes
							dst := cp.Common().Args[0]
							for _, lit := range withAnon(f) {
								for _, in := range callsIn(lit, idIs("cmd/containerd-stargz-grpc/db.(*reader).initNodes")) {
									if addrKey(in.Common().Args[1]) == addrKey(dst) && addrKey(dst) != "" {
										good = true
									}
								}
							}
						}
					}
				}
			}
		}
		c.verdict(c.fnKey(f)+":tocDigest-of-spooled-stream", f.Pos(), good, "DB store: digest of the very stream spooled to the file that initNodes parses", "DB store digest does not cover the stream that is parsed")
	}
	clauseKeyInjective(c, "C01.g", [][2]string{{"fs/reader", "genID"}})

	// ---------- C01.h ----------
	c.clause("C01.h", "T1", "a metadata reader re-opened from another byte source (Clone, used by background fetch) is handed out only after its TOC digest was compared equal to that of the reader it was cloned from: chunk digests are taken from the metadata reader, so its TOC must be the verified one", 1)
	const mm = "metadata/memory"
	for _, f := range c.pkgFuncs(mm) {
		if f.Name() == "NewReader" || f.Parent() != nil {
			continue
		}
		opens := callsIn(f, idIs("estargz.Open"))
		if len(opens) == 0 {
			continue
		}
		// equality of two TOCDigest() results
		eq := condEdges(f, func(cond ssa.Value) int {
			b, ok := cond.(*ssa.BinOp)
			if !ok || (b.Op != token.EQL && b.Op != token.NEQ) {
				return 0
			}
			isTD := func(v ssa.Value) bool {
				call, ok := stripConv(v).(*ssa.Call)
				if !ok {
					return false
				}
				id := calleeID(call)
				return strings.HasSuffix(id, ".TOCDigest")
			}
			if isTD(b.X) && isTD(b.Y) && stripConv(b.X) != stripConv(b.Y) {
				if b.Op == token.EQL {
					return 1
				}
				return -1
			}
			return 0
		})
		for _, r := range realReturns(f) {
			if !returnsNilError(r) {
				continue
			}
			okp, path := mustPass(f, r, newCuts().addEdges(eq))
			c.verdict(c.fnKey(f)+":reopened-toc-compared", r.Pos(), okp && len(eq) > 0, "re-opened reader returned only when its TOC digest equals the original's", "a reader re-parsed from other bytes is returned without comparing its TOC digest with the verified one: background fetch takes chunk digests from an unverified TOC and caches altered chunks as verified: "+c.pathStr(f, path))
		}
	}

	// ---------- C01.i ----------
	c.clause("C01.i", "T1", "a reader that was handed out without verification (SkipVerify) is never upgraded to a verified reader over the same chunk cache", 1)
	if sk, vt2 := c.mustFn("fs/reader", "(*VerifiableReader).SkipVerify"), c.mustFn("fs/reader", "(*VerifiableReader).VerifyTOC"); sk != nil && vt2 != nil {
		// SkipVerify records that it was called (a store to a field of the receiver), VerifyTOC succeeds only on the edge
		// where that field is false
		var flags []string
		eachInstr(sk, func(i ssa.Instruction) {
			if st, ok := i.(*ssa.Store); ok {
				if fa, ok := st.Addr.(*ssa.FieldAddr); ok && isConstBool(st.Val, true) {
					flags = append(flags, fieldName(fa))
				}
			}
		})
		good := false
		for _, fl := range flags {
			notSkipped := condEdges(vt2, func(cond ssa.Value) int {
				if _, ok := isFieldLoadAny(cond, fl); ok {
					return -1
				}
				for _, rv := range reachingVals(cond) {
					if _, ok := isFieldLoadAny(rv, fl); ok {
						return -1
					}
				}
				return 0
			})
			if len(notSkipped) == 0 {
				continue
			}
			all := true
			for _, r := range realReturns(vt2) {
				if returnsNilError(r) {
					if o, _ := mustPass(vt2, r, newCuts().addEdges(notSkipped)); !o {
						all = false
					}
				}
			}
			if all {
				good = true
			}
		}
		c.verdict(c.fnKey(vt2)+":no-upgrade-after-skip", vt2.Pos(), good, "VerifyTOC refuses a reader that was already used without verification", "VerifyTOC succeeds on a reader that SkipVerify handed out before: chunks cached unverified in between are served to the verified reader from the shared chunk cache")
	}
	c.assume("digest.Verifier.Verified() is true only if the bytes written hash to the digest; cached bytes are only those written through cache.Writer")
	c.assume("bytes obtained on a cache hit were verified when they were cached (only verified buffers reach the cache while reader.verify is set)")
}

func describeInstr(i ssa.Instruction) string {
	switch x := i.(type) {
	case *ssa.Return:
		return "a success return"
	case ssa.CallInstruction:
		return "a call of " + calleeID(x)
	}
	return i.String()
}

// returnsNilErrorOrCall: last result is nil, or is the error result of one of the given calls (e.g. `return` of named err assigned from the call).
func returnsNilErrorOrCall(r *ssa.Return, calls []ssa.CallInstruction) bool {
	if returnsNilError(r) {
		return true
	}
	vs := retVals(r, len(r.Results)-1)
	for _, v := range vs {
		if isNilConst(v) {
			return true
		}
		for _, c := range calls {
			for _, e := range errResults(c) {
				if stripConv(v) == e {
					return true // error of the guard itself: nil exactly when the guard succeeded
				}
			}
		}
	}
	return false
}

// digestMatchesRead: digest argument dg belongs to the chunk whose offset is off:
// both are results of one ChunkEntryForOffset call, fields of one chunkData value, or dg is a parameter (callback) when off is nil.
func digestMatchesRead(dg, off ssa.Value, f *ssa.Function) bool {
	dg = stripConv(dg)
	if off == nil {
		return isParam(dg)
	}
	off = stripConv(off)
	de, ok1 := dg.(*ssa.Extract)
	oe, ok2 := off.(*ssa.Extract)
	if ok1 && ok2 && de.Tuple == oe.Tuple {
		if call, ok := de.Tuple.(*ssa.Call); ok && call.Call.IsInvoke() && call.Call.Method.Name() == "ChunkEntryForOffset" {
			return de.Index == 2 && oe.Index == 0
		}
	}
	df, ok1 := dg.(*ssa.Field)
	of, ok2 := off.(*ssa.Field)
	if ok1 && ok2 && df.X == of.X {
		st := df.X.Type().Underlying().(*types.Struct)
		return strings.Contains(strings.ToLower(st.Field(df.Field).Name()), "digest") && st.Field(of.Field).Name() == "offset"
	}
	// loads of fields of the same struct variable
	dfa, ok1 := isFieldLoadAny(dg, "digestStr")
	ofa, ok2 := isFieldLoadAny(off, "offset")
	if ok1 && ok2 && dfa.X == ofa.X {
		return true
	}
	return false
}
