package main

import (
	"fmt"
	"go/token"
	"go/types"
	"sort"
	"strings"

	"golang.org/x/tools/go/ssa"
)

func init() {
	register("C05", "Table agreement between the two metadata stores and inside the DB encoding: both attrFromTOCEntry functions map the same TOCEntry fields to the same Attr fields; writeAttr and readAttr pair every bucket key with the same Attr field (incl. the numLink offset on both sides) and cover every Attr field; encode/decodeChunkEntry use the same byte ranges per field; every bucket key that is written is read and vice versa; every TOC parser hashes the TOC stream to its end before taking the digest; every bucket access is rooted at filesystems/<r.fsID>. Equality of the two tree builders on arbitrary TOCs is not decided.", runC05)
}

// fieldsRead collects the names of fields of struct type q read in the expression tree of v.
func fieldsRead(v ssa.Value, q string, depth int, out map[string]bool) {
	if v == nil || depth > 8 {
		return
	}
	v = stripConv(v)
	switch x := v.(type) {
	case *ssa.UnOp:
		if fa, ok := x.X.(*ssa.FieldAddr); ok && x.Op == token.MUL {
			if typeQName(fa.X.Type()) == q {
				out[fieldName(fa)] = true
				return
			}
		}
		fieldsRead(x.X, q, depth+1, out)
	case *ssa.Field:
		if typeQName(x.X.Type()) == q {
			out[x.X.Type().Underlying().(*types.Struct).Field(x.Field).Name()] = true
		}
	case *ssa.BinOp:
		fieldsRead(x.X, q, depth+1, out)
		fieldsRead(x.Y, q, depth+1, out)
	case *ssa.Call:
		if o := calleeObj(x); o != nil {
			out["call:"+o.Name()] = true
		}
		if x.Call.IsInvoke() {
			fieldsRead(x.Call.Value, q, depth+1, out)
		}
		for _, a := range x.Call.Args {
			if typeQName(a.Type()) == q {
				out["<whole>"] = true
			}
			fieldsRead(a, q, depth+1, out)
		}
	case *ssa.Extract:
		fieldsRead(x.Tuple, q, depth+1, out)
	case *ssa.Phi:
		for _, e := range x.Edges {
			fieldsRead(e, q, depth+1, out)
		}
	}
}

func globalName(v ssa.Value) string {
	v = stripConv(v)
	if p, ok := loadOf(v); ok {
		if g, ok := p.(*ssa.Global); ok {
			return g.Name()
		}
	}
	return ""
}

func runC05(c *Ctx) {
	const dbp = "cmd/containerd-stargz-grpc/db"
	const attrT = "metadata.Attr"
	const tocT = "estargz.TOCEntry"

	// ---------- C05.a ----------
	c.clause("C05.a", "T5", "attribute mapping parity between the memory and DB stores; writeAttr/readAttr key-field pairing; every Attr field covered", 25)
	mapping := func(f *ssa.Function) map[string]string {
		m := map[string]string{}
		eachInstr(f, func(i ssa.Instruction) {
			s, ok := i.(*ssa.Store)
			if !ok {
				return
			}
			fa, ok := s.Addr.(*ssa.FieldAddr)
			if !ok || typeQName(fa.X.Type()) != attrT {
				return
			}
			src := map[string]bool{}
			fieldsRead(s.Val, tocT, 0, src)
			m[fieldName(fa)] = strings.Join(sortedKeys(src), "+")
		})
		return m
	}
	mf, df := c.mustFn("metadata/memory", "attrFromTOCEntry"), c.mustFn(dbp, "attrFromTOCEntry")
	attrFields := structFields(c, attrT)
	if mf != nil && df != nil {
		mm, dm := mapping(mf), mapping(df)
		for _, fld := range attrFields {
			key := "attrFromTOCEntry:" + fld
			a, aok := mm[fld]
			b, bok := dm[fld]
			switch {
			case !aok && !bok:
				// NumLink is computed by the tree builders, not by the mapper
				c.okTrivial(key, mf.Pos(), "set by neither mapper (computed by the tree builder)")
			case aok != bok:
				c.bad(key, mf.Pos(), fmt.Sprintf("Attr.%s is set by only one of the two stores (memory:%v db:%v)", fld, aok, bok))
			case a != b:
				c.bad(key, mf.Pos(), fmt.Sprintf("Attr.%s comes from %q in the memory store but from %q in the DB store", fld, a, b))
			default:
				c.ok(key, mf.Pos(), "both stores: Attr."+fld+" ← "+a)
			}
		}
	}
	// writeAttr / readAttr
	wf, rf := c.mustFn(dbp, "writeAttr"), c.mustFn(dbp, "readAttr")
	if wf != nil && rf != nil {
		// writer: (key global, attr field, numlink delta)
		wmap := map[string]string{}
		wdelta := map[string]int64{}
		// table entries: stores to fields key/val of an anonymous struct element
		type ent struct{ key, fld string }
		byElem := map[ssa.Value]*ent{}
		eachInstr(wf, func(i ssa.Instruction) {
			s, ok := i.(*ssa.Store)
			if !ok {
				return
			}
			fa, ok := s.Addr.(*ssa.FieldAddr)
			if !ok {
				return
			}
			if typeQName(fa.X.Type()) != "" { // table rows are values of an anonymous struct type
				return
			}
			e := byElem[fa.X]
			if e == nil {
				e = &ent{}
				byElem[fa.X] = e
			}
			if g := globalName(s.Val); g != "" {
				e.key = g
			} else {
				src := map[string]bool{}
				fieldsRead(s.Val, attrT, 0, src)
				for k := range src {
					if !strings.HasPrefix(k, "call:") {
						e.fld = k
					}
				}
				if b, ok := stripConv(s.Val).(*ssa.BinOp); ok && b.Op == token.SUB {
					if n, ok := constInt(b.Y); ok {
						wdelta[e.fld] = -n
					}
				}
			}
		})
		for _, e := range byElem {
			if e.key != "" && e.fld != "" {
				wmap[e.key] = e.fld
			}
		}
		// direct Put(global, expr(attr.F))
		for _, ci := range callsIn(wf, idIs("go.etcd.io/bbolt.(*Bucket).Put")) {
			g := globalName(ci.Common().Args[1])
			if g == "" {
				continue
			}
			src := map[string]bool{}
			fieldsRead(ci.Common().Args[2], attrT, 0, src)
			for k := range src {
				if !strings.HasPrefix(k, "call:") {
					wmap[g] = k
				}
			}
			if _, ok := wmap[g]; !ok {
				// value derived from a range over attr.Xattrs
				if strings.Contains(strings.ToLower(g), "xattr") {
					wmap[g] = "Xattrs"
				}
			}
		}
		for _, ci := range callsIn(wf, idIs("go.etcd.io/bbolt.(*Bucket).CreateBucket")) {
			if g := globalName(ci.Common().Args[1]); g != "" {
				wmap[g] = "Xattrs"
			}
		}
		// reader: the ForEach literal switches on string(k)
		rmap := map[string]string{}
		rdelta := map[string]int64{}
		for _, lit := range withAnon(rf) {
			for _, b := range lit.Blocks {
				if len(b.Instrs) == 0 {
					continue
				}
				iff, ok := b.Instrs[len(b.Instrs)-1].(*ssa.If)
				if !ok {
					continue
				}
				bo, ok := iff.Cond.(*ssa.BinOp)
				if !ok || bo.Op != token.EQL {
					continue
				}
				g := globalName(stripStringConv(bo.Y))
				if g == "" {
					g = globalName(stripStringConv(bo.X))
				}
				if g == "" {
					continue
				}
				// stores to attr fields in the region entered by the true edge (until a block with >1 preds)
				seen := map[*ssa.BasicBlock]bool{}
				var walk func(bb *ssa.BasicBlock)
				walk = func(bb *ssa.BasicBlock) {
					if seen[bb] || (len(bb.Preds) > 1 && bb != b.Succs[0]) {
						return
					}
					seen[bb] = true
					for _, ins := range bb.Instrs {
						if s, ok := ins.(*ssa.Store); ok {
							if fa, ok := s.Addr.(*ssa.FieldAddr); ok && typeQName(fa.X.Type()) == attrT {
								rmap[g] = fieldName(fa)
								if bb2, ok := stripConv(s.Val).(*ssa.BinOp); ok && bb2.Op == token.ADD {
									if n, ok := constInt(bb2.Y); ok {
										rdelta[fieldName(fa)] = n
									}
								}
							}
						}
						if mu, ok := ins.(*ssa.MapUpdate); ok {
							if _, ok := isFieldLoad(mu.Map, attrT, "Xattrs"); ok {
								rmap[g] = "Xattrs"
							}
						}
						if ci, ok := ins.(*ssa.Call); ok {
							// (&attr.ModTime).GobDecode(v)
							for _, a := range ci.Call.Args {
								if fa, ok := a.(*ssa.FieldAddr); ok && typeQName(fa.X.Type()) == attrT {
									rmap[g] = fieldName(fa)
								}
							}
							// nested ForEach literal filling Xattrs
							for _, a := range ci.Call.Args {
								if mc, ok := a.(*ssa.MakeClosure); ok {
									eachInstr(mc.Fn.(*ssa.Function), func(j ssa.Instruction) {
										if mu, ok := j.(*ssa.MapUpdate); ok {
											if _, ok := isFieldLoad(mu.Map, attrT, "Xattrs"); ok {
												rmap[g] = "Xattrs"
											}
										}
									})
								}
							}
						}
					}
					for _, s := range bb.Succs {
						walk(s)
					}
				}
				walk(b.Succs[0])
			}
		}
		keys := map[string]bool{}
		for k := range wmap {
			keys[k] = true
		}
		for k := range rmap {
			keys[k] = true
		}
		covered := map[string]bool{}
		for _, k := range sortedKeys(keys) {
			w, wok := wmap[k]
			r, rok := rmap[k]
			key := "writeAttr/readAttr:" + k
			switch {
			case k == "bucketKeyXattrValue" && wok && !rok:
				// read through b.Get inside the xattrKey case
				gets := 0
				for _, lit := range withAnon(rf) {
					for _, ci := range callsIn(lit, idIs("go.etcd.io/bbolt.(*Bucket).Get")) {
						if globalName(ci.Common().Args[1]) == k {
							gets++
						}
					}
				}
				c.verdict(key, wf.Pos(), gets > 0, "first xattr value read via Get in the xattrKey case", "first xattr value is written but never read")
			case wok && !rok:
				c.bad(key, wf.Pos(), "bucket key "+k+" (Attr."+w+") is written but never read back: the DB store loses this attribute")
			case rok && !wok:
				c.bad(key, rf.Pos(), "bucket key "+k+" is read into Attr."+r+" but never written")
			case w != r:
				c.bad(key, rf.Pos(), "bucket key "+k+" is written from Attr."+w+" but read into Attr."+r)
			default:
				covered[w] = true
				c.ok(key, wf.Pos(), k+" ↔ Attr."+w)
			}
		}
		for _, fld := range attrFields {
			c.verdict("writeAttr/readAttr:covers:"+fld, wf.Pos(), covered[fld], "Attr."+fld+" round-trips through the DB", "Attr."+fld+" is not stored/restored by the DB store")
		}
		c.verdict("writeAttr/readAttr:numLink-offset", wf.Pos(), wdelta["NumLink"] == -1 && rdelta["NumLink"] == 1, "numLink stored as n-1 and read as n+1", fmt.Sprintf("numLink encoding differs: written with %+d, read with %+d", wdelta["NumLink"], rdelta["NumLink"]))
		if f := c.mustFn(dbp, "readNumLink"); f != nil {
			d := int64(0)
			eachInstr(f, func(i ssa.Instruction) {
				if b, ok := i.(*ssa.BinOp); ok && b.Op == token.ADD {
					if n, ok := constInt(b.Y); ok {
						d = n
					}
				}
			})
			c.verdict("readNumLink:offset", f.Pos(), d == 1, "readNumLink adds the same offset", "readNumLink decodes numLink differently from readAttr")
		}
	}

	// ---------- C05.b ----------
	c.clause("C05.b", "T5", "chunk record byte ranges agree between encoder and decoder; every bucket key written is read and every key read is written", 20)
	ef, dcf := c.mustFn(dbp, "encodeChunkEntry"), c.mustFn(dbp, "decodeChunkEntry")
	if ef != nil && dcf != nil {
		rng := func(v ssa.Value) string {
			sl, ok := stripConv(v).(*ssa.Slice)
			if !ok {
				return ""
			}
			return valName(sl.Low) + ":" + valName(sl.High)
		}
		em, dm := map[string]string{}, map[string]string{}
		for _, ci := range callsIn(ef, func(id string, _ ssa.CallInstruction) bool { return strings.HasSuffix(id, ".PutUint64") }) {
			args := ci.Common().Args
			src := map[string]bool{}
			fieldsRead(args[len(args)-1], dbp+".chunkEntry", 0, src)
			for k := range src {
				em[rng(args[len(args)-2])] = k
			}
		}
		for _, ci := range callsIn(ef, idIs("builtin.copy")) {
			src := map[string]bool{}
			fieldsRead(ci.Common().Args[1], dbp+".chunkEntry", 0, src)
			for k := range src {
				em[rng(ci.Common().Args[0])] = k
			}
		}
		eachInstr(dcf, func(i ssa.Instruction) {
			s, ok := i.(*ssa.Store)
			if !ok {
				return
			}
			fa, ok := s.Addr.(*ssa.FieldAddr)
			if !ok || typeQName(fa.X.Type()) != dbp+".chunkEntry" {
				return
			}
			// find the slice in the value expression
			var find func(v ssa.Value, d int) string
			find = func(v ssa.Value, d int) string {
				v = stripConv(v)
				if d > 5 {
					return ""
				}
				if r := rng(v); r != "" {
					return r
				}
				if call, ok := v.(*ssa.Call); ok {
					for _, a := range call.Call.Args {
						if r := find(a, d+1); r != "" {
							return r
						}
					}
				}
				return ""
			}
			if r := find(s.Val, 0); r != "" {
				dm[r] = fieldName(fa)
			}
		})
		rs := map[string]bool{}
		for k := range em {
			rs[k] = true
		}
		for k := range dm {
			rs[k] = true
		}
		for _, r := range sortedKeys(rs) {
			c.verdict("chunkEntry["+r+"]", ef.Pos(), em[r] == dm[r] && em[r] != "", "bytes ["+r+"] ↔ "+em[r], fmt.Sprintf("bytes [%s] encode field %q but decode into %q", r, em[r], dm[r]))
		}
		if len(rs) < 4 {
			c.bad("chunkEntry:ranges", ef.Pos(), "fewer than 4 encoded chunk fields found")
		}
	}
	// bucket key put/get agreement over package db
	writers := map[string]bool{}
	readers := map[string]bool{}
	for _, f := range c.pkgFuncs(dbp) {
		eachInstr(f, func(i ssa.Instruction) {
			ci, ok := asCall(i)
			if !ok {
				// comparisons string(k) == string(global)
				if bo, ok := i.(*ssa.BinOp); ok && bo.Op == token.EQL {
					for _, s := range []ssa.Value{bo.X, bo.Y} {
						if g := globalName(stripStringConv(s)); strings.HasPrefix(g, "bucketKey") {
							readers[g] = true
						}
					}
				}
				return
			}
			id := calleeID(ci)
			isW := strings.HasSuffix(id, "bbolt.(*Bucket).Put") || strings.HasSuffix(id, "bbolt.(*Bucket).CreateBucket") || strings.HasSuffix(id, "bbolt.(*Tx).CreateBucketIfNotExists") || id == dbp+".putInt"
			isR := strings.HasSuffix(id, "bbolt.(*Bucket).Get") || strings.HasSuffix(id, "bbolt.(*Bucket).Bucket") || strings.HasSuffix(id, "bbolt.(*Tx).Bucket")
			for _, a := range ci.Common().Args {
				if g := globalName(a); strings.HasPrefix(g, "bucketKey") {
					if isW {
						writers[g] = true
					}
					if isR {
						readers[g] = true
					}
				}
			}
			// table entries in writeAttr (key field stores)
		})
	}
	if wf != nil {
		eachInstr(wf, func(i ssa.Instruction) {
			if s, ok := i.(*ssa.Store); ok {
				if g := globalName(s.Val); strings.HasPrefix(g, "bucketKey") {
					writers[g] = true
				}
			}
		})
	}
	all := map[string]bool{}
	for k := range writers {
		all[k] = true
	}
	for k := range readers {
		all[k] = true
	}
	for _, k := range sortedKeys(all) {
		key := "bucket-key:" + k
		switch {
		case writers[k] && readers[k]:
			c.ok(key, token.NoPos, "written and read")
		case writers[k]:
			c.bad(key, token.NoPos, "bucket key is written but never read")
		default:
			c.bad(key, token.NoPos, "bucket key is read but never written")
		}
	}

	// ---------- C05.c ----------
	c.clause("C05.c", "T2", "every TOC parser reads the hashed TOC stream to its end before taking the digest", 3)
	for _, f := range c.liveFuncs() {
		// digester.Digest() calls whose digester's Hash() feeds an io.TeeReader in the same function
		for _, dg := range callsIn(f, idIs("github.com/opencontainers/go-digest.(Digester).Digest")) {
			dgr := dg.Common().Value
			var tees []*ssa.Call
			for _, tc := range callsIn(f, idIs("io.TeeReader")) {
				w := stripConv(tc.Common().Args[1])
				if hc, ok := w.(*ssa.Call); ok && hc.Call.IsInvoke() && hc.Call.Method.Name() == "Hash" && sameValue(hc.Call.Value, dgr) {
					tees = append(tees, tc.(*ssa.Call))
				}
			}
			// only parsers: the hashed stream is consumed by a JSON decoder or spooled by io.Copy
			parser := false
			for _, t := range tees {
				for _, r := range *t.Referrers() {
					if ci, ok := r.(*ssa.Call); ok && (calleeID(ci) == "encoding/json.NewDecoder" || calleeID(ci) == "io.Copy") {
						parser = true
					}
					if mi, ok := r.(*ssa.MakeInterface); ok {
						for _, rr := range *mi.Referrers() {
							if ci, ok := rr.(*ssa.Call); ok && (calleeID(ci) == "encoding/json.NewDecoder" || calleeID(ci) == "io.Copy") {
								parser = true
							}
						}
					}
				}
			}
			if len(tees) == 0 || !parser {
				continue
			}
			key := c.fnKey(f) + ":toc-digest-drained"
			// draining calls: io.Copy(_, tee) / io.ReadAll(tee) / io.CopyN
			var drains []ssa.Instruction
			for _, ci := range callsIn(f, idIs("io.Copy", "io.ReadAll", "io.CopyBuffer")) {
				var src ssa.Value
				if calleeID(ci) == "io.ReadAll" {
					src = ci.Common().Args[0]
				} else {
					src = ci.Common().Args[1]
				}
				for _, t := range tees {
					if sameValue(src, t) {
						// must succeed before Digest: success edges
						drains = append(drains, ci)
					}
				}
			}
			if len(drains) == 0 {
				c.bad(key, dg.Pos(), "the digest is taken after a JSON decode without reading the hashed TOC stream to its end: bytes after the JSON value are not hashed, so the digest differs from sha256(TOC file) and from the other metadata store")
				continue
			}
			okp, path := mustPass(f, dg, newCuts().addInstr(drains...))
			c.verdict(key, dg.Pos(), okp, "TOC stream drained through the hashing reader before Digest()", "a path takes the digest without draining: "+c.pathStr(f, path))
		}
	}

	// ---------- C05.d ----------
	c.clause("C05.d", "T9", "every access below the filesystems bucket is keyed by this reader's fsID; Close deletes only filesystems/<r.fsID>", 20)
	c.buildCallers()
	const rd = dbp + ".reader"
	var isOwnFsID func(v ssa.Value, f *ssa.Function, depth int) bool
	isOwnFsID = func(v ssa.Value, f *ssa.Function, depth int) bool {
		if depth > 4 {
			return false
		}
		v = stripConv(v)
		if sl, ok := v.(*ssa.Slice); ok { // []byte(x) lowering
			v = stripConv(sl.X)
		}
		if _, ok := isFieldLoad(v, rd, "fsID"); ok {
			return true
		}
		for _, rv := range reachingCellVals(v) {
			if rv != v {
				if _, ok := isFieldLoad(rv, rd, "fsID"); ok {
					return true
				}
			}
		}
		if p, ok := v.(*ssa.Parameter); ok {
			idx := paramIndex(f, p)
			sites := c.callersOf[f]
			if len(sites) == 0 {
				return false
			}
			for _, s := range sites {
				args := s.instr.(ssa.CallInstruction).Common().Args
				if !isOwnFsID(args[idx], s.caller, depth+1) && !isFreshXID(args[idx]) {
					return false
				}
			}
			return true
		}
		// captured parameter of the enclosing function (initRootNode's literal)
		if fv, ok := v.(*ssa.FreeVar); ok {
			_ = fv
		}
		if p, ok := loadOf(v); ok {
			if root := cellRoot(p); root != nil {
				if a, ok := root.(*ssa.Alloc); ok {
					owner := a.Parent()
					for _, r := range *a.Referrers() {
						if st, ok := r.(*ssa.Store); ok && st.Addr == a {
							if pp, ok := st.Val.(*ssa.Parameter); ok {
								return isOwnFsID(pp, owner, depth+1)
							}
						}
					}
				}
			}
		}
		return false
	}
	for _, f := range c.pkgFuncs(dbp) {
		eachInstr(f, func(i ssa.Instruction) {
			ci, ok := i.(*ssa.Call)
			if !ok {
				return
			}
			id := calleeID(ci)
			if !(strings.HasSuffix(id, "bbolt.(*Bucket).Bucket") || strings.HasSuffix(id, "bbolt.(*Bucket).CreateBucket") || strings.HasSuffix(id, "bbolt.(*Bucket).DeleteBucket")) {
				return
			}
			// receiver is the filesystems bucket: result of tx.Bucket(bucketKeyFilesystems) / CreateBucketIfNotExists(bucketKeyFilesystems)
			recvIsFS := false
			for _, src := range valueSources(ci.Call.Args[0], f, 0) {
				var call *ssa.Call
				if e, ok := src.(*ssa.Extract); ok {
					call, _ = e.Tuple.(*ssa.Call)
				} else {
					call, _ = src.(*ssa.Call)
				}
				if call != nil && len(call.Call.Args) >= 2 && globalName(call.Call.Args[1]) == "bucketKeyFilesystems" {
					recvIsFS = true
				}
			}
			if !recvIsFS {
				return
			}
			key := fmt.Sprintf("%s:filesystems.%s", c.fnKey(f), id[strings.LastIndex(id, ".")+1:])
			kv := ci.Call.Args[1]
			c.verdict(key, ci.Pos(), isOwnFsID(kv, f, 0), "keyed by this reader's fsID", "a bucket below filesystems/ is addressed with something other than this reader's fsID: layers in one DB can influence each other")
		})
	}
	// Close removes exactly this reader's bucket; nothing deletes top-level buckets
	if f := c.mustFn(dbp, "(*reader).Close"); f != nil {
		n := 0
		for _, lit := range withAnon(f) {
			for _, ci := range callsIn(lit, func(id string, _ ssa.CallInstruction) bool { return strings.HasSuffix(id, "bbolt.(*Bucket).DeleteBucket") }) {
				if isOwnFsID(ci.Common().Args[1], lit, 0) {
					n++
				}
			}
		}
		c.verdict(c.fnKey(f)+":deletes-own-bucket", f.Pos(), n == 1, "Close deletes filesystems/<r.fsID>", "Close does not delete exactly this reader's filesystem bucket")
	}
	for _, f := range c.pkgFuncs(dbp) {
		for _, ci := range callsIn(f, func(id string, _ ssa.CallInstruction) bool { return strings.HasSuffix(id, "bbolt.(*Tx).DeleteBucket") }) {
			c.bad(c.fnKey(f)+":Tx.DeleteBucket", ci.Pos(), "a top-level bucket is deleted: this removes the metadata of every layer in the database")
		}
	}
	// callers of getNodes/getMetadata/getStream/readInnerChunks pass r.fsID — covered through parameter tracing above;
	// additionally list them as instances
	for _, nm := range []string{"getNodes", "getMetadata", "getStream", "readInnerChunks"} {
		if f := c.fn(dbp, nm); f != nil {
			for _, s := range c.callersOf[f] {
				args := s.instr.(ssa.CallInstruction).Common().Args
				c.verdict(fmt.Sprintf("%s→%s:fsID", c.fnKey(s.caller), nm), s.instr.Pos(), isOwnFsID(args[1], s.caller, 0), "called with this reader's fsID", "called with a foreign fsID")
			}
		}
	}
	// ---------- C05.e ----------
	c.clause("C05.e", "T5+T9", "hardlink targets are normalised the same way in both stores: every use of TOCEntry.LinkName as a lookup key goes through cleanEntryName (directly or as the first action of the callee)", 2)
	cleanOnly := func(p *ssa.Parameter) bool {
		// every use of the parameter is cleanEntryName(p) (or formatting for an error message)
		if p.Referrers() == nil {
			return false
		}
		n := 0
		for _, r := range *p.Referrers() {
			switch x := r.(type) {
			case *ssa.Call:
				if t := x.Call.StaticCallee(); t != nil && t.Name() == "cleanEntryName" {
					n++
					continue
				}
				return false
			case *ssa.MakeInterface:
				continue // error message
			case *ssa.DebugRef:
				continue
			case *ssa.Store:
				// spilled to a cell that is immediately overwritten by the cleaned value: treat the cell's loads
				if a, ok := x.Addr.(*ssa.Alloc); ok {
					for _, ar := range *a.Referrers() {
						if ld, ok := ar.(*ssa.UnOp); ok {
							for _, lr := range *ld.Referrers() {
								if ci, ok := lr.(*ssa.Call); ok {
									if t := ci.Call.StaticCallee(); t != nil && t.Name() == "cleanEntryName" {
										n++
										continue
									}
								}
								if _, ok := lr.(*ssa.MakeInterface); ok {
									continue
								}
								// a load after the variable was reassigned to the cleaned value is fine: check reaching values
								okAll := true
								for _, rv := range reachingVals(ld) {
									if rv == ssa.Value(p) {
										okAll = false
									}
								}
								if !okAll {
									return false
								}
							}
						}
					}
					continue
				}
				return false
			default:
				return false
			}
		}
		return n > 0
	}
	nLink := 0
	for _, pk := range []string{"estargz", dbp} {
		for _, f := range c.pkgFuncs(pk) {
			eachInstr(f, func(i ssa.Instruction) {
				ld, ok := i.(*ssa.UnOp)
				if !ok || ld.Op != token.MUL {
					return
				}
				fa, ok := ld.X.(*ssa.FieldAddr)
				if !ok || typeQName(fa.X.Type()) != tocT || fieldName(fa) != "LinkName" {
					return
				}
				// the raw name may also travel through a loop-carried variable before it is used as a key
				carried := map[ssa.Value]bool{ssa.Value(ld): true}
				work := []ssa.Value{ld}
				for len(work) > 0 {
					v := work[0]
					work = work[1:]
					if v.Referrers() == nil {
						continue
					}
					for _, r := range *v.Referrers() {
						switch y := r.(type) {
						case *ssa.Phi:
							if !carried[y] {
								carried[y] = true
								work = append(work, y)
							}
						case *ssa.ChangeType:
							if !carried[y] {
								carried[y] = true
								work = append(work, y)
							}
						case *ssa.Lookup:
							if y.Index == v {
								nLink++
								c.bad(c.fnKey(f)+":LinkName→map-key", y.Pos(), "the raw TOC link name (not passed through cleanEntryName) is used as a map key: a second hop of a hardlink chain spelled ./x or /a/b resolves in one store and not in the other")
							}
						case *ssa.Call:
							if v == ssa.Value(ld) {
								continue // direct uses are classified below
							}
							if t := y.Call.StaticCallee(); t != nil && t.Name() == "cleanEntryName" {
								continue
							}
							if id := calleeID(y); strings.HasPrefix(id, "fmt.") {
								continue
							}
							nLink++
							c.bad(c.fnKey(f)+":LinkName→"+calleeID(y), y.Pos(), "a variable that may hold the raw TOC link name is passed on without cleanEntryName")
						}
					}
				}
				for _, r := range *ld.Referrers() {
					switch x := r.(type) {
					case *ssa.Call:
						t := x.Call.StaticCallee()
						key := c.fnKey(f) + ":LinkName→" + calleeID(x)
						if t != nil && t.Name() == "cleanEntryName" {
							nLink++
							c.ok(key, x.Pos(), "link name cleaned at the use site")
							continue
						}
						if t != nil && t.Blocks != nil && isFirstParty(t.Pkg.Pkg.Path()) {
							idx := -1
							for ai, a := range x.Call.Args {
								if a == ssa.Value(ld) {
									idx = ai
								}
							}
							if idx >= 0 && idx < len(t.Params) {
								nLink++
								c.verdict(key, x.Pos(), cleanOnly(t.Params[idx]), "callee normalises the name before using it", "the raw TOC link name is used as a lookup key without cleanEntryName: names like ./x or a//b resolve in one store and not in the other")
							}
						}
					}
				}
			})
		}
	}
	if nLink < 2 {
		c.bad("LinkName-lookups", token.NoPos, "hardlink lookups by link name not found in both stores")
	}

	// ---------- C05.f ----------
	c.clause("C05.f", "T1", "a reader derived from another DB reader (fresh init group, same filesystem bucket) is created only after the original's background initialisation completed", 1)
	for _, f := range c.pkgFuncs(dbp) {
		if c.fnKey(enclosingRoot(f)) == dbp+".NewReader" {
			continue
		}
		eachInstr(f, func(i ssa.Instruction) {
			al, ok := i.(*ssa.Alloc)
			if !ok || typeQName(al.Type()) != rd || al.Comment != "complit" {
				return
			}
			waits := callsIn(f, idIs(dbp+".(*reader).waitInit"))
			var se []edge
			for _, w := range waits {
				se = append(se, successEdges(f, w)...)
			}
			okp, _ := mustPass(f, al, newCuts().addEdges(se))
			c.verdict(c.fnKey(f)+":derived-reader-after-init", al.Pos(), okp && len(se) > 0, "derived reader created only after waitInit() succeeded", "a reader sharing the filesystem bucket is created without waiting for the background TOC import: it serves an incomplete tree")
		})
	}
	// view/update wait before touching the DB
	for _, nm := range []string{"(*reader).view", "(*reader).update"} {
		if f := c.mustFn(dbp, nm); f != nil {
			waits := callsIn(f, idIs(dbp+".(*reader).waitInit"))
			var se []edge
			for _, w := range waits {
				se = append(se, successEdges(f, w)...)
			}
			for _, ci := range callsIn(f, func(id string, _ ssa.CallInstruction) bool {
				return strings.HasSuffix(id, "bbolt.(*DB).View") || strings.HasSuffix(id, "bbolt.(*DB).Batch") || strings.HasSuffix(id, "bbolt.(*DB).Update")
			}) {
				okp, _ := mustPass(f, ci, newCuts().addEdges(se))
				c.verdict(c.fnKey(f)+":wait-before-db", ci.Pos(), okp && len(se) > 0, "DB accessed only after initialisation completed", "DB accessed before the background initialisation completed")
			}
		}
	}

	clauseSortedChunks(c, "C05.g")
	clausePreReadAccounting(c, "C05.h")
	clauseDirLinkCount(c, "C05.i")
	clauseTreeBuilderParity(c, "C05.j")
	clauseResetCoversDecodedFields(c, "C05.k")
	clauseExistingDirReused(c, "C05.l")
	clauseCleanNameViaPathClean(c, "C05.m")
	c.assume("bolt transactions are isolated; json.Decoder reads through the TeeReader only")
}

func stripStringConv(v ssa.Value) ssa.Value {
	v = stripConv(v)
	return v
}

func isFreshXID(v ssa.Value) bool {
	v = stripConv(v)
	for _, rv := range reachingCellVals(v) {
		if call, ok := rv.(*ssa.Call); ok && strings.HasSuffix(calleeID(call), "xid.(ID).String") {
			return true
		}
	}
	if call, ok := v.(*ssa.Call); ok && strings.HasSuffix(calleeID(call), "xid.(ID).String") {
		return true
	}
	return false
}

func structFields(c *Ctx, q string) []string {
	n := c.namedType(q)
	if n == nil {
		return nil
	}
	st, ok := n.Underlying().(*types.Struct)
	if !ok {
		return nil
	}
	var out []string
	for i := 0; i < st.NumFields(); i++ {
		out = append(out, st.Field(i).Name())
	}
	sort.Strings(out)
	return out
}
