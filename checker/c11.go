package main

import (
	"fmt"
	"go/token"
	"go/types"
	"strings"

	"golang.org/x/tools/go/ssa"
)

func init() {
	register("C11", "Structural premises of 'a chunk-cache hit returns exactly the committed bytes': every cache writer is committed only on paths where all writes into it succeeded and is aborted on the failure edge; committed files appear under their key only by rename from a temp file in the wip directory and Get opens only that path; the reference obtained from the refcounted LRU is released only by the returned reader's Close (or after the last use of the buffer), never inside Get; pooled buffers are recycled only after Reset and only the rejected buffer is recycled on a duplicate Add; the memory cache map is touched only under its mutex and filled only by Commit. Torn reads under real concurrency and page-cache effects are not decided.", runC11)
	register("C12", "Structural premises of 'a mounted layer stays usable; a released layer frees everything': every TTL-cache Get/Add in the layer resolver either hands its release closure to a returned reference holding the value of that same cache call or calls it on every other path; the redundant object on a duplicate Add is closed exactly on the !added edge and never handed out; acquired resources (blob reference, chunk caches) are released on every error exit through defers registered right after acquisition; close is idempotent under its mutex, closes reader and caches and drops the blob reference last; eviction hooks close; Done/Close map to done(false)/done(true); the per-name resolve lock is always released. Behaviour while held and directory reclamation on disk are not decided.", runC12)
}

func isCacheWriterType(t types.Type) bool {
	q := typeQName(t)
	return q == "cache.Writer" || q == "cache.writer"
}

// writerOps: calls on writer value w (same SSA value or same variable) of the given method.
func writerCalls(f *ssa.Function, w ssa.Value, method string) []ssa.CallInstruction {
	return callsIn(f, func(id string, ci ssa.CallInstruction) bool {
		o := calleeObj(ci)
		if o == nil || o.Name() != method {
			return false
		}
		var recv ssa.Value
		if ci.Common().IsInvoke() {
			recv = ci.Common().Value
		} else if len(ci.Common().Args) > 0 {
			recv = ci.Common().Args[0]
		}
		if recv == nil || !isCacheWriterType(recv.Type()) {
			return false
		}
		return sameValue(recv, w) || addrKey(recv) == addrKey(w) && addrKey(w) != ""
	})
}

func runC11(c *Ctx) {
	const cp = "cache"

	// ---------- C11.a ----------
	c.clause("C11.a", "T1+T2", "typestate of every cache.Writer: Commit is unreachable from the failure edge of a write into it, and that edge reaches Abort before returning", 6)
	nW := 0
	for _, f := range c.liveFuncs() {
		// writer values: results of BlobCache.Add (any implementation), or captured writer variables used with Write+Commit
		var writers []ssa.Value
		for _, ci := range callsIn(f, func(id string, ci ssa.CallInstruction) bool {
			o := calleeObj(ci)
			if o == nil || o.Name() != "Add" {
				return false
			}
			v := ci.Value()
			if v == nil {
				return false
			}
			tup, ok := v.Type().(*types.Tuple)
			return ok && tup.Len() == 2 && isCacheWriterType(tup.At(0).Type())
		}) {
			if w := resultN(ci, 0); w != nil {
				writers = append(writers, w)
			}
		}
		// captured writer (the memory→file commit literal)
		if f.Parent() != nil {
			for _, fv := range f.FreeVars {
				if isCacheWriterType(deref(fv.Type())) || isCacheWriterType(fv.Type()) {
					writers = append(writers, fv)
				}
			}
		}
		for _, w := range writers {
			// for a captured cell the receiver is a load of the free variable
			match := func(recv ssa.Value) bool {
				if sameValue(recv, w) {
					return true
				}
				if p, ok := loadOf(stripConv(recv)); ok && p == w {
					return true
				}
				return false
			}
			callsOn := func(method string) []ssa.CallInstruction {
				return callsIn(f, func(id string, ci ssa.CallInstruction) bool {
					o := calleeObj(ci)
					if o == nil || o.Name() != method {
						return false
					}
					var recv ssa.Value
					if ci.Common().IsInvoke() {
						recv = ci.Common().Value
					} else if len(ci.Common().Args) > 0 {
						recv = ci.Common().Args[0]
					}
					if recv == nil {
						return false
					}
					if isCacheWriterType(recv.Type()) && match(recv) {
						return true
					}
					// promoted method through the embedded io.WriteCloser of *writer
					if fa, ok := isFieldLoadAny(recv, "WriteCloser"); ok && isCacheWriterType(fa.X.Type()) && match(fa.X) {
						return true
					}
					return false
				})
			}
			commits, aborts := callsOn("Commit"), callsOn("Abort")
			if len(commits) == 0 {
				continue
			}
			// writes: w.Write(..), io.Copy/CopyN(dst=w or wrapping w)
			type wr struct {
				ci   ssa.CallInstruction
				fail []edge
			}
			var writes []wr
			for _, ci := range callsOn("Write") {
				var fe []edge
				for _, e := range errResults(ci) {
					fe = append(fe, nonNilEdges(f, e)...)
				}
				// short-count test: n != len(..) / n != expected
				if n := resultN(ci, 0); n != nil {
					fe = append(fe, condEdges(f, func(cond ssa.Value) int {
						b, ok := cond.(*ssa.BinOp)
						if !ok || b.Op != token.NEQ {
							return 0
						}
						if flowsFrom(b.X, n, 0) || flowsFrom(stripConvInt(b.X), n, 0) {
							return 1
						}
						return 0
					})...)
				}
				writes = append(writes, wr{ci, fe})
			}
			for _, ci := range callsIn(f, idIs("io.Copy", "io.CopyN")) {
				if wrapsWriter(ci.Common().Args[0], match, 0) {
					var fe []edge
					for _, e := range errResults(ci) {
						fe = append(fe, nonNilEdges(f, e)...)
					}
					writes = append(writes, wr{ci, fe})
				}
			}
			if len(writes) == 0 {
				continue
			}
			nW++
			for _, x := range writes {
				key := c.fnKey(f) + ":writer-typestate"
				if len(x.fail) == 0 {
					c.bad(key, x.ci.Pos(), "the result of a write into a cache writer is not checked before Commit: a short or failed write is published")
					continue
				}
				bad := ""
				for _, e := range x.fail {
					first := f.Blocks[e.from].Succs[e.succ].Instrs[0]
					isCommit := func(i ssa.Instruction) bool {
						for _, cm := range commits {
							if ssa.Instruction(cm) == i {
								return true
							}
						}
						return false
					}
					if isCommit(first) {
						bad = "Commit is reachable from the failure edge of the write"
					} else if got, _ := reach(f, first, isCommit, nil); got != nil {
						bad = "Commit is reachable from the failure edge of the write"
					}
					k := newCuts()
					for _, a := range aborts {
						k.addInstr(a)
					}
					if !k.instrs[first] {
						if got, _ := reach(f, first, isReturn, k); got != nil {
							bad = "the failure edge of the write returns without Abort (the partial temp file/buffer stays)"
						}
					}
				}
				c.verdict(key, x.ci.Pos(), bad == "", "failed/short write ⇒ Abort, Commit unreachable", bad)
				// every Commit is preceded by the success of this write on paths that executed it: Commit must not be reachable from the write avoiding its result test
			}
		}
	}
	if nW < 6 {
		c.bad("cache-writers", token.NoPos, fmt.Sprintf("only %d cache-writer users with write+commit found (6 on the pinned tree)", nW))
	}

	// ---------- C11.b ----------
	c.clause("C11.b", "T3+T9", "files under the cache path are created only by os.Rename from an os.CreateTemp file in the wip directory inside the commit function; Get opens only cachePath(key)", 4)
	for _, f := range c.pkgFuncs(cp) {
		eachInstr(f, func(i ssa.Instruction) {
			ci, ok := asCall(i)
			if !ok {
				return
			}
			id := calleeID(ci)
			root := c.fnKey(enclosingRoot(f))
			switch id {
			case "os.Create", "os.OpenFile", "os.WriteFile", "os.Link", "os.Symlink":
				c.bad(c.fnKey(f)+":"+id, i.Pos(), "a cache file is created other than by CreateTemp+Rename: readers can observe a partially written value under its final name")
			case "os.CreateTemp":
				_, inWip := isFieldLoad(ci.Common().Args[0], cp+".directoryCache", "wipDirectory")
				c.verdict(c.fnKey(f)+":CreateTemp", i.Pos(), inWip, "temp files live in the wip directory", "temp file created outside the wip directory")
			case "os.Rename":
				// (wip.Name(), cachePath(key))
				srcOK, dstOK := false, false
				if sc, ok := stripConv(ci.Common().Args[0]).(*ssa.Call); ok && calleeID(sc) == "os.(*File).Name" {
					srcOK = true
				}
				for _, v := range reachingCellVals(ci.Common().Args[1]) {
					if dc, ok := stripConv(v).(*ssa.Call); ok && calleeID(dc) == cp+".(*directoryCache).cachePath" {
						dstOK = true
					}
				}
				if dc, ok := stripConv(ci.Common().Args[1]).(*ssa.Call); ok && calleeID(dc) == cp+".(*directoryCache).cachePath" {
					dstOK = true
				}
				inCommit := root == cp+".(*directoryCache).Add"
				if addFn := c.fn(cp, "(*directoryCache).Add"); addFn != nil && !inCommit {
					inCommit = c.ownedBy(enclosingRoot(f), addFn) // the commit function's body moved into a helper of Add
				}
				c.verdict(c.fnKey(f)+":Rename", i.Pos(), srcOK && dstOK && inCommit, "publish = rename(temp file → cachePath(key)) in the commit function", "rename does not publish the temp file under cachePath(key) from the commit function")
			case "os.Open":
				good := false
				if dc, ok := stripConv(ci.Common().Args[0]).(*ssa.Call); ok && calleeID(dc) == cp+".(*directoryCache).cachePath" && isParamish(dc.Call.Args[1]) {
					good = true
				}
				c.verdict(c.fnKey(f)+":Open", i.Pos(), good, "Get opens cachePath(key) of its own key", "Get opens a path other than cachePath(key)")
			}
		})
	}
	if f := c.mustFn(cp, "(*directoryCache).cachePath"); f != nil {
		// path contains the whole key as last element
		good := false
		for _, jc := range callsIn(f, idIs("path/filepath.Join")) {
			parts := varargs(jc.Common().Args[0])
			if len(parts) >= 2 && isParam(parts[len(parts)-1]) {
				good = true
			}
		}
		c.verdict(c.fnKey(f)+":key-in-path", f.Pos(), good, "file name is the full key", "cache path does not end with the full key: different keys can share a file")
	}

	// ---------- C11.c ----------
	clauseCacheReleaseDiscipline(c, "C11.c")
	clausePrivateCaches(c, "C11.h")
	clauseKeyInjective(c, "C11.f", [][2]string{{"fs/reader", "genID"}, {"fs/remote", "(*httpFetcher).genID"}})
	clauseIncDiscipline(c, "C11.g")

	// ---------- C11.d ----------
	c.clause("C11.d", "T3+T1", "sync.Pool.Put only after Reset of the same buffer, only in putBuffer and the eviction hooks; on a duplicate Add only the rejected buffer is recycled, on the !added edge", 4)
	for _, f := range c.liveFuncs() {
		for _, pc := range callsIn(f, idIs("sync.(*Pool).Put")) {
			root := c.fnKey(enclosingRoot(f))
			if !strings.HasPrefix(root, cp+".") && !strings.HasPrefix(root, "fs/layer.newCache") && root != "fs/reader.(*reader).putBuffer" {
				continue
			}
			// Reset of the same buffer dominates
			arg := stripConv(pc.Common().Args[1])
			resets := callsIn(f, idIs("bytes.(*Buffer).Reset"))
			good := false
			for _, r := range resets {
				if dominatesInstr(r, pc) && (sameValue(r.Common().Args[0], arg) || derivesFromValue(r.Common().Args[0], arg, 0) || derivesFromValue(arg, r.Common().Args[0], 0) || sameUnderlying(r.Common().Args[0], arg)) {
					good = true
				}
			}
			c.verdict(c.fnKey(f)+":Reset-before-Put", pc.Pos(), good, "buffer reset before it returns to the pool", "a buffer returns to the pool with its old contents: a later writer that appends to it commits stale bytes")
		}
	}
	if f := c.mustFn(cp, "(*directoryCache).Add"); f != nil {
		for _, lit := range withAnon(f) {
			adds := callsIn(lit, idIs("util/cacheutil.(*LRUCache).Add"))
			for _, a := range adds {
				added := resultN(a, 2)
				if added == nil {
					continue
				}
				ne := boolEdges(lit, added, false)
				for _, pb := range callsIn(lit, idIs(cp+".(*directoryCache).putBuffer")) {
					okp, _ := mustPass(lit, pb, newCuts().addEdges(ne))
					isRejected := sameValue(pb.Common().Args[1], a.Common().Args[2]) || sameUnderlying(pb.Common().Args[1], a.Common().Args[2])
					c.verdict(c.fnKey(lit)+":recycle-rejected-only", pb.Pos(), okp && isRejected && len(ne) > 0, "only the rejected buffer is recycled, on the !added edge", "the buffer now owned by the LRU (or the cached one) is recycled: a cache hit returns bytes of another key")
				}
			}
		}
	}

	// ---------- C11.e ----------
	c.clause("C11.e", "T4+T3", "MemoryCache.Membuf only under MemoryCache.mu, inserted only by the writer's commit function; closed flags under their mutexes", 4)
	c.guardedBy(cp+".MemoryCache", "Membuf", "mu", true)
	c.guardedBy(cp+".directoryCache", "closed", "closedMu", true)
	for _, f := range c.pkgFuncs(cp) {
		eachInstr(f, func(i ssa.Instruction) {
			if mu, ok := i.(*ssa.MapUpdate); ok {
				if _, ok := isFieldLoad(mu.Map, cp+".MemoryCache", "Membuf"); ok {
					isCommit := false
					for _, u := range literalUses(f) {
						if st, ok := u.(*ssa.Store); ok {
							if fa, ok := st.Addr.(*ssa.FieldAddr); ok && fieldName(fa) == "commitFunc" {
								isCommit = true
							}
						}
					}
					c.verdict(c.fnKey(f)+":Membuf-insert", i.Pos(), isCommit, "value published by Commit", "memory cache value published outside Commit (an aborted or still-open writer becomes visible)")
				}
			}
		})
	}
	for _, f := range c.pkgFuncs(cp) {
		eachInstr(f, func(i ssa.Instruction) {
			ci, ok := asCall(i)
			if !ok {
				return
			}
			id := calleeID(ci)
			if !strings.HasPrefix(id, "bytes.(*Buffer).") {
				return
			}
			switch id[len("bytes.(*Buffer)."):] {
			case "Reset", "Write", "WriteString", "WriteByte", "Truncate", "ReadFrom", "Grow":
			default:
				return
			}
			recv := stripConv(ci.Common().Args[0])
			fromMap := false
			for _, v := range append(reachingVals(recv), recv) {
				v = stripConv(v)
				if e, ok := v.(*ssa.Extract); ok {
					v = e.Tuple
				}
				if lk, ok := v.(*ssa.Lookup); ok {
					if _, ok := isFieldLoad(lk.X, cp+".MemoryCache", "Membuf"); ok {
						fromMap = true
					}
				}
			}
			if fromMap {
				c.bad(c.fnKey(f)+":published-buffer-mutated", i.Pos(), "a buffer already published in the memory cache is modified in place: readers holding it see bytes no writer committed")
			}
		})
	}
	c.assume("os.Rename within one directory tree is atomic; bytes.Buffer contents are stable while a reference is held")
}

func stripConvInt(v ssa.Value) ssa.Value { return stripConv(v) }

func firstNonEmpty(a, b string) string {
	if a != "" {
		return a
	}
	return b
}

// derivesFromValue: v is computed from src through calls/conversions/type assertions (e.g. bytes.NewReader(b.(*bytes.Buffer).Bytes())).
func derivesFromValue(v, src ssa.Value, depth int) bool {
	if v == nil || depth > 6 {
		return false
	}
	v = stripConv(v)
	if v == stripConv(src) {
		return true
	}
	switch x := v.(type) {
	case *ssa.TypeAssert:
		return derivesFromValue(x.X, src, depth+1)
	case *ssa.Call:
		if x.Call.IsInvoke() && derivesFromValue(x.Call.Value, src, depth+1) {
			return true
		}
		for _, a := range x.Call.Args {
			if derivesFromValue(a, src, depth+1) {
				return true
			}
		}
	case *ssa.Extract:
		return derivesFromValue(x.Tuple, src, depth+1)
	case *ssa.UnOp:
		if p, ok := loadOf(v); ok {
			for _, rv := range reachingCellVals(v) {
				if rv != v && derivesFromValue(rv, src, depth+1) {
					return true
				}
			}
			_ = p
		}
	}
	return false
}

// sameUnderlying: both values are type assertions / loads of the same variable.
func sameUnderlying(a, b ssa.Value) bool {
	strip := func(v ssa.Value) ssa.Value {
		v = stripConv(v)
		for {
			if ta, ok := v.(*ssa.TypeAssert); ok {
				v = stripConv(ta.X)
				continue
			}
			return v
		}
	}
	x, y := strip(a), strip(b)
	if x == y {
		return true
	}
	return sameValue(x, y)
}

// ---------------------------------------------------------------------------

func runC12(c *Ctx) {
	const lp = "fs/layer"
	res := c.pkgFuncs(lp)

	// ---------- C12.a ----------
	clauseTTLOwnership(c, "C12.a")
	clauseFinalizeWithRemoval(c, "C12.n")
	clausePrivateCaches(c, "C12.m")

	clauseMountRegistrationRolledBack(c, "C12.g")
	clauseCommitNoEffectWhenClosed(c, "C12.h")
	clauseURLInstalledOnSuccess(c, "C12.i")
	clauseCloneNotClosed(c, "C12.j")
	clauseLayerClosedOnlyByOwner(c, "C12.k")
	clauseGivenUpResultIsReleased(c, "C12.l")

	// ---------- C12.b ----------
	c.clause("C12.b", "T2", "resources acquired during Resolve/resolveBlob are released on every later error exit (deferred, guarded by the named error result)", 3)
	for _, f := range res {
		if f.Parent() != nil {
			continue
		}
		type acq struct {
			call    ssa.CallInstruction
			release string
		}
		var acqs []acq
		for _, ci := range callsIn(f, idIs(lp+".(*Resolver).resolveBlob")) {
			acqs = append(acqs, acq{ci, "done"})
		}
		for _, ci := range callsIn(f, idIs(lp+".newCache")) {
			acqs = append(acqs, acq{ci, "Close"})
		}
		for _, a := range acqs {
			key := c.fnKey(f) + ":release-on-error:" + calleeID(a.call)
			r0 := resultN(a.call, 0)
			// a deferred literal that, on retErr != nil, calls release on r0
			var deferAt ssa.Instruction
			for _, lit := range f.AnonFuncs {
				isDeferred := false
				var d ssa.Instruction
				for _, u := range literalUses(lit) {
					if dd, ok := u.(*ssa.Defer); ok {
						isDeferred = true
						d = dd
					}
				}
				if !isDeferred {
					continue
				}
				rel := callsIn(lit, func(id string, ci ssa.CallInstruction) bool {
					var recv ssa.Value
					name := ""
					if ci.Common().IsInvoke() {
						recv = ci.Common().Value
						name = ci.Common().Method.Name()
					} else {
						// blobR.done(true): call of a field value
						if fa, ok := isFieldLoadAny(ci.Common().Value, "done"); ok {
							recv = fa.X
							name = "done"
						} else if o := calleeObj(ci); o != nil && len(ci.Common().Args) > 0 {
							recv = ci.Common().Args[0]
							name = o.Name()
						}
					}
					if recv == nil || name != a.release {
						return false
					}
					for _, rv := range reachingCellVals(recv) {
						if stripConv(rv) == r0 {
							return true
						}
					}
					return false
				})
				if len(rel) == 0 {
					continue
				}
				ne := condEdges(lit, func(cond ssa.Value) int {
					return -nilTest(cond, func(x ssa.Value) bool {
						p, ok := loadOf(stripConv(x))
						if !ok {
							return false
						}
						al, ok := cellRoot(p).(*ssa.Alloc)
						return ok && al.Parent() == f && isErrorType(deref(al.Type()))
					})
				})
				okp, _ := mustPass(lit, rel[0], newCuts().addEdges(ne))
				if okp && len(ne) > 0 {
					deferAt = d
				}
			}
			if deferAt == nil {
				c.bad(key, a.call.Pos(), "no deferred release guarded by the error result: an error exit after the acquisition leaks the reference/cache directory")
				continue
			}
			// registered before any return after the acquisition succeeded
			se := successEdges(f, a.call)
			bad := false
			for _, e := range se {
				first := f.Blocks[e.from].Succs[e.succ].Instrs[0]
				if first == deferAt {
					continue
				}
				if got, _ := reach(f, first, isReturn, newCuts().addInstr(deferAt)); got != nil {
					bad = true
				}
			}
			c.verdict(key, a.call.Pos(), !bad, "release deferred right after the acquisition, active on every later exit", "a return after the acquisition precedes the registration of its release")
		}
	}

	// ---------- C12.c ----------
	c.clause("C12.c", "T1", "(*layer).close is idempotent under closedMu, closes the reader and drops the blob reference last; eviction hooks close", 3)
	if f := c.mustFn(lp, "(*layer).close"); f != nil {
		held := true
		for _, a := range c.fieldAccesses(lp+".layer", "closed", []*ssa.Function{f}) {
			if c.locksAt(a.instr)["l.closedMu"] != lockW {
				held = false
			}
		}
		already := condEdges(f, func(cond ssa.Value) int {
			if _, ok := isFieldLoad(cond, lp+".layer", "closed"); ok {
				return -1
			}
			return 0
		})
		var work []ssa.CallInstruction
		work = append(work, callsIn(f, idIs("fs/reader.(*VerifiableReader).Close"))...)
		good := held && len(already) > 0 && len(work) == 1
		for _, w := range work {
			if okp, _ := mustPass(f, w, newCuts().addEdges(already)); !okp {
				good = false
			}
		}
		// blob reference dropped last: by a defer registered before the closes, or by an explicit call after which no
		// close can run and which every exit behind the gate passes
		blobLast := false
		closers := append([]ssa.CallInstruction{}, work...)
		closers = append(closers, callsIn(f, func(id string, ci ssa.CallInstruction) bool {
			return ci.Common().IsInvoke() && ci.Common().Method.Name() == "Close"
		})...)
		eachInstr(f, func(i ssa.Instruction) {
			ci, ok := i.(ssa.CallInstruction)
			if !ok {
				return
			}
			fa, ok := isFieldLoadAny(ci.Common().Value, "done")
			if !ok {
				return
			}
			if _, ok := isFieldLoad(fa.X, lp+".layer", "blob"); !ok {
				return
			}
			if k, ok := ci.Common().Args[0].(*ssa.Const); !ok || k.Value == nil || k.Value.String() != "true" {
				return
			}
			gated, _ := mustPass(f, i, newCuts().addEdges(already))
			switch i.(type) {
			case *ssa.Defer:
				blobLast = gated && len(work) == 1 && dominatesInstr(i, work[0])
			case *ssa.Call:
				okAll := gated && len(work) == 1 && dominatesInstr(work[0], i)
				for _, cl := range closers {
					if hit, _ := reach(f, i, isInstr(cl), nil); hit != nil {
						okAll = false
					}
				}
				// every exit after the reader was closed releases the blob
				if hit, _ := reach(f, work[0], isReturn, newCuts().addInstr(i)); hit != nil {
					okAll = false
				}
				blobLast = okAll
			}
		})
		// closed set before closing
		setOK := false
		for _, a := range c.fieldAccesses(lp+".layer", "closed", []*ssa.Function{f}) {
			if a.write && len(work) == 1 && dominatesInstr(a.instr, work[0]) {
				setOK = true
			}
		}
		c.verdict(c.fnKey(f)+":idempotent-ordered", f.Pos(), good && blobLast && setOK, "second close is a no-op; reader closed first, blob reference (evicting) released last", "close is not idempotent, does not close the reader, or releases the blob before the reader is closed")
	}
	if f := c.mustFn(lp, "NewResolver"); f != nil {
		hooks := 0
		for _, lit := range f.AnonFuncs {
			for _, u := range literalUses(lit) {
				if st, ok := u.(*ssa.Store); ok {
					if fa, ok := st.Addr.(*ssa.FieldAddr); ok && fieldName(fa) == "OnEvicted" {
						n := len(callsIn(lit, idIs(lp+".(*layer).close"))) + len(callsIn(lit, idIs("fs/remote.(Blob).Close")))
						hooks++
						c.verdict(c.fnKey(lit)+":eviction-closes", lit.Pos(), n == 1, "eviction callback closes the evicted value", "eviction callback does not close the evicted layer/blob (leak)")
					}
				}
			}
		}
		if hooks < 2 {
			c.bad(c.fnKey(f)+":hooks", f.Pos(), "layer/blob cache eviction hooks missing")
		}
	}

	// ---------- C12.d ----------
	c.clause("C12.d", "T5", "layerRef.Done releases without evicting, layerRef.Close releases and evicts", 2)
	for nm, want := range map[string]string{"(*layerRef).Done": "false", "(*layerRef).Close": "true"} {
		f := c.mustFn(lp, nm)
		if f == nil {
			continue
		}
		good := false
		eachInstr(f, func(i ssa.Instruction) {
			if ci, ok := i.(*ssa.Call); ok {
				if _, ok := isFieldLoadAny(ci.Call.Value, "done"); ok && len(ci.Call.Args) == 1 {
					if k, ok := ci.Call.Args[0].(*ssa.Const); ok && k.Value != nil && k.Value.String() == want {
						good = true
					}
				}
			}
		})
		c.verdict(lp+"."+nm, f.Pos(), good, "done("+want+")", nm+" does not call done("+want+")")
	}

	// ---------- C12.e ----------
	c.clause("C12.e", "T2", "NamedMutex.Lock(name) is paired with Unlock of the same name on all exits", 2)
	for _, f := range c.liveFuncs() {
		for _, lk := range callsIn(f, idIs("util/namedmutex.(*NamedMutex).Lock")) {
			uns := callsIn(f, idIs("util/namedmutex.(*NamedMutex).Unlock"))
			var match []ssa.CallInstruction
			for _, u := range uns {
				if sameValue(u.Common().Args[1], lk.Common().Args[1]) && addrKey(u.Common().Args[0]) == addrKey(lk.Common().Args[0]) {
					match = append(match, u)
				}
			}
			got, path := reach(f, lk, isReturn, newCuts().addCalls(match))
			c.verdict(c.fnKey(f)+":named-lock-pairing", lk.Pos(), got == nil && len(match) > 0, "Unlock(name) deferred/called on every exit", "a return leaves the per-name lock held (every later resolve of that name blocks forever): "+c.pathStr(f, path))
		}
	}
	// ---------- C12.f ----------
	c.clause("C12.f", "T1", "a connectivity refresh installs the newly resolved fetcher only after it was validated against the blob (same size)", 1)
	if f := c.mustFn("fs/remote", "(*blob).Refresh"); f != nil {
		same := condEdges(f, func(cond ssa.Value) int {
			b, ok := cond.(*ssa.BinOp)
			if !ok || (b.Op != token.NEQ && b.Op != token.EQL) {
				return 0
			}
			_, l := isFieldLoad(b.X, "fs/remote.blob", "size")
			_, r := isFieldLoad(b.Y, "fs/remote.blob", "size")
			if !l && !r {
				return 0
			}
			if b.Op == token.EQL {
				return 1
			}
			return -1
		})
		n := 0
		for _, a := range c.fieldAccesses("fs/remote.blob", "fetcher", []*ssa.Function{f}) {
			if !a.write {
				continue
			}
			n++
			okp, _ := mustPass(f, a.instr, newCuts().addEdges(same))
			c.verdict(c.fnKey(f)+":install-after-validation", a.instr.Pos(), okp && len(same) > 0, "fetcher replaced only when the refreshed blob has the same size", "a failed refresh (different object) still replaces the fetcher: the held layer serves another blob's bytes from then on")
		}
		if n == 0 {
			c.bad(c.fnKey(f)+":install", f.Pos(), "Refresh never installs the new fetcher")
		}
	}
	c.guardedBy("util/namedmutex.NamedMutex", "muMap", "mu", true)
	c.guardedBy("util/namedmutex.NamedMutex", "refMap", "mu", true)
	c.assume("TTLCache/LRUCache satisfy C10; remote.Blob.Close and reader.Close release their resources")
}

// isParamish: a parameter, or a load of the heap cell a parameter was spilled into (captured parameters).
func isParamish(v ssa.Value) bool {
	v = stripConv(v)
	if _, ok := v.(*ssa.Parameter); ok {
		return true
	}
	if p, ok := loadOf(v); ok {
		if a, ok := p.(*ssa.Alloc); ok {
			n, par := 0, 0
			for _, r := range *a.Referrers() {
				if st, ok := r.(*ssa.Store); ok && st.Addr == a {
					n++
					if _, ok := st.Val.(*ssa.Parameter); ok {
						par++
					}
				}
			}
			return n == 1 && par == 1
		}
	}
	return false
}

// derivesViaCell: v derives from a load of a cell into which src was stored.
func derivesViaCell(v, src ssa.Value) bool {
	if src.Referrers() == nil {
		return false
	}
	for _, r := range *src.Referrers() {
		if st, ok := r.(*ssa.Store); ok && st.Val == src {
			if cell, ok := st.Addr.(*ssa.Alloc); ok {
				for _, cr := range *cell.Referrers() {
					if ld, ok := cr.(*ssa.UnOp); ok && derivesFromValue(v, ld, 0) {
						return true
					}
				}
			}
		}
	}
	return false
}

// clauseCacheReleaseDiscipline: who releases an LRU reference of the directory cache, and when (shared by C11 and C10).
func clauseCacheReleaseDiscipline(c *Ctx, id string) {
	const cp = "cache"
	c.clause(id, "T2", "the release closure of an LRU Get is invoked only from the returned reader's closeFunc; in the commit path it is deferred until the cached buffer has been written out", 3)
	if f := c.mustFn(cp, "(*directoryCache).Get"); f != nil {
		for _, g := range callsIn(f, idIs("util/cacheutil.(*LRUCache).Get")) {
			done := resultN(g, 1)
			val := resultN(g, 0)
			key := c.fnKey(f) + ":done-of-LRU.Get"
			if done == nil {
				c.bad(key, g.Pos(), "release closure discarded")
				continue
			}
			bad := ""
			holder := false
			refs := append([]ssa.Instruction{}, *done.Referrers()...)
			// done is captured: it lives in a cell; follow the cell's uses (closures binding it, loads that call it)
			for _, r := range *done.Referrers() {
				if st, ok := r.(*ssa.Store); ok && st.Val == done {
					if cell, ok := st.Addr.(*ssa.Alloc); ok {
						for _, cr := range *cell.Referrers() {
							switch y := cr.(type) {
							case *ssa.MakeClosure:
								refs = append(refs, y)
							case *ssa.UnOp:
								for _, lr := range *y.Referrers() {
									if ci, ok := lr.(ssa.CallInstruction); ok && ci.Common().Value == ssa.Value(y) {
										bad = "the LRU reference is released inside Get (before the caller finished reading): the buffer/descriptor can be recycled or closed under the reader"
									}
								}
							}
						}
					}
				}
			}
			for _, r := range refs {
				switch x := r.(type) {
				case *ssa.MakeClosure:
					// the closure must be stored into reader.closeFunc of a reader whose ReaderAt derives from val
					lit := x.Fn.(*ssa.Function)
					stored := false
					for _, u := range *x.Referrers() {
						if st, ok := u.(*ssa.Store); ok {
							if fa, ok := st.Addr.(*ssa.FieldAddr); ok && fieldName(fa) == "closeFunc" {
								stored = true
								// sibling ReaderAt store derives from val
								eachInstr(f, func(j ssa.Instruction) {
									if st2, ok := j.(*ssa.Store); ok {
										if fa2, ok := st2.Addr.(*ssa.FieldAddr); ok && fa2.X == fa.X && fieldName(fa2) == "ReaderAt" {
											if derivesFromValue(st2.Val, val, 0) || derivesViaCell(st2.Val, val) {
												holder = true
											}
										}
									}
								})
							}
						}
					}
					if !stored {
						bad = "release closure captured by a literal that is not the reader's closeFunc"
					}
					_ = lit
				case ssa.CallInstruction:
					if x.Common().Value == done {
						bad = "the LRU reference is released inside Get (before the caller finished reading): the buffer/descriptor can be recycled or closed under the reader"
					}
				case *ssa.DebugRef:
				default:
				}
			}
			c.verdict(key, g.Pos(), bad == "" && holder, "reference kept until the reader is closed; reader serves the value of that same Get", firstNonEmpty(bad, "release closure is not tied to a reader over the cached value"))
		}
	}
	if f := c.mustFn(cp, "(*directoryCache).Add"); f != nil {
		for _, lit := range withAnon(f) {
			for _, a := range callsIn(lit, idIs("util/cacheutil.(*LRUCache).Add")) {
				if root := c.fnKey(enclosingRoot(lit)); root != cp+".(*directoryCache).Add" {
					continue
				}
				done := resultN(a, 1)
				cached := resultN(a, 0)
				if done == nil || cached == nil {
					continue
				}
				// done must be deferred (or called) only in a literal, and that literal's uses of `cached` precede
				// every release of done is a defer inside the very function that writes the cached buffer out
				// (a release in an enclosing function runs before an asynchronous commit has written anything)
				isDone := func(v ssa.Value) bool {
					if v == done {
						return true
					}
					if p, ok := loadOf(stripConv(v)); ok {
						if cr := cellRoot(p); cr != nil {
							for _, st := range storesToCell(enclosingRoot(lit), cr) {
								if stripConv(st.Val) == done {
									return true
								}
							}
						}
					}
					return false
				}
				writesCached := func(g *ssa.Function) bool {
					for _, wc := range callsIn(g, func(id string, ci ssa.CallInstruction) bool {
						o := calleeObj(ci)
						return o != nil && o.Name() == "Write" && ci.Common().IsInvoke()
					}) {
						if derivesFromValue(wc.Common().Args[0], cached, 0) || derivesViaCell(wc.Common().Args[0], cached) {
							return true
						}
					}
					return false
				}
				good, nRel := true, 0
				for _, g := range withAnon(lit) {
					eachInstr(g, func(i ssa.Instruction) {
						ci, ok := i.(ssa.CallInstruction)
						if !ok || !isDone(ci.Common().Value) {
							return
						}
						nRel++
						if _, isDefer := i.(*ssa.Defer); !isDefer || !writesCached(g) {
							good = false
						}
					})
				}
				good = good && nRel > 0
				c.verdict(c.fnKey(lit)+":done-of-LRU.Add", a.Pos(), good, "reference to the cached buffer released by defer after it was written to the file", "the cached buffer's reference is released before it has been written out (eviction can recycle it mid-write)")
				// the bytes persisted are those of the buffer the LRU returned (on a duplicate Add the writer's own buffer was just recycled)
				persistOK, nWr := true, 0
				for _, g := range withAnon(lit) {
					for _, wc := range callsIn(g, func(id string, ci ssa.CallInstruction) bool {
						o := calleeObj(ci)
						return o != nil && o.Name() == "Write" && ci.Common().IsInvoke()
					}) {
						nWr++
						if !derivesFromValue(wc.Common().Args[0], cached, 0) && !derivesViaCell(wc.Common().Args[0], cached) {
							persistOK = false
						}
					}
				}
				c.verdict(c.fnKey(lit)+":persist-cached-buffer", a.Pos(), persistOK && nWr > 0, "the file receives the bytes of the buffer owned by the LRU", "the file is written from the writer's own buffer instead of the buffer the LRU returned: after a duplicate Add the persisted value is empty/foreign")
			}
		}
	}

}

// clauseTTLOwnership: every TTL-cache reference taken in fs/layer is handed out or released (shared by C12 and C10).
func clauseTTLOwnership(c *Ctx, id string) {
	const lp = "fs/layer"
	res := c.pkgFuncs(lp)
	c.clause(id, "T2+T9", "every TTLCache.Get/Add in fs/layer: the release closure goes into a returned reference holding the value of the same cache call, or is called on every other path", 4)
	refTypes := map[string]bool{lp + ".layerRef": true, lp + ".blobRef": true}
	for _, f := range res {
		for _, g := range callsIn(f, idIs("util/cacheutil.(*TTLCache).Get", "util/cacheutil.(*TTLCache).Add")) {
			isGet := strings.HasSuffix(calleeID(g), ".Get")
			val, done, flag := resultN(g, 0), resultN(g, 1), resultN(g, 2)
			key := c.fnKey(f) + ":" + map[bool]string{true: "Get", false: "Add"}[isGet] + "-ownership"
			if done == nil || val == nil {
				c.bad(key, g.Pos(), "release closure or value discarded")
				continue
			}
			// returns that hand the pair out
			var handouts []ssa.Instruction
			pairOK := true
			for _, r := range realReturns(f) {
				for _, v := range retVals(r, 0) {
					al, ok := stripConv(v).(*ssa.Alloc)
					if !ok || !refTypes[typeQName(al.Type())] {
						continue
					}
					var dSt, vSt ssa.Value
					for _, ref := range *al.Referrers() {
						if fa, ok := ref.(*ssa.FieldAddr); ok {
							for _, rr := range *fa.Referrers() {
								if st, ok := rr.(*ssa.Store); ok {
									if fieldName(fa) == "done" {
										dSt = st.Val
									} else {
										vSt = st.Val
									}
								}
							}
						}
					}
					if dSt != nil && sameValue(dSt, done) {
						handouts = append(handouts, r)
						if vSt == nil || !derivesFromValue(vSt, val, 0) {
							pairOK = false
						}
					}
				}
			}
			callsOfDone := callsIn(f, func(id string, ci ssa.CallInstruction) bool { return sameValue(ci.Common().Value, done) })
			// from the edge where the entry exists (Get: ok true; Add: always), every return is a handout or passed a call of done
			var starts []ssa.Instruction
			if isGet && flag != nil {
				for _, e := range boolEdges(f, flag, true) {
					starts = append(starts, f.Blocks[e.from].Succs[e.succ].Instrs[0])
				}
			} else {
				// after the Add call
				starts = append(starts, g)
			}
			leak := false
			var lp2 []int
			for _, s := range starts {
				k := newCuts().addCalls(callsOfDone)
				if k.instrs[s] {
					continue
				}
				isLeakReturn := func(i ssa.Instruction) bool {
					if !isReturn(i) {
						return false
					}
					for _, h := range handouts {
						if h == i {
							return false
						}
					}
					return true
				}
				if got, path := reach(f, s, isLeakReturn, k); got != nil {
					leak = true
					lp2 = path
				}
			}
			c.verdict(key, g.Pos(), !leak && pairOK && len(handouts) > 0, "the reference is handed out together with the value of the same cache call, or released on every other path", firstNonEmpty(map[bool]string{true: "a path keeps the cache reference without handing it out or releasing it (the layer/blob can never be finalised): " + c.pathStr(f, lp2)}[leak], "the returned reference pairs the release closure with a value that is not the one returned by that cache call (the redundant, already closed object is handed out)"))
			if !isGet && flag != nil {
				// redundant object closed exactly on the !added edge
				ne := boolEdges(f, flag, false)
				arg := g.Common().Args[2]
				var closes []ssa.CallInstruction
				for _, ci := range callsIn(f, func(id string, ci ssa.CallInstruction) bool {
					o := calleeObj(ci)
					if o == nil || (o.Name() != "close" && o.Name() != "Close") {
						return false
					}
					var recv ssa.Value
					if ci.Common().IsInvoke() {
						recv = ci.Common().Value
					} else if len(ci.Common().Args) > 0 {
						recv = ci.Common().Args[0]
					}
					return recv != nil && (sameValue(recv, stripConv(arg)) || derivesFromValue(arg, recv, 0))
				}) {
					if _, isDefer := ci.(*ssa.Defer); !isDefer {
						closes = append(closes, ci)
					}
				}
				good := len(closes) == 1 && len(ne) > 0
				if good {
					okp, _ := mustPass(f, closes[0], newCuts().addEdges(ne))
					good = okp
					// and on the !added edge it is always closed
					for _, e := range ne {
						first := f.Blocks[e.from].Succs[e.succ].Instrs[0]
						if first != ssa.Instruction(closes[0]) {
							if got, _ := reach(f, first, isReturn, newCuts().addInstr(closes[0])); got != nil {
								good = false
							}
						}
					}
				}
				c.verdict(c.fnKey(f)+":redundant-closed", g.Pos(), good, "the redundant object is closed exactly on the !added edge", "the redundant object of a duplicate Add is not closed exactly on the !added edge (leak, or the cached object is closed)")
			}
		}
	}

}
