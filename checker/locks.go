package main

// T4: must-hold lockset dataflow and guarded-by checks.

import (
	"fmt"
	"go/token"
	"go/types"
	"strings"

	"golang.org/x/tools/go/ssa"
)

// addrKey gives a canonical access-path string for an address/value, or "".
func addrKey(v ssa.Value) string { return addrKeyD(v, 0) }

func addrKeyD(v ssa.Value, rec int) string {
	if rec > 8 {
		return ""
	}
	for depth := 0; depth < 12; depth++ {
		switch x := v.(type) {
		case *ssa.Parameter:
			return x.Name()
		case *ssa.FreeVar:
			return x.Name()
		case *ssa.Global:
			return x.Name()
		case *ssa.Alloc:
			if x.Comment != "" && x.Comment != "complit" && x.Comment != "new" && !strings.HasPrefix(x.Comment, "varargs") {
				return x.Comment
			}
			return "alloc@" + x.Name() + "/" + x.Parent().Name()
		case *ssa.FieldAddr:
			st := deref(x.X.Type()).Underlying().(*types.Struct)
			k := addrKeyD(x.X, rec+1)
			if k == "" {
				return ""
			}
			return k + "." + st.Field(x.Field).Name()
		case *ssa.Field:
			st := x.X.Type().Underlying().(*types.Struct)
			k := addrKeyD(x.X, rec+1)
			if k == "" {
				return ""
			}
			return k + "." + st.Field(x.Field).Name()
		case *ssa.UnOp:
			if x.Op == token.MUL {
				v = x.X
				continue
			}
			return ""
		case *ssa.MakeInterface:
			v = x.X
			continue
		case *ssa.ChangeType:
			v = x.X
			continue
		case *ssa.ChangeInterface:
			v = x.X
			continue
		case *ssa.TypeAssert:
			v = x.X
			continue
		case *ssa.Extract:
			k := addrKeyD(x.Tuple, rec+1)
			if k == "" {
				return ""
			}
			return fmt.Sprintf("%s#%d", k, x.Index)
		case *ssa.Lookup:
			k := addrKeyD(x.X, rec+1)
			if k == "" {
				return ""
			}
			return k + "[" + addrKeyD(x.Index, rec+1) + "]"
		case *ssa.Call:
			return "call@" + x.Name()
		case *ssa.Phi:
			// all edges must agree
			k := ""
			for i, e := range x.Edges {
				ek := addrKeyD(e, rec+1)
				if i == 0 {
					k = ek
				} else if ek != k {
					return ""
				}
			}
			return k
		default:
			return ""
		}
	}
	return ""
}

const (
	lockNone = 0
	lockR    = 1
	lockW    = 2
)

type lockset map[string]int

func (l lockset) clone() lockset {
	o := lockset{}
	for k, v := range l {
		o[k] = v
	}
	return o
}

func meet(a, b lockset) lockset {
	o := lockset{}
	for k, v := range a {
		if w, ok := b[k]; ok {
			if w < v {
				v = w
			}
			o[k] = v
		}
	}
	return o
}

func eqLock(a, b lockset) bool {
	if len(a) != len(b) {
		return false
	}
	for k, v := range a {
		if b[k] != v {
			return false
		}
	}
	return true
}

type lockInfo struct {
	at map[ssa.Instruction]lockset // lockset held just before the instruction
}

// lockOp classifies a call: +mode for acquire, -1 for release, with the lock key.
func lockOp(ci ssa.CallInstruction) (key string, acquire int, release bool) {
	if _, isDefer := ci.(*ssa.Defer); isDefer {
		return "", 0, false
	}
	if _, isGo := ci.(*ssa.Go); isGo {
		return "", 0, false
	}
	id := calleeID(ci)
	var recv ssa.Value
	cc := ci.Common()
	if cc.IsInvoke() {
		recv = cc.Value
	} else if len(cc.Args) > 0 {
		recv = cc.Args[0]
	}
	switch id {
	case "sync.(*Mutex).Lock", "sync.(*RWMutex).Lock", "sync.(Locker).Lock":
		return addrKey(recv), lockW, false
	case "sync.(*RWMutex).RLock":
		return addrKey(recv), lockR, false
	case "sync.(*Mutex).Unlock", "sync.(*RWMutex).Unlock", "sync.(Locker).Unlock", "sync.(*RWMutex).RUnlock":
		return addrKey(recv), 0, true
	}
	return "", 0, false
}

func (c *Ctx) locks(f *ssa.Function) *lockInfo {
	if li, ok := c.lockCache[f]; ok {
		return li
	}
	li := &lockInfo{at: map[ssa.Instruction]lockset{}}
	c.lockCache[f] = li
	if len(f.Blocks) == 0 {
		return li
	}
	in := map[int]lockset{}
	in[0] = c.entryLockset(f)
	work := []int{0}
	inWork := map[int]bool{0: true}
	transfer := func(b *ssa.BasicBlock, s lockset, record bool) lockset {
		cur := s.clone()
		for _, ins := range b.Instrs {
			if record {
				li.at[ins] = cur.clone()
			}
			if ci, ok := asCall(ins); ok {
				key, acq, rel := lockOp(ci)
				if key != "" {
					if acq != 0 {
						cur[key] = acq
					} else if rel {
						delete(cur, key)
					}
				}
			}
		}
		return cur
	}
	for len(work) > 0 {
		bi := work[0]
		work = work[1:]
		inWork[bi] = false
		b := f.Blocks[bi]
		out := transfer(b, in[bi], false)
		for _, s := range b.Succs {
			old, seen := in[s.Index]
			var nw lockset
			if !seen {
				nw = out.clone()
			} else {
				nw = meet(old, out)
			}
			if !seen || !eqLock(old, nw) {
				in[s.Index] = nw
				if !inWork[s.Index] {
					work = append(work, s.Index)
					inWork[s.Index] = true
				}
			}
		}
	}
	for _, b := range f.Blocks {
		if s, ok := in[b.Index]; ok {
			transfer(b, s, true)
		}
	}
	return li
}

func (c *Ctx) locksAt(i ssa.Instruction) lockset {
	li := c.locks(i.Parent())
	if s, ok := li.at[i]; ok {
		return s
	}
	return lockset{}
}

func (c *Ctx) buildCallers() {
	if c.callersOf != nil {
		return
	}
	c.callersOf = map[*ssa.Function][]callSite{}
	for _, f := range c.Funcs {
		if c.TestOnly[f] {
			continue
		}
		eachInstr(f, func(i ssa.Instruction) {
			if ci, ok := asCall(i); ok {
				if t := staticFn(ci); t != nil {
					c.callersOf[t] = append(c.callersOf[t], callSite{f, i})
				}
			}
		})
	}
}

// entryLockset: locks held on entry to f by all of its (static, first-party)
// callers; for function literals, by the site that runs them synchronously.
func (c *Ctx) entryLockset(f *ssa.Function) lockset {
	if s, ok := c.entryLocks[f]; ok {
		r := lockset{}
		for k := range s {
			r[k] = lockW
		}
		return r
	}
	if c.entryBusy[f] {
		return nil // optimistic on recursion: ignored by caller
	}
	c.entryBusy[f] = true
	defer func() { c.entryBusy[f] = false }()
	c.buildCallers()
	var result lockset
	have := false
	merge := func(s lockset) {
		if s == nil {
			return
		}
		if !have {
			result = s
			have = true
		} else {
			result = meet(result, s)
		}
	}
	rename := func(caller lockset, args []ssa.Value, params []string) lockset {
		out := lockset{}
		for k, m := range caller {
			for i, a := range args {
				if i >= len(params) {
					break
				}
				ak := addrKey(a)
				if ak == "" {
					continue
				}
				if k == ak {
					out[params[i]] = m
				} else if strings.HasPrefix(k, ak+".") {
					out[params[i]+k[len(ak):]] = m
				}
			}
		}
		return out
	}
	if par := f.Parent(); par != nil {
		// find MakeClosure and its synchronous use
		var mc *ssa.MakeClosure
		eachInstr(par, func(i ssa.Instruction) {
			if m, ok := i.(*ssa.MakeClosure); ok && m.Fn == f {
				mc = m
			}
		})
		var fvNames []string
		for _, fv := range f.FreeVars {
			fvNames = append(fvNames, fv.Name())
		}
		sync := false
		var user ssa.Value = nil
		if mc != nil {
			user = mc
		}
		if user != nil && user.Referrers() != nil {
			refs := *user.Referrers()
			if len(refs) == 1 {
				if ci, ok := refs[0].(*ssa.Call); ok {
					if ci.Call.Value == user || calleeID(ci) == "sync.(*Once).Do" {
						held := c.locksAt(ci)
						merge(rename(held, mc.Bindings, fvNames))
						sync = true
					}
				}
			}
		} else if mc == nil {
			// literal without free variables: used directly as *ssa.Function value
			for _, cs := range c.funcValueRefs(f, []*ssa.Function{par}) {
				if ci, ok := cs.instr.(*ssa.Call); ok && calleeID(ci) == "sync.(*Once).Do" {
					merge(lockset{})
					_ = ci
					sync = true
				}
			}
			for _, cs := range c.callersOf[f] {
				if ci, ok := cs.instr.(*ssa.Call); ok {
					merge(rename(c.locksAt(ci), nil, nil))
					sync = true
				}
			}
		}
		if !sync {
			result = lockset{}
		}
	} else {
		sites := c.callersOf[f]
		escaped := len(c.funcValueRefs(f, c.liveFuncs())) > 0
		if len(sites) == 0 || escaped || (f.Object() != nil && f.Object().Exported() && false) {
			result = lockset{}
		} else {
			var params []string
			for _, p := range f.Params {
				params = append(params, p.Name())
			}
			for _, cs := range sites {
				ci := cs.instr.(ssa.CallInstruction)
				if _, isCall := cs.instr.(*ssa.Call); !isCall {
					merge(lockset{}) // go/defer: nothing known
					continue
				}
				merge(rename(c.locksAt(cs.instr), ci.Common().Args, params))
			}
		}
	}
	if result == nil {
		result = lockset{}
	}
	m := map[string]bool{}
	for k := range result {
		m[k] = true
	}
	c.entryLocks[f] = m
	return result
}

// guardedBy checks that every access to field (struct q, name field) happens
// with mutex field `mu` of the same base held. Returns count.
// exemptFresh: accesses whose base is a freshly allocated object (constructor) are exempt.
func (c *Ctx) guardedBy(q, field, mu string, readsNeed bool) int {
	n := 0
	for _, a := range c.fieldAccesses(q, field, c.liveFuncs()) {
		baseKey := addrKey(a.base)
		key := c.fnKey(a.fn) + ":" + field
		if a.write {
			key += ":write"
		} else {
			key += ":read"
		}
		if isFresh(a.base) {
			c.okTrivial(key, a.instr.Pos(), "constructor: object not yet shared")
			n++
			continue
		}
		if !a.write && !readsNeed {
			continue
		}
		// For map/slice fields a read of the header followed by element ops:
		// element ops must be under the lock too.
		instrs := []ssa.Instruction{a.instr}
		if ld, ok := a.instr.(*ssa.UnOp); ok && ld.Referrers() != nil {
			switch ld.Type().Underlying().(type) {
			case *types.Map, *types.Slice:
				for _, r := range *ld.Referrers() {
					switch rr := r.(type) {
					case *ssa.Lookup, *ssa.MapUpdate, *ssa.Range, *ssa.IndexAddr:
						instrs = append(instrs, r)
					case *ssa.Call:
						if _, isB := rr.Call.Value.(*ssa.Builtin); isB {
							instrs = append(instrs, r)
						}
					}
				}
			}
		}
		need := baseKey + "." + mu
		okAll := baseKey != ""
		var where ssa.Instruction
		for _, ins := range instrs {
			held := c.locksAt(ins)
			m := held[need]
			if m == lockNone || (a.write && m < lockW) {
				okAll = false
				where = ins
				break
			}
			if _, isMU := ins.(*ssa.MapUpdate); isMU && m < lockW {
				okAll = false
				where = ins
				break
			}
		}
		n++
		if okAll {
			c.ok(key, a.instr.Pos(), "access under "+need)
		} else {
			p := a.instr.Pos()
			if where != nil && where.Pos().IsValid() {
				p = where.Pos()
			}
			c.bad(key, p, "field "+q+"."+field+" accessed without holding "+need+" (held: "+strings.Join(sortedKeys(c.locksAt(a.instr)), ",")+")")
		}
	}
	return n
}

func isFresh(v ssa.Value) bool {
	switch x := v.(type) {
	case *ssa.Alloc:
		return true
	case *ssa.UnOp:
		if x.Op == token.MUL {
			// load of a local cell holding a fresh allocation assigned once
			if a, ok := x.X.(*ssa.Alloc); ok {
				var vals []ssa.Value
				for _, r := range *a.Referrers() {
					if s, ok := r.(*ssa.Store); ok && s.Addr == a {
						vals = append(vals, s.Val)
					}
				}
				if len(vals) == 1 {
					return isFresh(vals[0])
				}
			}
		}
	}
	return false
}
