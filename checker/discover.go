package main

import (
	"fmt"
	"go/types"
	"sort"
	"strings"

	"golang.org/x/tools/go/ssa"
)

// discoverLocks prints, for every first-party struct that has a mutex field, how
// many accesses of each sibling field happen with each of the struct's mutexes
// held. It is a tool for finding candidates (Engler-style statistics); armed
// rules are frozen tables in the cNN.go files.
func (c *Ctx) discoverLocks() {
	isMu := func(t types.Type) bool {
		s := types.TypeString(deref(t), nil)
		return s == "sync.Mutex" || s == "sync.RWMutex"
	}
	var names []string
	structs := map[string]*types.Struct{}
	for _, p := range c.AllPkgs {
		sc := p.Types.Scope()
		for _, n := range sc.Names() {
			tn, ok := sc.Lookup(n).(*types.TypeName)
			if !ok {
				continue
			}
			st, ok := tn.Type().Underlying().(*types.Struct)
			if !ok {
				continue
			}
			has := false
			for i := 0; i < st.NumFields(); i++ {
				if isMu(st.Field(i).Type()) {
					has = true
				}
			}
			if has {
				q := typeQName(tn.Type())
				names = append(names, q)
				structs[q] = st
			}
		}
	}
	sort.Strings(names)
	live := c.liveFuncs()
	for _, q := range names {
		st := structs[q]
		var mus []string
		for i := 0; i < st.NumFields(); i++ {
			if isMu(st.Field(i).Type()) {
				mus = append(mus, st.Field(i).Name())
			}
		}
		fmt.Printf("== %s (mutexes: %s)\n", q, strings.Join(mus, ","))
		for i := 0; i < st.NumFields(); i++ {
			f := st.Field(i)
			if isMu(f.Type()) {
				continue
			}
			acc := c.fieldAccesses(q, f.Name(), live)
			if len(acc) == 0 {
				continue
			}
			total, fresh := 0, 0
			under := map[string]int{}
			var outside []string
			for _, a := range acc {
				if isFresh(a.base) {
					fresh++
					continue
				}
				total++
				bk := addrKey(a.base)
				held := c.locksAt(a.instr)
				any := false
				for _, m := range mus {
					if held[bk+"."+m] != lockNone {
						under[m]++
						any = true
					}
				}
				if !any {
					w := "r"
					if a.write {
						w = "W"
					}
					outside = append(outside, w+"@"+c.fnKey(a.fn))
				}
			}
			var us []string
			for _, m := range mus {
				if under[m] > 0 {
					us = append(us, fmt.Sprintf("%s=%d", m, under[m]))
				}
			}
			sort.Strings(outside)
			fmt.Printf("   %-28s total=%d fresh=%d under[%s] outside=%d %s\n", f.Name(), total, fresh, strings.Join(us, " "), len(outside), strings.Join(dedup(outside), " "))
		}
	}
}

func dedup(s []string) []string {
	var out []string
	for i, x := range s {
		if i == 0 || s[i-1] != x {
			out = append(out, x)
		}
	}
	return out
}

var _ ssa.Value
