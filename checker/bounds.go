package main

// T6: bounded use of untrusted slices (a) and integers (b).

import (
	"fmt"
	"go/constant"
	"go/token"
	"go/types"

	"golang.org/x/tools/go/ssa"
)

// lenFacts: edges that establish a lower bound on len(v) for SSA value v.
type lenFact struct {
	e  edge
	lb int64
}

func isLenOf(x ssa.Value, v ssa.Value) bool {
	x = stripConv(x)
	c, ok := x.(*ssa.Call)
	if !ok {
		return false
	}
	b, ok := c.Call.Value.(*ssa.Builtin)
	if !ok || b.Name() != "len" {
		return false
	}
	return sameSlice(c.Call.Args[0], v)
}

// sameSlice: identical SSA value (through conversions), or loads of the same
// field path with the same key (no store analysis: used only inside parsers that do not write).
func sameSlice(a, b ssa.Value) bool {
	a, b = stripConv(a), stripConv(b)
	if a == b {
		return true
	}
	ka, kb := addrKey(a), addrKey(b)
	_, la := loadOf(a)
	_, lb := loadOf(b)
	return la && lb && ka != "" && ka == kb
}

func lenFacts(f *ssa.Function, v ssa.Value) []lenFact {
	var out []lenFact
	for _, b := range f.Blocks {
		if len(b.Instrs) == 0 {
			continue
		}
		iff, ok := b.Instrs[len(b.Instrs)-1].(*ssa.If)
		if !ok {
			continue
		}
		cond := iff.Cond
		neg := false
		for {
			if u, ok := cond.(*ssa.UnOp); ok && u.Op == token.NOT {
				cond = u.X
				neg = !neg
				continue
			}
			break
		}
		bo, ok := cond.(*ssa.BinOp)
		if !ok {
			continue
		}
		op := bo.Op
		var k int64
		if isLenOf(bo.X, v) {
			n, ok := constInt(bo.Y)
			if !ok {
				continue
			}
			k = n
		} else if isLenOf(bo.Y, v) {
			n, ok := constInt(bo.X)
			if !ok {
				continue
			}
			k = n
			// flip: K op len  ==> len op' K
			switch op {
			case token.LSS:
				op = token.GTR
			case token.GTR:
				op = token.LSS
			case token.LEQ:
				op = token.GEQ
			case token.GEQ:
				op = token.LEQ
			}
		} else {
			continue
		}
		t, fl := 0, 1 // successor indices
		if neg {
			t, fl = 1, 0
		}
		switch op {
		case token.EQL:
			out = append(out, lenFact{edge{b.Index, t}, k})
		case token.NEQ:
			out = append(out, lenFact{edge{b.Index, fl}, k})
		case token.LSS: // len < k false ⇒ len >= k
			out = append(out, lenFact{edge{b.Index, fl}, k})
		case token.LEQ: // len <= k false ⇒ len >= k+1
			out = append(out, lenFact{edge{b.Index, fl}, k + 1})
		case token.GEQ:
			out = append(out, lenFact{edge{b.Index, t}, k})
		case token.GTR:
			out = append(out, lenFact{edge{b.Index, t}, k + 1})
		}
	}
	return out
}

// lenLB: proven lower bound of len(v) at instruction `at`. paramLB supplies bounds for parameters (interprocedural).
func lenLB(v ssa.Value, at ssa.Instruction, paramLB map[*ssa.Parameter]int64, depth int) int64 {
	v = stripConv(v)
	if depth > 8 {
		return 0
	}
	best := int64(0)
	f := at.Parent()
	for _, lf := range lenFacts(f, v) {
		if lf.lb > best {
			if okp, _ := mustPass(f, at, newCuts().addEdges([]edge{lf.e})); okp {
				best = lf.lb
			}
		}
	}
	switch x := v.(type) {
	case *ssa.Slice:
		lo := int64(0)
		if x.Low != nil {
			n, ok := constInt(x.Low)
			if !ok {
				return best
			}
			lo = n
		}
		if x.High != nil {
			if n, ok := constInt(x.High); ok {
				if n-lo > best {
					best = n - lo
				}
			}
			return best
		}
		if b := lenLB(x.X, x, paramLB, depth+1) - lo; b > best {
			best = b
		}
	case *ssa.Const:
		if x.Value != nil && x.Value.Kind() == constant.String {
			if n := int64(len(constant.StringVal(x.Value))); n > best {
				best = n
			}
		}
	case *ssa.MakeSlice:
		if n, ok := constInt(x.Len); ok && n > best {
			best = n
		}
	case *ssa.Parameter:
		if n, ok := paramLB[x]; ok && n > best {
			best = n
		}
	case *ssa.UnOp:
		if x.Op == token.MUL {
			// load of array pointer: fixed length
			if a, ok := deref(x.X.Type()).Underlying().(*types.Array); ok && a.Len() > best {
				best = a.Len()
			}
		}
	case *ssa.Alloc:
		if a, ok := deref(x.Type()).Underlying().(*types.Array); ok && a.Len() > best {
			best = a.Len()
		}
	}
	if a, ok := deref(v.Type()).Underlying().(*types.Array); ok && a.Len() > best {
		best = a.Len()
	}
	return best
}

// idxGuarded: non-constant index i used on x at `at` is dominated by i < len(x).
func idxGuarded(f *ssa.Function, idx, x ssa.Value, at ssa.Instruction) bool {
	es := condEdges(f, func(cond ssa.Value) int {
		b, ok := cond.(*ssa.BinOp)
		if !ok {
			return 0
		}
		if b.Op == token.LSS && stripConv(b.X) == stripConv(idx) && isLenOf(b.Y, x) {
			return 1
		}
		if b.Op == token.GEQ && stripConv(b.X) == stripConv(idx) && isLenOf(b.Y, x) {
			return -1
		}
		if b.Op == token.GTR && stripConv(b.Y) == stripConv(idx) && isLenOf(b.X, x) {
			return 1
		}
		return 0
	})
	if len(es) == 0 {
		return false
	}
	okp, _ := mustPass(f, at, newCuts().addEdges(es))
	return okp
}

// checkConstIndexing verifies every index/slice operation on []T/string values
// in f (and, through calls passing slices, first-party callees up to depth 3).
func (c *Ctx) checkConstIndexing(f *ssa.Function, paramLB map[*ssa.Parameter]int64, depth int, seen map[*ssa.Function]bool) {
	if seen[f] || depth > 3 {
		return
	}
	seen[f] = true
	sliceLike := func(t types.Type) bool {
		switch u := t.Underlying().(type) {
		case *types.Slice:
			return true
		case *types.Basic:
			return u.Info()&types.IsString != 0
		}
		return false
	}
	eachInstr(f, func(i ssa.Instruction) {
		switch x := i.(type) {
		case *ssa.IndexAddr:
			if !sliceLike(x.X.Type()) {
				return
			}
			key := fmt.Sprintf("%s:index %s[%s]", c.fnKey(f), valName(x.X), valName(x.Index))
			if n, ok := constInt(x.Index); ok {
				lb := lenLB(x.X, x, paramLB, 0)
				c.verdict(key, x.Pos(), lb > n, fmt.Sprintf("len >= %d proven", lb), fmt.Sprintf("constant index %d but only len >= %d is established on all paths: out-of-range panic on short untrusted input", n, lb))
			} else if idxGuarded(f, x.Index, x.X, x) || isRangeIndex(x.Index) {
				c.ok(key, x.Pos(), "index bounded by len test / range loop")
			} else {
				c.unk(key, x.Pos(), "non-constant index on untrusted bytes without a dominating i < len test")
			}
		case *ssa.Index:
			if !sliceLike(x.X.Type()) {
				return
			}
			key := fmt.Sprintf("%s:index %s[%s]", c.fnKey(f), valName(x.X), valName(x.Index))
			if n, ok := constInt(x.Index); ok {
				lb := lenLB(x.X, x, paramLB, 0)
				c.verdict(key, x.Pos(), lb > n, fmt.Sprintf("len >= %d proven", lb), fmt.Sprintf("constant index %d but only len >= %d is established", n, lb))
			} else if idxGuarded(f, x.Index, x.X, x) || isRangeIndex(x.Index) {
				c.ok(key, x.Pos(), "index bounded")
			} else {
				c.unk(key, x.Pos(), "non-constant index without bound")
			}
		case *ssa.Slice:
			if !sliceLike(x.X.Type()) {
				return
			}
			need := int64(-1)
			nonconst := false
			for _, b := range []ssa.Value{x.Low, x.High} {
				if b == nil {
					continue
				}
				if n, ok := constInt(b); ok {
					if n > need {
						need = n
					}
				} else {
					nonconst = true
				}
			}
			if need < 0 && !nonconst {
				return // x[:] never panics
			}
			key := fmt.Sprintf("%s:slice %s[%s:%s]", c.fnKey(f), valName(x.X), valName(x.Low), valName(x.High))
			if nonconst {
				c.unk(key, x.Pos(), "non-constant slice bound on untrusted bytes")
				return
			}
			lb := lenLB(x.X, x, paramLB, 0)
			c.verdict(key, x.Pos(), lb >= need, fmt.Sprintf("len >= %d proven, need %d", lb, need), fmt.Sprintf("slice bound %d but only len >= %d is established on all paths: slice-bounds panic on short untrusted input", need, lb))
		case ssa.CallInstruction:
			t := staticFn(x)
			if t == nil || t.Blocks == nil || t.Pkg == nil || !isFirstParty(t.Pkg.Pkg.Path()) {
				return
			}
			sub := map[*ssa.Parameter]int64{}
			has := false
			for ai, a := range x.Common().Args {
				if ai < len(t.Params) && sliceLike(a.Type()) {
					sub[t.Params[ai]] = lenLB(a, i, paramLB, 0)
					has = true
				}
			}
			if has {
				c.checkConstIndexing(t, sub, depth+1, seen)
			}
		}
	})
}

func isRangeIndex(v ssa.Value) bool {
	// index produced by a range-over-slice loop: phi of (-1|0, i+1) compared with len — accepted via idxGuarded normally
	return false
}

func valName(v ssa.Value) string {
	if v == nil {
		return ""
	}
	if c, ok := v.(*ssa.Const); ok {
		if c.Value != nil {
			return c.Value.String()
		}
		return "nil"
	}
	if k := addrKey(v); k != "" && len(k) < 40 && k[0] != 'c' {
		return k
	}
	if k := addrKey(v); k != "" && len(k) < 40 {
		return k
	}
	switch x := v.(type) {
	case *ssa.Slice:
		return valName(x.X) + "[" + valName(x.Low) + ":" + valName(x.High) + "]"
	}
	return v.Name()
}

// ---------------- T6b: tainted integers ----------------

type taint struct {
	c      *Ctx
	srcOK  func(v ssa.Value) bool // is v a taint source
	memo   map[ssa.Value]int      // 0 unknown,1 tainted,2 clean
	params map[*ssa.Parameter]bool
}

func (t *taint) tainted(v ssa.Value, depth int) bool {
	if v == nil || depth > 10 {
		return false
	}
	if m := t.memo[v]; m != 0 {
		return m == 1
	}
	t.memo[v] = 2 // cycle breaker
	r := false
	switch x := v.(type) {
	case *ssa.Parameter:
		r = t.params[x]
	case *ssa.BinOp:
		switch x.Op {
		case token.ADD, token.SUB, token.MUL, token.QUO, token.SHL, token.SHR, token.REM:
			r = t.tainted(x.X, depth+1) || t.tainted(x.Y, depth+1)
		}
	case *ssa.Convert:
		r = t.tainted(x.X, depth+1)
	case *ssa.ChangeType:
		r = t.tainted(x.X, depth+1)
	case *ssa.Phi:
		for _, e := range x.Edges {
			if t.tainted(e, depth+1) {
				r = true
			}
		}
	case *ssa.UnOp:
		if x.Op == token.SUB {
			r = t.tainted(x.X, depth+1)
		} else if x.Op == token.MUL {
			// load of a local cell: tainted if any store is
			if a, ok := x.X.(*ssa.Alloc); ok {
				for _, ref := range *a.Referrers() {
					if s, ok := ref.(*ssa.Store); ok && s.Addr == a && t.tainted(s.Val, depth+1) {
						r = true
					}
				}
			}
		}
	}
	if !r && t.srcOK(v) {
		r = true
	}
	if r {
		t.memo[v] = 1
	} else {
		t.memo[v] = 2
	}
	return r
}

// boundEdges returns edges establishing a lower (v >= 0-ish) or upper bound on v.
func boundEdges(f *ssa.Function, v ssa.Value) (lower, upper []edge) {
	v = stripConv(v)
	for _, b := range f.Blocks {
		if len(b.Instrs) == 0 {
			continue
		}
		iff, ok := b.Instrs[len(b.Instrs)-1].(*ssa.If)
		if !ok {
			continue
		}
		cond := iff.Cond
		t, fl := 0, 1
		for {
			if u, ok := cond.(*ssa.UnOp); ok && u.Op == token.NOT {
				cond = u.X
				t, fl = fl, t
				continue
			}
			break
		}
		bo, ok := cond.(*ssa.BinOp)
		if !ok {
			continue
		}
		op := bo.Op
		var other ssa.Value
		if stripConv(bo.X) == v {
			other = bo.Y
		} else if stripConv(bo.Y) == v {
			other = bo.X
			switch op {
			case token.LSS:
				op = token.GTR
			case token.GTR:
				op = token.LSS
			case token.LEQ:
				op = token.GEQ
			case token.GEQ:
				op = token.LEQ
			}
		} else {
			continue
		}
		n, isC := constInt(other)
		switch op {
		case token.LSS: // v < other: true ⇒ upper; false ⇒ v >= other (lower if other const >= 0)
			upper = append(upper, edge{b.Index, t})
			if isC && n >= 0 {
				lower = append(lower, edge{b.Index, fl})
			}
		case token.LEQ:
			upper = append(upper, edge{b.Index, t})
			if isC && n >= -1 {
				lower = append(lower, edge{b.Index, fl})
			}
		case token.GTR: // v > other: true ⇒ lower if const >= -1; false ⇒ v <= other upper
			upper = append(upper, edge{b.Index, fl})
			if isC && n >= -1 {
				lower = append(lower, edge{b.Index, t})
			}
		case token.GEQ:
			upper = append(upper, edge{b.Index, fl})
			if isC && n >= 0 {
				lower = append(lower, edge{b.Index, t})
			}
		case token.EQL:
			if isC && n >= 0 {
				lower = append(lower, edge{b.Index, t})
			}
			upper = append(upper, edge{b.Index, t})
		}
	}
	return
}

// boundedAt: is tainted value v range-checked (both sides) before instruction at?
// Follows parameters to all first-party call sites (depth-limited).
func (c *Ctx) boundedAt(v ssa.Value, at ssa.Instruction, depth int) (lowOK, upOK bool) {
	f := at.Parent()
	v = stripConv(v)
	lo, up := boundEdges(f, v)
	if len(lo) > 0 {
		lowOK, _ = mustPass(f, at, newCuts().addEdges(lo))
	}
	if len(up) > 0 {
		upOK, _ = mustPass(f, at, newCuts().addEdges(up))
	}
	if lowOK && upOK {
		return
	}
	// a min(...) builtin with a non-tainted operand bounds from above
	if call, ok := v.(*ssa.Call); ok {
		if b, ok := call.Call.Value.(*ssa.Builtin); ok && b.Name() == "min" {
			upOK = true
		}
	}
	if p, ok := v.(*ssa.Parameter); ok && depth < 3 {
		c.buildCallers()
		sites := c.callersOf[f]
		if len(sites) > 0 {
			idx := -1
			for i, q := range f.Params {
				if q == p {
					idx = i
				}
			}
			allLo, allUp := true, true
			for _, s := range sites {
				ci := s.instr.(ssa.CallInstruction)
				if idx < 0 || idx >= len(ci.Common().Args) {
					allLo, allUp = false, false
					break
				}
				l, u := c.boundedAt(ci.Common().Args[idx], s.instr, depth+1)
				allLo = allLo && l
				allUp = allUp && u
			}
			lowOK = lowOK || allLo
			upOK = upOK || allUp
		}
	}
	// phi: every incoming value bounded at the phi
	if ph, ok := v.(*ssa.Phi); ok && depth < 3 {
		allLo, allUp := true, true
		for i, e := range ph.Edges {
			pred := ph.Block().Preds[i]
			last := pred.Instrs[len(pred.Instrs)-1]
			if _, isC := constInt(e); isC {
				continue
			}
			l, u := c.boundedAt(e, last, depth+1)
			allLo = allLo && l
			allUp = allUp && u
		}
		lowOK = lowOK || allLo
		upOK = upOK || allUp
	}
	return
}
