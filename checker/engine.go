package main

// Engine: loading of /repo, obligation bookkeeping, evidence, known findings.

import (
	"encoding/json"
	"fmt"
	"go/ast"
	"go/token"
	"go/types"
	"os"
	"path/filepath"
	"sort"
	"strings"
	"time"

	"golang.org/x/tools/go/packages"
	"golang.org/x/tools/go/ssa"
)

const modRoot = "github.com/containerd/stargz-snapshotter"

// minFirstParty is the number of first-party packages confirmed on the pinned tree.
const minFirstParty = 59

type Status int

const (
	Discharged Status = iota
	Violated
	Undecided
)

func (s Status) String() string {
	switch s {
	case Discharged:
		return "discharged"
	case Violated:
		return "violated"
	}
	return "undecided"
}

// Ob is one obligation: (clause, construct key) with a verdict.
type Ob struct {
	Prop       string `json:"property"`
	Clause     string `json:"clause"`
	Rule       string `json:"rule"`
	Key        string `json:"key"`
	Pos        string `json:"pos,omitempty"`
	Status     string `json:"status"`
	Detail     string `json:"detail,omitempty"`
	Nontrivial bool   `json:"nontrivial"`
	st         Status
}

type clauseInfo struct {
	Clause string `json:"clause"`
	Rule   string `json:"rule"`
	Desc   string `json:"desc"`
	Min    int    `json:"min_instances"`
	Found  int    `json:"instances"`
}

type Ctx struct {
	RepoDir  string
	Tier     string
	Prop     string
	Fset     *token.FileSet
	Pkgs     map[string]*packages.Package // by path relative to modRoot ("" = root pkg)
	AllPkgs  []*packages.Package
	Prog     *ssa.Program
	SSA      map[string]*ssa.Package
	Funcs    []*ssa.Function // all first-party functions incl. anonymous
	testFile map[string]bool // files that are shipped test support
	TestOnly map[*ssa.Function]bool

	obs      []*Ob
	clauses  map[string]*clauseInfo
	clauseOrder []string
	curClause *clauseInfo
	assumptions []string
	notes    []string

	lockCache map[*ssa.Function]*lockInfo
	entryLocks map[*ssa.Function]map[string]bool
	entryBusy map[*ssa.Function]bool
	callersOf map[*ssa.Function][]callSite
	fnByObj  map[*types.Func]*ssa.Function
}

type callSite struct {
	caller *ssa.Function
	instr  ssa.Instruction
}

func rel(pkgPath string) string {
	if pkgPath == modRoot {
		return ""
	}
	return strings.TrimPrefix(pkgPath, modRoot+"/")
}

func isFirstParty(pkgPath string) bool {
	return pkgPath == modRoot || strings.HasPrefix(pkgPath, modRoot+"/")
}

type overlayFlag map[string][]byte

func load(repo string, whole bool, overlay map[string][]byte, goarch string) (*Ctx, error) {
	mode := packages.LoadSyntax
	if whole {
		mode = packages.LoadAllSyntax
	}
	env := []string{}
	for _, e := range os.Environ() {
		if strings.HasPrefix(e, "PATH=") {
			e = "PATH=/opt/veriftools/go1.26.8/bin:" + e[5:]
		}
		if strings.HasPrefix(e, "GOWORK=") || strings.HasPrefix(e, "GOFLAGS=") {
			continue
		}
		env = append(env, e)
	}
	env = append(env, "GOWORK=off", "GOFLAGS=-mod=mod", "GOPROXY=off", "GOSUMDB=off", "GOTOOLCHAIN=local")
	if goarch != "" {
		env = append(env, "GOARCH="+goarch)
	}
	fset := token.NewFileSet()
	cfg := &packages.Config{
		Mode:    mode,
		Dir:     filepath.Join(repo, "cmd"),
		Fset:    fset,
		Env:     env,
		Overlay: overlay,
	}
	pkgs, err := packages.Load(cfg, "./...", modRoot+"/...", modRoot+"/estargz/...", modRoot+"/ipfs/...")
	if err != nil {
		return nil, fmt.Errorf("load: %w", err)
	}
	c := &Ctx{RepoDir: repo, Fset: fset, Pkgs: map[string]*packages.Package{}, SSA: map[string]*ssa.Package{},
		clauses: map[string]*clauseInfo{}, testFile: map[string]bool{}, TestOnly: map[*ssa.Function]bool{},
		lockCache: map[*ssa.Function]*lockInfo{}, entryLocks: map[*ssa.Function]map[string]bool{}, entryBusy: map[*ssa.Function]bool{},
		fnByObj: map[*types.Func]*ssa.Function{}}
	nerr := 0
	packages.Visit(pkgs, nil, func(p *packages.Package) {
		if isFirstParty(p.PkgPath) || whole {
			for _, e := range p.Errors {
				if isFirstParty(p.PkgPath) {
					fmt.Fprintf(os.Stderr, "load error: %s: %v\n", p.PkgPath, e)
					nerr++
				}
			}
		}
	})
	if nerr > 0 {
		return nil, fmt.Errorf("%d load/type errors in first-party packages", nerr)
	}
	for _, p := range pkgs {
		if isFirstParty(p.PkgPath) {
			c.Pkgs[rel(p.PkgPath)] = p
			c.AllPkgs = append(c.AllPkgs, p)
		}
	}
	if len(c.Pkgs) < minFirstParty {
		return nil, fmt.Errorf("only %d first-party packages loaded (need >= %d)", len(c.Pkgs), minFirstParty)
	}
	sort.Slice(c.AllPkgs, func(i, j int) bool { return c.AllPkgs[i].PkgPath < c.AllPkgs[j].PkgPath })
	prog := ssa.NewProgram(fset, ssa.InstantiateGenerics)
	packages.Visit(pkgs, nil, func(p *packages.Package) {
		if p.Types != nil && !p.IllTyped {
			var files []*ast.File
			var info *types.Info
			if p.TypesInfo != nil && len(p.Syntax) > 0 && (whole || isFirstParty(p.PkgPath)) {
				files, info = p.Syntax, p.TypesInfo
			}
			prog.CreatePackage(p.Types, files, info, true)
		}
	})
	c.Prog = prog
	if whole {
		prog.Build()
	} else {
		for _, p := range c.AllPkgs {
			if sp := prog.Package(p.Types); sp != nil {
				sp.Build()
			}
		}
	}
	for _, p := range c.AllPkgs {
		sp := prog.Package(p.Types)
		if sp == nil {
			return nil, fmt.Errorf("no SSA package for %s", p.PkgPath)
		}
		c.SSA[rel(p.PkgPath)] = sp
	}
	c.collectFuncs()
	c.markTestOnly()
	return c, nil
}

func (c *Ctx) collectFuncs() {
	seen := map[*ssa.Function]bool{}
	var add func(f *ssa.Function)
	add = func(f *ssa.Function) {
		if f == nil || seen[f] {
			return
		}
		seen[f] = true
		if f.Blocks == nil && len(f.AnonFuncs) == 0 {
			return
		}
		c.Funcs = append(c.Funcs, f)
		if o, ok := f.Object().(*types.Func); ok && o != nil {
			c.fnByObj[o] = f
		}
		for _, a := range f.AnonFuncs {
			add(a)
		}
	}
	for _, p := range c.AllPkgs {
		sp := c.Prog.Package(p.Types)
		var names []string
		for n := range sp.Members {
			names = append(names, n)
		}
		sort.Strings(names)
		for _, n := range names {
			switch m := sp.Members[n].(type) {
			case *ssa.Function:
				add(m)
			case *ssa.Type:
				for _, t := range []types.Type{m.Type(), types.NewPointer(m.Type())} {
					ms := c.Prog.MethodSets.MethodSet(t)
					for i := 0; i < ms.Len(); i++ {
						f := c.Prog.MethodValue(ms.At(i))
						if f != nil && f.Synthetic == "" {
							add(f)
						}
					}
				}
			}
		}
	}
	sort.SliceStable(c.Funcs, func(i, j int) bool { return c.fnKey(c.Funcs[i]) < c.fnKey(c.Funcs[j]) })
}

// isTestingType reports whether t is *testing.T/B, testing.TB, or a named
// interface with Fatalf and Errorf methods (the repo's TestingT shims).
func isTestingType(t types.Type) bool {
	if p, ok := t.(*types.Pointer); ok {
		t = p.Elem()
	}
	n, ok := t.(*types.Named)
	if !ok {
		return false
	}
	if n.Obj().Pkg() != nil && n.Obj().Pkg().Path() == "testing" {
		return true
	}
	if it, ok := n.Underlying().(*types.Interface); ok {
		has := map[string]bool{}
		for i := 0; i < it.NumMethods(); i++ {
			has[it.Method(i).Name()] = true
		}
		return has["Fatalf"] && has["Errorf"]
	}
	if st, ok := n.Underlying().(*types.Struct); ok {
		for i := 0; i < st.NumFields(); i++ {
			if st.Field(i).Embedded() && isTestingType(st.Field(i).Type()) {
				return true
			}
		}
	}
	return false
}

func sigHasTesting(sig *types.Signature) bool {
	if sig == nil {
		return false
	}
	if r := sig.Recv(); r != nil && isTestingType(r.Type()) {
		return true
	}
	var walk func(t types.Type, depth int) bool
	walk = func(t types.Type, depth int) bool {
		if isTestingType(t) {
			return true
		}
		if depth > 2 {
			return false
		}
		switch u := t.(type) {
		case *types.Signature:
			for i := 0; i < u.Params().Len(); i++ {
				if walk(u.Params().At(i).Type(), depth+1) {
					return true
				}
			}
		case *types.Slice:
			return walk(u.Elem(), depth+1)
		case *types.Named:
			if s, ok := u.Underlying().(*types.Signature); ok {
				return walk(s, depth+1)
			}
		}
		return false
	}
	for i := 0; i < sig.Params().Len(); i++ {
		if walk(sig.Params().At(i).Type(), 0) {
			return true
		}
	}
	for i := 0; i < sig.Results().Len(); i++ {
		if walk(sig.Results().At(i).Type(), 0) {
			return true
		}
	}
	return false
}

// markTestOnly marks shipped test-support code structurally: a source file is
// test support if it declares a function whose signature mentions a testing
// type (see isTestingType); every function declared in such a file, and every
// function of a package consisting only of such files, is test-only.
func (c *Ctx) markTestOnly() {
	for _, p := range c.AllPkgs {
		for _, f := range p.Syntax {
			fname := c.Fset.Position(f.Pos()).Filename
			for _, d := range f.Decls {
				fd, ok := d.(*ast.FuncDecl)
				if !ok {
					continue
				}
				obj, _ := p.TypesInfo.Defs[fd.Name].(*types.Func)
				if obj == nil {
					continue
				}
				if sigHasTesting(obj.Type().(*types.Signature)) {
					c.testFile[fname] = true
				}
			}
		}
	}
	for _, f := range c.Funcs {
		pos := f.Pos()
		root := f
		for root.Parent() != nil {
			root = root.Parent()
		}
		if !pos.IsValid() {
			pos = root.Pos()
		}
		if pos.IsValid() && c.testFile[c.Fset.Position(pos).Filename] {
			c.TestOnly[f] = true
		}
	}
}

func (c *Ctx) testFiles() []string {
	var out []string
	for f := range c.testFile {
		r, _ := filepath.Rel(c.RepoDir, f)
		out = append(out, r)
	}
	sort.Strings(out)
	return out
}

// fnKey: stable, line-free name of a function: "<relpkg>.<name>" where
// anonymous functions are "<parent>$<n>".
func (c *Ctx) fnKey(f *ssa.Function) string {
	if f == nil {
		return "<nil>"
	}
	if f.Parent() != nil {
		p := f.Parent()
		for i, a := range p.AnonFuncs {
			if a == f {
				return fmt.Sprintf("%s$%d", c.fnKey(p), i+1)
			}
		}
		return c.fnKey(p) + "$?"
	}
	pkg := ""
	if f.Pkg != nil {
		pkg = rel(f.Pkg.Pkg.Path())
	} else if o := f.Object(); o != nil && o.Pkg() != nil {
		pkg = rel(o.Pkg().Path())
	}
	name := f.Name()
	if recv := f.Signature.Recv(); recv != nil {
		name = "(" + recvName(recv.Type()) + ")." + f.Name()
	}
	return pkg + "." + name
}

func recvName(t types.Type) string {
	star := ""
	if p, ok := t.(*types.Pointer); ok {
		t = p.Elem()
		star = "*"
	}
	if n, ok := t.(*types.Named); ok {
		return star + n.Obj().Name()
	}
	return star + t.String()
}

func (c *Ctx) pos(p token.Pos) string {
	if !p.IsValid() {
		return ""
	}
	pp := c.Fset.Position(p)
	r, err := filepath.Rel(c.RepoDir, pp.Filename)
	if err != nil {
		r = pp.Filename
	}
	return fmt.Sprintf("%s:%d", r, pp.Line)
}

// ---- obligations ----

func (c *Ctx) clause(id, rule, desc string, min int) {
	ci := &clauseInfo{Clause: id, Rule: rule, Desc: desc, Min: min}
	c.clauses[id] = ci
	c.clauseOrder = append(c.clauseOrder, id)
	c.curClause = ci
}

func (c *Ctx) add(key string, p token.Pos, st Status, nontrivial bool, detail string) *Ob {
	ci := c.curClause
	// ordinal among equal keys
	n := 0
	for _, o := range c.obs {
		if o.Clause == ci.Clause && (o.Key == key || strings.HasPrefix(o.Key, key+"#")) {
			n++
		}
	}
	if n > 0 {
		key = fmt.Sprintf("%s#%d", key, n+1)
	}
	o := &Ob{Prop: c.Prop, Clause: ci.Clause, Rule: ci.Rule, Key: key, Pos: c.pos(p), Status: st.String(), st: st, Detail: detail, Nontrivial: nontrivial}
	c.obs = append(c.obs, o)
	ci.Found++
	return o
}

func (c *Ctx) ok(key string, p token.Pos, detail string) { c.add(key, p, Discharged, true, detail) }
func (c *Ctx) okTrivial(key string, p token.Pos, detail string) {
	c.add(key, p, Discharged, false, detail)
}
func (c *Ctx) bad(key string, p token.Pos, detail string)  { c.add(key, p, Violated, true, detail) }
func (c *Ctx) unk(key string, p token.Pos, detail string)  { c.add(key, p, Undecided, true, detail) }
func (c *Ctx) verdict(key string, p token.Pos, good bool, okDetail, badDetail string) {
	if good {
		c.ok(key, p, okDetail)
	} else {
		c.bad(key, p, badDetail)
	}
}

func (c *Ctx) assume(s string) { c.assumptions = append(c.assumptions, s) }
func (c *Ctx) note(s string)   { c.notes = append(c.notes, s) }

// ---- known findings ----

type knownFinding struct {
	Kind     string `json:"kind"` // "known" or "fixed"
	Property string `json:"property"`
	Clause   string `json:"clause"`
	Key      string `json:"key"`
	What     string `json:"what"`
	Commit   string `json:"commit,omitempty"`
}

func loadKnown(path string) ([]knownFinding, error) {
	b, err := os.ReadFile(path)
	if err != nil {
		if os.IsNotExist(err) {
			return nil, nil
		}
		return nil, err
	}
	var out []knownFinding
	for _, ln := range strings.Split(string(b), "\n") {
		ln = strings.TrimSpace(ln)
		if ln == "" || strings.HasPrefix(ln, "#") {
			continue
		}
		var k knownFinding
		if err := json.Unmarshal([]byte(ln), &k); err != nil {
			return nil, fmt.Errorf("known-findings: %v in %q", err, ln)
		}
		out = append(out, k)
	}
	return out, nil
}

// ---- evidence / report ----

type evidence struct {
	PropertyID  string         `json:"property_id"`
	Tier        string         `json:"tier"`
	Seed        int            `json:"seed"`
	Level       string         `json:"level"`
	Coverage    map[string]any `json:"coverage"`
	Assumptions []string       `json:"assumptions"`
	WallS       float64        `json:"wall_s"`
	Violations  int            `json:"violations"`
}

func (c *Ctx) finish(verifDir string, start time.Time, explanation string, seed int, extra map[string]any) int {
	known, err := loadKnown(filepath.Join(verifDir, "known-findings.jsonl"))
	if err != nil {
		fmt.Fprintln(os.Stderr, err)
		return 2
	}
	// instance minima
	for _, id := range c.clauseOrder {
		ci := c.clauses[id]
		if ci.Found < ci.Min {
			c.curClause = ci
			c.add("instances", token.NoPos, Undecided, true,
				fmt.Sprintf("rule %s matched %d instances, fewer than the %d confirmed on the pinned tree: an anchor no longer resolves or the mechanism was removed", ci.Rule, ci.Found, ci.Min))
			ci.Found-- // do not count the synthetic obligation
		}
	}
	var viol, knownHit []*Ob
	discharged, undec, nontriv := 0, 0, 0
	distinct := map[string]bool{}
	for _, o := range c.obs {
		if o.Nontrivial && !distinct[o.Clause+"|"+o.Key] {
			distinct[o.Clause+"|"+o.Key] = true
			nontriv++
		}
		switch o.st {
		case Discharged:
			discharged++
			continue
		case Undecided:
			undec++
		}
		matched := false
		for _, k := range known {
			if k.Kind == "known" && k.Property == o.Prop && k.Clause == o.Clause && k.Key == o.Key {
				matched = true
				fmt.Printf("KNOWN-FINDING: property=%s %s [%s %s at %s]\n", o.Prop, k.What, o.Clause, o.Key, o.Pos)
			}
		}
		if matched {
			knownHit = append(knownHit, o)
		} else {
			viol = append(viol, o)
		}
	}
	var samples []any
	for i, o := range c.obs {
		if o.Nontrivial && len(samples) < 12 && (i%maxInt(1, len(c.obs)/12) == 0 || o.st != Discharged) {
			samples = append(samples, o)
		}
	}
	if len(samples) == 0 && len(c.obs) > 0 {
		samples = append(samples, c.obs[0])
	}
	var cl []*clauseInfo
	for _, id := range c.clauseOrder {
		cl = append(cl, c.clauses[id])
	}
	nfun := 0
	for _, f := range c.Funcs {
		if !c.TestOnly[f] {
			nfun++
		}
	}
	cov := map[string]any{
		"explanation":         explanation,
		"packages":            len(c.Pkgs),
		"functions_analysed":  nfun,
		"test_support_files_excluded": c.testFiles(),
		"clauses":             cl,
		"obligations":         len(c.obs),
		"discharged":          discharged,
		"undecided":           undec,
		"known_findings_hit":  len(knownHit),
		"evaluations":         len(c.obs),
		"distinct_nontrivial": nontriv,
		"rule":                "obligations are enumerated from the resolved program (types, SSA, CFG) per clause; an obligation is non-trivial when its verdict needed a dominance/path, lockset, provenance or table-agreement argument rather than mere presence; distinct = distinct (clause, construct key)",
		"samples":             samples,
		"exhaustive":          true,
		"all_obligations":     c.obs,
		"notes":               c.notes,
	}
	for k, v := range extra {
		cov[k] = v
	}
	ev := evidence{PropertyID: c.Prop, Tier: c.Tier, Seed: seed, Level: "other", Coverage: cov,
		Assumptions: c.assumptions, WallS: time.Since(start).Seconds(), Violations: len(viol)}
	if ev.Assumptions == nil {
		ev.Assumptions = []string{}
	}
	os.MkdirAll(filepath.Join(verifDir, "evidence"), 0o755)
	b, _ := json.MarshalIndent(ev, "", " ")
	if err := os.WriteFile(filepath.Join(verifDir, "evidence", c.Prop+".json"), append(b, '\n'), 0o644); err != nil {
		fmt.Fprintln(os.Stderr, err)
		return 2
	}
	fmt.Printf("property=%s tier=%s packages=%d functions=%d clauses=%d obligations=%d discharged=%d violated_or_undecided=%d known=%d wall=%.1fs\n",
		c.Prop, c.Tier, len(c.Pkgs), nfun, len(cl), len(c.obs), discharged, len(viol), len(knownHit), ev.WallS)
	if len(viol) == 0 {
		return 0
	}
	// replay report
	repDir := filepath.Join(verifDir, "reports")
	os.MkdirAll(repDir, 0o755)
	rp := filepath.Join(repDir, fmt.Sprintf("%s-%s.json", c.Prop, c.Tier))
	rb, _ := json.MarshalIndent(map[string]any{"property": c.Prop, "tier": c.Tier, "violations": viol}, "", " ")
	os.WriteFile(rp, append(rb, '\n'), 0o644)
	for _, o := range viol {
		fmt.Printf("  %s %s %s %s @ %s: %s\n", strings.ToUpper(o.Status), o.Clause, o.Rule, o.Key, o.Pos, o.Detail)
	}
	fmt.Printf("VIOLATION property=%s replay=%s\n", c.Prop, rp)
	return 1
}

func maxInt(a, b int) int {
	if a > b {
		return a
	}
	return b
}
