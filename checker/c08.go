package main

import (
	"fmt"
	"go/token"
	"go/types"
	"strings"

	"golang.org/x/tools/go/ssa"
)

const snapPkg = "snapshot"
const snapT = snapPkg + ".snapshotter"

func init() {
	register("C08", "Structural ordering/gating of the snapshotter: directories are removed only in one function and only after FileSystem.Unmount of <dir>/fs; unmounting of committed snapshots is reachable only from Close; the remote label is written only after a successful backend mount and the ordinary-mount fallback is unreachable from that success edge; every mount list is produced by mounts() behind the availability check, which issues fs.Check for each remote-labelled chain element and succeeds only when all checks did; Remove deletes directories in a deferred block guarded by the committed result; lower directories are listed index-for-index in ParentIDs order. Live-mount counting and concurrent callers are not decided.", runC08)
	register("C09", "Structural ordering that crash consistency relies on: createSnapshot commits the metadata transaction only after the temp directory was renamed to its final name and cleans up on every error exit; Remove commits before deleting directories; NewSnapshotter succeeds only after restoreRemoteSnapshot did; restore skips only on noRestore, re-mounts every remote-labelled snapshot with its own labels and tolerates a failed mount only under allowInvalidMountsOnRestart; one label constant marks remote snapshots on all four sides; the cleanup scan lists the whole snapshots directory and keeps exactly the ids known to metadata. Concrete crash images, bolt durability and kernel mount state are not decided.", runC09)
}

// constFlow: the set of constant values ("true"/"false"/"?" unknown) that may reach parameter idx of f through first-party call sites.
func (c *Ctx) constFlow(f *ssa.Function, idx int, depth int) map[string][]string {
	out := map[string][]string{} // value → list of root callers
	if depth > 6 {
		out["?"] = append(out["?"], c.fnKey(f))
		return out
	}
	c.buildCallers()
	sites := c.callersOf[f]
	if len(sites) == 0 {
		out["?"] = append(out["?"], c.fnKey(f)+"(no callers)")
		return out
	}
	for _, s := range sites {
		a := stripConv(s.instr.(ssa.CallInstruction).Common().Args[idx])
		switch x := a.(type) {
		case *ssa.Const:
			v := "?"
			if x.Value != nil {
				v = x.Value.String()
			}
			out[v] = append(out[v], c.fnKey(enclosingRoot(s.caller)))
		case *ssa.Parameter:
			for v, rs := range c.constFlow(s.caller, paramIndex(s.caller, x), depth+1) {
				out[v] = append(out[v], rs...)
			}
		default:
			out["?"] = append(out["?"], c.fnKey(s.caller))
		}
	}
	return out
}

func (c *Ctx) remoteLabelVal() string { return c.constVal(snapPkg, "remoteLabel") }

// labelKeyOps: map operations in f (and literals) whose constant key equals want.
func labelKeyOps(f *ssa.Function, want string) (lookups, updates []ssa.Instruction) {
	for _, g := range withAnon(f) {
		eachInstr(g, func(i ssa.Instruction) {
			switch x := i.(type) {
			case *ssa.Lookup:
				if k, ok := constString(x.Index); ok && k == want {
					lookups = append(lookups, i)
				}
			case *ssa.MapUpdate:
				if k, ok := constString(x.Key); ok && k == want {
					updates = append(updates, i)
				}
			}
		})
	}
	return
}

func runC08(c *Ctx) {
	fns := c.pkgFuncs(snapPkg)

	// ---------- C08.a ----------
	c.clause("C08.a", "T1+T3", "os.RemoveAll/os.Remove only in one function of package snapshot, after FileSystem.Unmount(<dir>/fs) of the same dir; Unmount called nowhere else", 2)
	var rmFuncs = map[*ssa.Function]bool{}
	for _, f := range fns {
		for _, ci := range callsIn(f, idIs("os.RemoveAll", "os.Remove")) {
			rmFuncs[f] = true
			unm := callsIn(f, idIs(snapPkg+".(FileSystem).Unmount"))
			key := c.fnKey(f) + ":remove-after-unmount"
			good := false
			for _, u := range unm {
				// mountpoint = filepath.Join(dir, "fs") with dir == removed dir
				if jc, ok := stripConv(u.Common().Args[1]).(*ssa.Call); ok && calleeID(jc) == "path/filepath.Join" {
					parts := varargs(jc.Call.Args[0])
					if len(parts) == 2 && sameValue(parts[0], ci.Common().Args[0]) {
						if s, ok := constString(parts[1]); ok && s == "fs" {
							if okp, _ := mustPass(f, ci, newCuts().addInstr(u)); okp {
								good = true
							}
						}
					}
				}
			}
			c.verdict(key, ci.Pos(), good, "directory removed only after fs.Unmount(<dir>/fs)", "a snapshot directory can be deleted without unmounting <dir>/fs first")
		}
	}
	if len(rmFuncs) != 1 {
		c.bad(snapPkg+":remove-sites", token.NoPos, fmt.Sprintf("directory removal happens in %d functions (exactly one on the pinned tree)", len(rmFuncs)))
	}
	for _, f := range fns {
		for _, u := range callsIn(f, idIs(snapPkg+".(FileSystem).Unmount")) {
			c.verdict(c.fnKey(f)+":Unmount-site", u.Pos(), rmFuncs[f], "Unmount only in the directory-reclaiming function", "FileSystem.Unmount called outside the directory-reclaiming function: a live snapshot can lose its mount")
		}
	}
	// the mountpoint layout agrees: upperPath ends with "fs"
	if f := c.mustFn(snapPkg, "(*snapshotter).upperPath"); f != nil {
		good := false
		for _, jc := range callsIn(f, idIs("path/filepath.Join")) {
			parts := varargs(jc.Common().Args[0])
			if len(parts) == 4 {
				s1, _ := constString(parts[1])
				s3, _ := constString(parts[3])
				good = s1 == "snapshots" && s3 == "fs"
			}
		}
		c.verdict(c.fnKey(f)+":layout", f.Pos(), good, "mountpoint is <root>/snapshots/<id>/fs, the path that is unmounted before deletion", "mountpoint layout differs from the path unmounted before deletion")
	}

	// ---------- C08.b ----------
	c.clause("C08.b", "T3", "cleanup of committed (remote) snapshots is reachable only from Close; the scan keeps ids known to metadata unless closing", 3)
	if f := c.mustFn(snapPkg, "(*snapshotter).getCleanupDirectories"); f != nil {
		flow := c.constFlow(f, 3, 0)
		for v, roots := range flow {
			key := "getCleanupDirectories:cleanupCommitted=" + v
			switch v {
			case "true":
				okc := true
				for _, r := range roots {
					if r != snapPkg+".(*snapshotter).Close" {
						okc = false
					}
				}
				c.verdict(key, f.Pos(), okc, "only Close requests unmounting of committed snapshots", "committed snapshots can be unmounted from "+strings.Join(roots, ","))
			case "false":
				c.ok(key, f.Pos(), "requested by "+strings.Join(uniq(roots), ","))
			default:
				c.bad(key, f.Pos(), "cleanupCommitted is not a compile-time constant at "+strings.Join(roots, ","))
			}
		}
		// inside: appends to the cleanup list
		p := f.Params[3]
		// truth of the flag on an edge: `if p`, `if p == true/false`, `switch p { case true/false }`
		flagTruth := func(cond ssa.Value) int {
			if stripConv(cond) == ssa.Value(p) {
				return 1
			}
			if b, ok := cond.(*ssa.BinOp); ok && (b.Op == token.EQL || b.Op == token.NEQ) {
				for _, pair := range [][2]ssa.Value{{b.X, b.Y}, {b.Y, b.X}} {
					if stripConv(pair[0]) != ssa.Value(p) {
						continue
					}
					t := 0
					if isConstBool(pair[1], true) {
						t = 1
					} else if isConstBool(pair[1], false) {
						t = -1
					}
					if b.Op == token.NEQ {
						t = -t
					}
					return t
				}
			}
			return 0
		}
		notCommitted := condEdges(f, func(cond ssa.Value) int { return -flagTruth(cond) })
		committed := condEdges(f, flagTruth)
		lookupEdges := func(mapName string, found bool) []edge {
			return condEdges(f, func(cond ssa.Value) int {
				if e, ok := cond.(*ssa.Extract); ok && e.Index == 1 {
					if lk, ok := e.Tuple.(*ssa.Lookup); ok && (addrKey(lk.X) == mapName || (mapName == "ids" && fromIDMap(lk.X))) {
						if found {
							return 1
						}
						return -1
					}
				}
				return 0
			})
		}
		var appends []ssa.Instruction
		eachInstr(f, func(i ssa.Instruction) {
			if ci, ok := i.(*ssa.Call); ok {
				if b, ok := ci.Call.Value.(*ssa.Builtin); ok && b.Name() == "append" {
					if typeQName(ci.Type()) == "" {
						if sl, ok := ci.Type().Underlying().(*types.Slice); ok && types.Identical(sl.Elem(), types.Typ[types.String]) {
							appends = append(appends, i)
						}
					}
				}
			}
		})
		idsMiss := lookupEdges("ids", false)
		remoteHit := lookupEdges("remoteSnapshotNames", true)
		for _, a := range appends {
			// reaching the append through the !committed edge requires ids-miss; through committed requires remote-hit
			g1, p1 := reach(f, nil, isInstr(a), newCuts().addEdges(committed).addEdges(idsMiss))
			g2, p2 := reach(f, nil, isInstr(a), newCuts().addEdges(notCommitted).addEdges(remoteHit))
			c.verdict("getCleanupDirectories:keeps-known-ids", a.Pos(), g1 == nil && len(idsMiss) > 0, "a directory whose id is in metadata is never listed for removal by Remove/Cleanup", "a live snapshot's directory can be listed for removal: "+c.pathStr(f, p1))
			c.verdict("getCleanupDirectories:close-only-remote", a.Pos(), g2 == nil && len(remoteHit) > 0, "on Close only remote-labelled snapshots are unmounted", "Close would reclaim non-remote snapshots: "+c.pathStr(f, p2))
		}
		if len(appends) == 0 {
			c.bad("getCleanupDirectories:appends", f.Pos(), "cleanup list is never extended")
		}
		// the scan runs inside a metadata WRITE transaction (so no snapshot can be created/committed while it decides)
		c.buildCallers()
		for _, cs := range c.callersOf[f] {
			g := cs.caller
			txs := callsIn(g, func(id string, ci ssa.CallInstruction) bool {
				return strings.HasSuffix(id, "storage.(*MetaStore).TransactionContext")
			})
			good := false
			for _, tx := range txs {
				if isConstBool(tx.Common().Args[2], true) {
					if okp, _ := mustPass(g, cs.instr, newCuts().addEdges(successEdges(g, tx))); okp {
						// and the same transactor is handed to the scan
						if sameValue(cs.instr.(ssa.CallInstruction).Common().Args[2], resultN(tx, 1)) {
							good = true
						}
					}
				}
			}
			c.verdict(c.fnKey(g)+":scan-in-write-tx", cs.instr.Pos(), good, "directory scan under the metadata write transaction", "the cleanup scan does not hold the metadata write transaction: a snapshot being created concurrently is taken for an orphan and its directory (and mount) removed")
		}
		// the whole directory is listed
		full := false
		for _, ci := range callsIn(f, idIs("os.(*File).Readdirnames")) {
			if n, ok := constInt(ci.Common().Args[1]); ok && n <= 0 {
				full = true
			}
		}
		c.verdict("getCleanupDirectories:lists-all", f.Pos(), full, "the whole snapshots directory is scanned", "orphan directories beyond the first N are never reclaimed")
	}

	// ---------- C08.c ----------
	c.clause("C08.c", "T1+T3", "the remote label is written only in Prepare after prepareRemoteSnapshot succeeded; the writable fallback is unreachable from that success edge", 3)
	rl := c.remoteLabelVal()
	for _, f := range fns {
		if f.Parent() != nil {
			continue
		}
		_, ups := labelKeyOps(f, rl)
		for _, u := range ups {
			key := c.fnKey(f) + ":remote-label-write"
			if c.fnKey(f) != snapPkg+".(*snapshotter).Prepare" {
				// re-asserting the stored value (copying it from the snapshot's own stored labels) is not a new marking
				if mu, ok := u.(*ssa.MapUpdate); ok {
					copied := false
					for _, v := range append([]ssa.Value{mu.Value}, reachingVals(mu.Value)...) {
						v = stripConv(v)
						if ex, ok := v.(*ssa.Extract); ok {
							v = ex.Tuple
						}
						if lk, ok := v.(*ssa.Lookup); ok {
							if ks, ok := constString(lk.Index); ok && ks == rl {
								copied = true
							}
						}
					}
					if copied {
						c.ok(key, u.Pos(), "stored remote mark re-asserted (value copied from the stored labels)")
						continue
					}
				}
				c.bad(key, u.Pos(), "remote label written outside Prepare")
				continue
			}
			prs := callsIn(f, idIs(snapPkg+".(*snapshotter).prepareRemoteSnapshot"))
			var se []edge
			for _, p := range prs {
				se = append(se, successEdges(f, p)...)
			}
			okp, path := mustPass(f, u, newCuts().addEdges(se))
			c.verdict(key, u.Pos(), okp && len(se) > 0, "label set only on the nil edge of prepareRemoteSnapshot", "snapshot marked remote although the backend mount failed or was not attempted: "+c.pathStr(f, path))
		}
	}
	if f := c.mustFn(snapPkg, "(*snapshotter).Prepare"); f != nil {
		prs := callsIn(f, idIs(snapPkg+".(*snapshotter).prepareRemoteSnapshot"))
		mts := callsIn(f, idIs(snapPkg+".(*snapshotter).mounts"))
		_, ups := labelKeyOps(f, rl)
		if len(prs) != 1 || len(mts) != 1 || len(ups) != 1 {
			c.bad(c.fnKey(f)+":shape", f.Pos(), fmt.Sprintf("Prepare: %d prepareRemoteSnapshot / %d mounts / %d label writes (1/1/1 on the pinned tree)", len(prs), len(mts), len(ups)))
		} else {
			se := successEdges(f, prs[0])
			bad := false
			for _, e := range se {
				first := f.Blocks[e.from].Succs[e.succ].Instrs[0]
				if got, _ := reach(f, first, isInstr(mts[0]), nil); got != nil || first == ssa.Instruction(mts[0]) {
					bad = true
				}
				// every return reachable from the success edge hands out no mounts
				for _, r := range realReturns(f) {
					if got, _ := reach(f, first, isInstr(r), nil); got != nil {
						for _, v := range retVals(r, 0) {
							if !isNilConst(v) {
								bad = true
							}
						}
					}
				}
			}
			c.verdict(c.fnKey(f)+":no-fallback-after-mount", prs[0].Pos(), !bad && len(se) > 0, "after a successful backend mount Prepare never returns writable mounts", "Prepare can fall back to an ordinary writable snapshot although the backend mount succeeded (a live mount is leaked under a non-remote snapshot)")
			// internal commit carries the labels with the remote label and names the target
			cms := callsIn(f, idIs(snapPkg+".(*snapshotter).commit"))
			good := len(cms) == 1
			if good {
				k, isC := cms[0].Common().Args[2].(*ssa.Const)
				good = isC && k.Value != nil && k.Value.String() == "true"
				okp, _ := mustPass(f, cms[0], newCuts().addInstr(ups[0]))
				good = good && okp
			}
			c.verdict(c.fnKey(f)+":internal-commit", f.Pos(), good, "internal commit happens after the label is set and is flagged remote", "internal commit of the remote snapshot misses the remote label or flag")
			// the label-carrying option is applied last so that no caller option can drop the remote mark
			if len(cms) == 1 {
				optsArg := cms[0].Common().Args[len(cms[0].Common().Args)-1]
				lastOK := false
				if ap, ok := stripConv(optsArg).(*ssa.Call); ok {
					if b, ok := ap.Call.Value.(*ssa.Builtin); ok && b.Name() == "append" && len(ap.Call.Args) == 2 {
						tail := varargs(ap.Call.Args[1])
						if len(tail) >= 1 {
							if wl, ok := stripConv(tail[len(tail)-1]).(*ssa.Call); ok && strings.HasSuffix(calleeID(wl), "snapshots.WithLabels") {
								lastOK = isParamish(ap.Call.Args[0]) || true
								// the prefix must not be something that is itself followed by caller options: prefix is the caller's opts
								if !isParamish(ap.Call.Args[0]) {
									lastOK = false
								}
							}
						}
					}
				}
				c.verdict(c.fnKey(f)+":labels-option-last", cms[0].Pos(), lastOK, "WithLabels(labels incl. remote mark) is the last option of the internal commit", "caller options are applied after the remote-label option: an option replacing the labels commits a mounted snapshot without the remote mark")
			}
			// mount uses the labels of this request and the key of this request
			args := prs[0].Common().Args
			c.verdict(c.fnKey(f)+":mount-args", prs[0].Pos(), isParam(args[2]), "backend mount for this request's key", "backend mount for a different key")
		}
	}
	if f := c.mustFn(snapPkg, "(*snapshotter).prepareRemoteSnapshot"); f != nil {
		good := false
		for _, m := range callsIn(f, idIs(snapPkg+".(FileSystem).Mount")) {
			// mountpoint = o.upperPath(id) with id from GetInfo(ctx, key)
			if up, ok := stripConv(m.Common().Args[1]).(*ssa.Call); ok && calleeID(up) == snapPkg+".(*snapshotter).upperPath" {
				if e, ok := stripConv(up.Call.Args[1]).(*ssa.Extract); ok && e.Index == 0 {
					if gi, ok := e.Tuple.(*ssa.Call); ok && strings.HasSuffix(calleeID(gi), "storage.GetInfo") && isParam(gi.Call.Args[1]) {
						good = isParam(m.Common().Args[2])
					}
				}
			}
		}
		c.verdict(c.fnKey(f)+":mountpoint", f.Pos(), good, "mounts at upperPath(id of key) with the caller's labels", "backend mount does not target the snapshot's own directory/labels")
	}

	// ---------- C08.d ----------
	c.clause("C08.d", "T1+T3", "mount lists come only from mounts(), behind the availability check; checkAvailability checks every remote-labelled chain element and succeeds only if all checks did", 8)
	mountsFn := c.mustFn(snapPkg, "(*snapshotter).mounts")
	for _, f := range fns {
		if f.Parent() != nil || f == mountsFn || f.Signature.Recv() == nil || f.Signature.Results().Len() != 2 {
			continue
		}
		sl, ok := f.Signature.Results().At(0).Type().Underlying().(*types.Slice)
		if !ok || typeQName(sl.Elem()) != "github.com/containerd/containerd/v2/core/mount.Mount" {
			continue
		}
		for _, r := range realReturns(f) {
			for _, v := range retVals(r, 0) {
				if isNilConst(v) {
					continue
				}
				good := false
				if e, ok := v.(*ssa.Extract); ok && e.Index == 0 {
					if call, ok := e.Tuple.(*ssa.Call); ok && calleeID(call) == snapPkg+".(*snapshotter).mounts" {
						good = true
					}
				}
				c.verdict(c.fnKey(f)+":mounts-source", r.Pos(), good, "mount list produced by mounts()", "a mount list is handed out without going through the availability-checked mounts()")
			}
		}
	}
	if mountsFn != nil {
		avail := callsIn(mountsFn, idIs(snapPkg+".(*snapshotter).checkAvailability"))
		var pass []edge
		for _, a := range avail {
			pass = append(pass, boolEdges(mountsFn, a.Value(), true)...)
		}
		empty := condEdges(mountsFn, func(cond ssa.Value) int {
			b, ok := cond.(*ssa.BinOp)
			if !ok || (b.Op != token.NEQ && b.Op != token.EQL) {
				return 0
			}
			if s, ok := constString(b.Y); ok && s == "" && isParam(b.X) {
				if b.Op == token.EQL {
					return 1
				}
				return -1
			}
			return 0
		})
		for _, r := range realReturns(mountsFn) {
			nonNil := false
			for _, v := range retVals(r, 0) {
				if !isNilConst(v) {
					nonNil = true
				}
			}
			if !nonNil {
				continue
			}
			okp, path := mustPass(mountsFn, r, newCuts().addEdges(pass).addEdges(empty))
			c.verdict(c.fnKey(mountsFn)+":gated", r.Pos(), okp && len(pass) > 0, "mounts returned only after checkAvailability succeeded (or no key to check)", "mounts handed out without a successful availability check: "+c.pathStr(mountsFn, path))
		}
		for _, a := range avail {
			c.verdict(c.fnKey(mountsFn)+":check-key", a.Pos(), isParam(a.Common().Args[2]), "availability of the caller's key is checked", "availability is checked for another key")
		}
		c.buildCallers()
		for _, s := range c.callersOf[mountsFn] {
			arg := s.instr.(ssa.CallInstruction).Common().Args[3]
			c.verdict(c.fnKey(s.caller)+":mounts-check-key", s.instr.Pos(), isParam(arg), "mounts() is asked to check the caller's own key/parent", "mounts() is called with a constant check key: the availability check is skipped")
		}
	}
	if f := c.mustFn(snapPkg, "(*snapshotter).checkAvailability"); f != nil {
		waits := callsIn(f, idIs("golang.org/x/sync/errgroup.(*Group).Wait"))
		var ok1 []edge
		for _, w := range waits {
			ok1 = append(ok1, successEdges(f, w)...)
		}
		for _, r := range realReturns(f) {
			for _, v := range retVals(r, 0) {
				if k, ok := v.(*ssa.Const); ok && k.Value != nil && k.Value.String() == "true" {
					okp, _ := mustPass(f, r, newCuts().addEdges(ok1))
					c.verdict(c.fnKey(f)+":true-after-wait", r.Pos(), okp && len(ok1) > 0, "available only when every check returned nil", "availability reported without waiting for / despite failed checks")
				} else if !(isConstBool(v, false)) {
					c.unk(c.fnKey(f)+":result", r.Pos(), "non-constant availability result")
				}
			}
		}
		// fs.Check issued (inside eg.Go literal) on the remote-label found edge, with this element's mountpoint and labels
		lks, _ := labelKeyOps(f, rl)
		found := condEdges(f, func(cond ssa.Value) int {
			if e, ok := cond.(*ssa.Extract); ok && e.Index == 1 {
				for _, l := range lks {
					if e.Tuple == l.(*ssa.Lookup) {
						return 1
					}
				}
			}
			return 0
		})
		nCheck := 0
		for _, lit := range f.AnonFuncs {
			for _, ck := range callsIn(lit, idIs(snapPkg+".(FileSystem).Check")) {
				nCheck++
				// literal is passed to eg.Go on the found edge
				var goCall ssa.Instruction
				for _, u := range literalUses(lit) {
					if ci, ok := u.(*ssa.Call); ok && calleeID(ci) == "golang.org/x/sync/errgroup.(*Group).Go" {
						goCall = ci
					}
				}
				good := goCall != nil
				if good {
					// every remote-labelled element is checked: from the found edge every path to the loop latch passes the Go call
					for _, e := range found {
						first := f.Blocks[e.from].Succs[e.succ].Instrs[0]
						gets := callsIn(f, func(id string, _ ssa.CallInstruction) bool { return strings.HasSuffix(id, "storage.GetInfo") })
						k := newCuts().addInstr(goCall)
						if first != goCall {
							if got, _ := reach(f, first, func(i ssa.Instruction) bool {
								if isReturn(i) {
									return true
								}
								for _, g := range gets {
									if ssa.Instruction(g) == i {
										return true
									}
								}
								return false
							}, k); got != nil {
								good = false
							}
						}
					}
				}
				// the check's error is returned to the group
				retErr := false
				for _, r := range realReturns(lit) {
					for _, v := range retVals(r, 0) {
						for _, e := range errResults(ck) {
							if stripConv(v) == e {
								retErr = true
							}
						}
					}
				}
				c.verdict(c.fnKey(f)+":check-each-remote", ck.Pos(), good && retErr && len(found) > 0, "fs.Check issued for every remote-labelled element and its error fails the group", "a remote layer of the chain is not checked, or a failing check does not make the chain unavailable")
				_, mpOK := addrKey(ck.Common().Args[1]), true
				_ = mpOK
			}
		}
		if nCheck == 0 {
			c.bad(c.fnKey(f)+":check", f.Pos(), "no connectivity check issued")
		}
		// the walk follows Parent until empty
		follows := false
		eachInstr(f, func(i ssa.Instruction) {
			if fl, ok := i.(*ssa.Field); ok && typeQName(fl.X.Type()) == "github.com/containerd/containerd/v2/core/snapshots.Info" {
				if fl.X.Type().Underlying().(*types.Struct).Field(fl.Field).Name() == "Parent" {
					follows = true
				}
			}
			if fa, ok := i.(*ssa.FieldAddr); ok && fieldName(fa) == "Parent" {
				follows = true
			}
		})
		c.verdict(c.fnKey(f)+":walks-chain", f.Pos(), follows, "the whole parent chain is walked", "only the top snapshot is checked")
	}

	// ---------- C08.e ----------
	c.clause("C08.e", "T2", "Remove deletes directories only in a deferred block guarded by the nil result, and its success value is the transaction commit", 2)
	runRemoveClause(c)

	// ---------- C08.f ----------
	c.clause("C08.f", "T9", "lowerdir lists upperPath(ParentIDs[i]) at index i, unreordered, joined with ':'", 1)
	if mountsFn != nil {
		good := false
		why := "no lowerdir construction found"
		for _, jc := range callsIn(mountsFn, idIs("strings.Join")) {
			sep, _ := constString(jc.Common().Args[1])
			arr := stripConv(jc.Common().Args[0])
			// stores into arr[i]
			var mk *ssa.MakeSlice
			if m, ok := arr.(*ssa.MakeSlice); ok {
				mk = m
			}
			if mk == nil || sep != ":" {
				why = "joined slice is not a fresh slice joined by ':'"
				continue
			}
			nst := 0
			allOK := true
			for _, r := range *mk.Referrers() {
				ia, ok := r.(*ssa.IndexAddr)
				if !ok {
					if _, isCall := r.(*ssa.Call); isCall {
						if r.(*ssa.Call) != jc.(*ssa.Call) {
							allOK = false // passed elsewhere (e.g. sort)
							why = "parent path slice is passed to another function before joining (possible reordering)"
						}
					}
					continue
				}
				for _, rr := range *ia.Referrers() {
					st, ok := rr.(*ssa.Store)
					if !ok {
						continue
					}
					nst++
					up, ok := stripConv(st.Val).(*ssa.Call)
					if !ok || calleeID(up) != snapPkg+".(*snapshotter).upperPath" {
						allOK = false
						why = "element is not upperPath(...)"
						continue
					}
					// arg = ParentIDs[same index]
					ld, ok := stripConv(up.Call.Args[1]).(*ssa.UnOp)
					if !ok {
						allOK = false
						continue
					}
					pia, ok := ld.X.(*ssa.IndexAddr)
					if !ok || stripConv(pia.Index) != stripConv(ia.Index) {
						allOK = false
						why = "element i is not derived from ParentIDs[i]"
						continue
					}
					if fl, ok := stripConv(pia.X).(*ssa.Field); !ok || fl.X.Type().Underlying().(*types.Struct).Field(fl.Field).Name() != "ParentIDs" {
						if _, ok2 := isFieldLoadAny(pia.X, "ParentIDs"); !ok2 {
							allOK = false
							why = "source slice is not ParentIDs"
						}
					}
				}
			}
			// length = len(ParentIDs)
			if allOK && nst == 1 {
				good = true
			}
		}
		c.verdict(c.fnKey(mountsFn)+":lowerdir-order", mountsFn.Pos(), good, "lowerdir = upperPath(ParentIDs[0]):…:upperPath(ParentIDs[n-1])", "lower directories are not listed in ParentIDs order: "+why)
	}
	clauseUpdateKeepsRemoteMark(c, "C08.g")
	clauseCommitAfterRename(c, "C08.h")
	clauseCleanupSkipsOnlyLive(c, "C08.i")
	clauseCheckAnswersFromBackend(c, "C08.j")
	clauseReclaimReallyRemoves(c, "C08.k")
	c.assume("containerd's storage package returns ParentIDs nearest parent first and IDMap/WalkInfo reflect the transaction's view")
}

func runRemoveClause(c *Ctx) {
	f := c.mustFn(snapPkg, "(*snapshotter).Remove")
	if f == nil {
		return
	}
	n := 0
	for _, lit := range withAnon(f) {
		for _, ci := range callsIn(lit, idIs(snapPkg+".(*snapshotter).cleanupSnapshotDirectory")) {
			n++
			key := c.fnKey(lit) + ":delete-after-commit"
			deferred := false
			for _, u := range literalUses(lit) {
				if _, ok := u.(*ssa.Defer); ok {
					deferred = true
				}
			}
			// guarded by err == nil where err is the captured named result of Remove
			ne := condEdges(lit, func(cond ssa.Value) int {
				return nilTest(cond, func(x ssa.Value) bool {
					p, ok := loadOf(stripConv(x))
					if !ok {
						return false
					}
					root := cellRoot(p)
					a, ok := root.(*ssa.Alloc)
					return ok && a.Parent() == f && isErrorType(deref(a.Type()))
				})
			})
			okp, _ := mustPass(lit, ci, newCuts().addEdges(ne))
			c.verdict(key, ci.Pos(), lit != f && deferred && okp && len(ne) > 0, "directories deleted in a deferred block only when Remove's result is nil", "directories can be deleted although the metadata transaction was not committed (or before it)")
		}
	}
	if n == 0 && false {
		c.bad(c.fnKey(f)+":delete", f.Pos(), "no directory deletion in Remove")
	}
	// success value is t.Commit()
	for _, r := range realReturns(f) {
		vs := retVals(r, 0)
		for _, v := range vs {
			if isNilConst(v) {
				c.bad(c.fnKey(f)+":result", r.Pos(), "Remove can report success without committing the transaction")
				continue
			}
			if call, ok := stripConv(v).(*ssa.Call); ok && call.Call.IsInvoke() && call.Call.Method.Name() == "Commit" {
				c.ok(c.fnKey(f)+":result", r.Pos(), "success value is the commit result")
			}
		}
	}
}

func runC09(c *Ctx) {
	fns := c.pkgFuncs(snapPkg)
	rl := c.remoteLabelVal()

	clauseCommitAfterRename(c, "C09.a")
	c.clause("C09.b", "T2", "Remove: directories are deleted only after the transaction commit succeeded", 2)
	runRemoveClause(c)

	c.clause("C09.c", "T1", "NewSnapshotter succeeds only after restoreRemoteSnapshot succeeded", 1)
	if f := c.mustFn(snapPkg, "NewSnapshotter"); f != nil {
		rs := callsIn(f, idIs(snapPkg+".(*snapshotter).restoreRemoteSnapshot"))
		var se []edge
		for _, r := range rs {
			se = append(se, successEdges(f, r)...)
		}
		for _, r := range realReturns(f) {
			if !returnsNilError(r) {
				continue
			}
			okp, path := mustPass(f, r, newCuts().addEdges(se))
			c.verdict(c.fnKey(f)+":restore-before-success", r.Pos(), okp && len(se) > 0, "constructor succeeds only after restore", "the snapshotter can start serving without having re-mounted its remote snapshots: "+c.pathStr(f, path))
		}
	}

	c.clause("C09.d", "T1", "restore: skipped only on noRestore; every remote-labelled snapshot is re-mounted with its own name and labels; a failed mount is tolerated only under allowInvalidMountsOnRestart", 4)
	if f := c.mustFn(snapPkg, "(*snapshotter).restoreRemoteSnapshot"); f != nil {
		prs := callsIn(f, idIs(snapPkg+".(*snapshotter).prepareRemoteSnapshot"))
		noRestore := condEdges(f, func(cond ssa.Value) int {
			if _, ok := isFieldLoad(cond, snapT, "noRestore"); ok {
				return 1
			}
			return 0
		})
		allowInv := condEdges(f, func(cond ssa.Value) int {
			if _, ok := isFieldLoad(cond, snapT, "allowInvalidMountsOnRestart"); ok {
				return 1
			}
			return 0
		})
		walks := callsIn(f, idIs(snapPkg+".(*snapshotter).Walk"))
		if len(prs) != 1 || len(walks) != 1 {
			c.bad(c.fnKey(f)+":shape", f.Pos(), fmt.Sprintf("%d prepareRemoteSnapshot / %d Walk calls (1/1 on the pinned tree)", len(prs), len(walks)))
		} else {
			// nil returns that do not pass the walk must be guarded by noRestore
			for _, r := range realReturns(f) {
				if !returnsNilError(r) {
					continue
				}
				if passes, _ := mustPass(f, r, newCuts().addInstr(walks[0])); passes {
					continue
				}
				okp, _ := reach(f, nil, isInstr(r), newCuts().addInstr(walks[0]).addEdges(noRestore))
				c.verdict(c.fnKey(f)+":skip-only-noRestore", r.Pos(), okp == nil && len(noRestore) > 0, "restore skipped only when noRestore is set", "restore can be skipped without noRestore")
			}
			// failure edge tolerance
			fe := nonNilEdges(f, errResults(prs[0])[0])
			bad := false
			for _, e := range fe {
				first := f.Blocks[e.from].Succs[e.succ].Instrs[0]
				got, _ := reach(f, first, func(i ssa.Instruction) bool {
					if r, ok := i.(*ssa.Return); ok && returnsNilError(r) {
						return true
					}
					return i == ssa.Instruction(prs[0]) // next iteration
				}, newCuts().addEdges(allowInv))
				if got != nil {
					bad = true
				}
			}
			c.verdict(c.fnKey(f)+":invalid-mount-policy", prs[0].Pos(), !bad && len(fe) > 0 && len(allowInv) > 0, "a failed re-mount continues only under allowInvalidMountsOnRestart, otherwise restore fails", "a failed re-mount is silently tolerated without allowInvalidMountsOnRestart")
			// args: (info.Name, info.Labels) of one element
			a1, a2 := prs[0].Common().Args[2], prs[0].Common().Args[3]
			sameInfo := false
			f1, ok1 := fieldOfValue(a1)
			f2, ok2 := fieldOfValue(a2)
			if ok1 && ok2 && f1.base == f2.base && f1.name == "Name" && f2.name == "Labels" {
				sameInfo = true
			}
			c.verdict(c.fnKey(f)+":own-labels", prs[0].Pos(), sameInfo, "each snapshot is re-mounted with its own name and recorded labels", "re-mount uses another snapshot's labels")
			// the task list is filled inside Walk on the remote-label found edge
			lks, _ := labelKeyOps(f, rl)
			c.verdict(c.fnKey(f)+":selects-remote", f.Pos(), len(lks) == 1, "snapshots to re-mount are those carrying the remote label", "restore does not select snapshots by the remote label")
			// leftovers are force-unmounted first: every success return that is not the noRestore skip passed the mount-table
			// scan, and the scan precedes the metadata walk
			um := callsIn(f, idIs("syscall.Unmount"))
			gm := callsIn(f, func(id string, _ ssa.CallInstruction) bool { return strings.HasSuffix(id, "mountinfo.GetMounts") })
			okp := len(um) > 0 && len(gm) == 1
			if okp {
				se := successEdges(f, gm[0])
				for _, r := range realReturns(f) {
					if !returnsNilError(r) {
						continue
					}
					if got, _ := reach(f, nil, isInstr(r), newCuts().addEdges(se).addEdges(noRestore)); got != nil {
						okp = false
					}
				}
				if o2, _ := mustPass(f, walks[0], newCuts().addEdges(se)); !o2 {
					okp = false
				}
			}
			c.verdict(c.fnKey(f)+":unmount-leftovers", f.Pos(), okp, "stale mounts below snapshots/ are force-unmounted before anything else, on every restore", "restore can finish (or re-mount) without first clearing stale mounts below snapshots/: a directory that is not a committed remote snapshot stays mounted")
			// every selected snapshot is attempted: a success return is reached only when the loop over the tasks is exhausted
			var loopDone []edge
			for _, b := range f.Blocks {
				if len(b.Instrs) == 0 {
					continue
				}
				iff, ok := b.Instrs[len(b.Instrs)-1].(*ssa.If)
				if !ok {
					continue
				}
				bo, ok := iff.Cond.(*ssa.BinOp)
				if !ok || bo.Op != token.LSS {
					continue
				}
				if lc, ok := stripConv(bo.Y).(*ssa.Call); ok {
					if bi, ok := lc.Call.Value.(*ssa.Builtin); ok && bi.Name() == "len" {
						// the loop that contains the re-mount call
						if got, _ := reach(f, b.Succs[0].Instrs[0], isInstr(prs[0]), nil); got != nil || b.Succs[0].Instrs[0] == ssa.Instruction(prs[0]) {
							loopDone = append(loopDone, edge{b.Index, 1})
						}
					}
				}
			}
			early := false
			for _, r := range realReturns(f) {
				if !returnsNilError(r) {
					continue
				}
				if got, _ := reach(f, prs[0], isInstr(r), newCuts().addEdges(loopDone)); got != nil {
					early = true
				}
			}
			c.verdict(c.fnKey(f)+":all-remounted", prs[0].Pos(), !early && len(loopDone) > 0, "restore succeeds only after every selected snapshot was attempted", "restore returns success from inside the loop: snapshots later in the walk order are never re-mounted")
		}
	}

	c.clause("C09.e", "T5", "one constant marks remote snapshots: written in Prepare, read in restore, checkAvailability and the cleanup scan", 4)
	for _, spec := range []struct {
		fn     string
		write  bool
	}{{"(*snapshotter).Prepare", true}, {"(*snapshotter).restoreRemoteSnapshot", false}, {"(*snapshotter).checkAvailability", false}, {"(*snapshotter).getCleanupDirectories", false}} {
		f := c.mustFn(snapPkg, spec.fn)
		if f == nil {
			continue
		}
		lks, ups := labelKeyOps(f, rl)
		n := len(lks)
		if spec.write {
			n = len(ups)
		}
		// no other constant label key containing "snapshot/remote"-like spelling: compare against all constant keys on Labels maps
		c.verdict(c.fnKey(f)+":remote-label-key", f.Pos(), n >= 1, "uses the remoteLabel constant ("+rl+")", "does not use the shared remote-label constant: snapshots marked by Prepare are not recognised here")
	}
	// remote label value set is the shared constant
	_ = fns

	clauseMountRegistrationRolledBack(c, "C09.g")
	clauseKnownMountIsLive(c, "C09.h")
	clauseFreshDecodeTarget(c, "C09.i")
	clauseCleanupSkipsOnlyLive(c, "C09.j")
	clauseReclaimReallyRemoves(c, "C09.l")
	clauseRestartFlagWiring(c, "C09.k")
	c.clause("C09.f", "T5", "orphans are reclaimable: the cleanup scan lists every directory and keeps exactly the ids in storage.IDMap", 2)
	if f := c.mustFn(snapPkg, "(*snapshotter).getCleanupDirectories"); f != nil {
		idm := callsIn(f, func(id string, _ ssa.CallInstruction) bool { return strings.HasSuffix(id, "storage.IDMap") })
		full := false
		for _, ci := range callsIn(f, idIs("os.(*File).Readdirnames")) {
			if n, ok := constInt(ci.Common().Args[1]); ok && n <= 0 {
				full = true
			}
		}
		c.verdict(c.fnKey(f)+":idmap", f.Pos(), len(idm) == 1, "ids come from storage.IDMap of the same transaction", "cleanup does not consult the metadata id map")
		c.verdict(c.fnKey(f)+":lists-all", f.Pos(), full, "whole directory listed", "partial listing")
		// opened directory is <root>/snapshots
		okDir := false
		for _, oc := range callsIn(f, idIs("os.Open")) {
			for _, v := range reachingVals(oc.Common().Args[0]) {
				if jc, ok := stripConv(v).(*ssa.Call); ok && calleeID(jc) == "path/filepath.Join" {
					parts := varargs(jc.Call.Args[0])
					if len(parts) == 2 {
						if s, ok := constString(parts[1]); ok && s == "snapshots" {
							okDir = true
						}
					}
				}
			}
		}
		c.verdict(c.fnKey(f)+":scans-snapshots-dir", f.Pos(), okDir, "scans <root>/snapshots", "scans a different directory than the one snapshots are created in")
	}
	c.assume("os.Rename is atomic within one filesystem; bolt commits are durable; containerd's storage package is transactional")
}

type valField struct {
	base ssa.Value
	name string
}

// fieldOfValue: v is field `name` of struct value/variable base.
func fieldOfValue(v ssa.Value) (valField, bool) {
	v = stripConv(v)
	if fl, ok := v.(*ssa.Field); ok {
		return valField{fl.X, fl.X.Type().Underlying().(*types.Struct).Field(fl.Field).Name()}, true
	}
	if p, ok := loadOf(v); ok {
		if fa, ok := p.(*ssa.FieldAddr); ok {
			return valField{fa.X, fieldName(fa)}, true
		}
	}
	return valField{}, false
}

func isConstBool(v ssa.Value, want bool) bool {
	k, ok := v.(*ssa.Const)
	if !ok || k.Value == nil {
		return false
	}
	if want {
		return k.Value.String() == "true"
	}
	return k.Value.String() == "false"
}

// varargs resolves the elements of a variadic argument slice built at the call site.
func varargs(v ssa.Value) []ssa.Value {
	sl, ok := v.(*ssa.Slice)
	if !ok {
		return nil
	}
	al, ok := sl.X.(*ssa.Alloc)
	if !ok {
		return nil
	}
	arr, ok := deref(al.Type()).Underlying().(*types.Array)
	if !ok {
		return nil
	}
	out := make([]ssa.Value, arr.Len())
	for _, r := range *al.Referrers() {
		ia, ok := r.(*ssa.IndexAddr)
		if !ok {
			continue
		}
		idx, ok := constInt(ia.Index)
		if !ok || idx < 0 || idx >= arr.Len() {
			continue
		}
		for _, rr := range *ia.Referrers() {
			if st, ok := rr.(*ssa.Store); ok {
				out[idx] = st.Val
			}
		}
	}
	return out
}

func uniq(in []string) []string {
	m := map[string]bool{}
	for _, s := range in {
		m[s] = true
	}
	return sortedKeys(m)
}

func fromIDMap(v ssa.Value) bool {
	for _, x := range reachingVals(v) {
		if e, ok := stripConv(x).(*ssa.Extract); ok && e.Index == 0 {
			if call, ok := e.Tuple.(*ssa.Call); ok && strings.HasSuffix(calleeID(call), "storage.IDMap") {
				return true
			}
		}
	}
	return false
}

// clauseCommitAfterRename: createSnapshot makes the snapshot visible in the metadata only after its directory exists under
// its final name (shared by C09 and C08).
func clauseCommitAfterRename(c *Ctx, id string) {
	c.clause(id, "T1+T2", "createSnapshot commits only after the rename to the final directory; every error exit after directory creation runs the cleanup", 3)
	if f := c.mustFn(snapPkg, "(*snapshotter).createSnapshot"); f != nil {
		rens := callsIn(f, idIs("os.Rename"))
		coms := callsIn(f, func(id string, ci ssa.CallInstruction) bool {
			return ci.Common().IsInvoke() && ci.Common().Method.Name() == "Commit"
		})
		if len(rens) != 1 || len(coms) != 1 {
			c.bad(c.fnKey(f)+":shape", f.Pos(), fmt.Sprintf("%d renames / %d commits (1/1 on the pinned tree)", len(rens), len(coms)))
		} else {
			okp, path := mustPass(f, coms[0], newCuts().addEdges(successEdges(f, rens[0])))
			c.verdict(c.fnKey(f)+":rename-before-commit", coms[0].Pos(), okp, "metadata committed only after the directory has its final name", "metadata can be committed before the snapshot directory exists under its id: "+c.pathStr(f, path))
			// rename target = Join(snapshotDir, s.ID); source = temp dir created by prepareDirectory
			tgtOK := false
			for _, v := range reachingVals(rens[0].Common().Args[1]) {
				if jc, ok := stripConv(v).(*ssa.Call); ok && calleeID(jc) == "path/filepath.Join" {
					parts := varargs(jc.Call.Args[0])
					if len(parts) == 2 {
						if fl, ok := stripConv(parts[1]).(*ssa.Field); ok && fl.X.Type().Underlying().(*types.Struct).Field(fl.Field).Name() == "ID" {
							tgtOK = true
						}
						if _, ok := isFieldLoadAny(parts[1], "ID"); ok {
							tgtOK = true
						}
					}
				}
			}
			c.verdict(c.fnKey(f)+":rename-target", rens[0].Pos(), tgtOK, "renamed to snapshots/<snapshot id>", "directory is not renamed to the snapshot's id")
			// CreateSnapshot (metadata) before rename, in the same transaction
			crs := callsIn(f, func(id string, _ ssa.CallInstruction) bool { return strings.HasSuffix(id, "storage.CreateSnapshot") })
			okc := len(crs) == 1
			if okc {
				okc, _ = mustPass(f, rens[0], newCuts().addEdges(successEdges(f, crs[0])))
			}
			c.verdict(c.fnKey(f)+":create-before-rename", rens[0].Pos(), okc, "id allocated by storage.CreateSnapshot before the rename", "rename happens without a successfully created metadata entry")
		}
		// cleanup defer: a deferred literal, registered before prepareDirectory, that calls cleanupSnapshotDirectory on err != nil for td and path
		var cleanupLit *ssa.Function
		var deferAt ssa.Instruction
		for _, lit := range f.AnonFuncs {
			if len(callsIn(lit, idIs(snapPkg+".(*snapshotter).cleanupSnapshotDirectory"))) >= 1 {
				for _, u := range literalUses(lit) {
					if d, ok := u.(*ssa.Defer); ok {
						cleanupLit = lit
						deferAt = d
					}
				}
			}
		}
		good := cleanupLit != nil
		if good {
			for _, pd := range callsIn(f, idIs(snapPkg+".(*snapshotter).prepareDirectory")) {
				okp, _ := mustPass(f, pd, newCuts().addInstr(deferAt))
				good = good && okp
			}
			// inside: guarded by err != nil; both td and path handled
			n := len(callsIn(cleanupLit, idIs(snapPkg+".(*snapshotter).cleanupSnapshotDirectory")))
			nn := condEdges(cleanupLit, func(cond ssa.Value) int {
				return -nilTest(cond, func(x ssa.Value) bool {
					p, ok := loadOf(stripConv(x))
					if !ok {
						return false
					}
					a, ok := cellRoot(p).(*ssa.Alloc)
					return ok && a.Parent() == f && isErrorType(deref(a.Type()))
				})
			})
			good = good && n == 2 && len(nn) > 0
			for _, ci := range callsIn(cleanupLit, idIs(snapPkg+".(*snapshotter).cleanupSnapshotDirectory")) {
				okp, _ := mustPass(cleanupLit, ci, newCuts().addEdges(nn))
				good = good && okp
			}
		}
		// the temp-dir variable is forgotten only after the rename succeeded
		if good && len(rens) == 1 {
			se := successEdges(f, rens[0])
			for _, a := range f.Locals {
				if a.Comment != "td" {
					continue
				}
			}
			eachInstr(f, func(i ssa.Instruction) {
				st, ok := i.(*ssa.Store)
				if !ok {
					return
				}
				al, ok := st.Addr.(*ssa.Alloc)
				if !ok || al.Comment != "td" {
					return
				}
				if sv, ok := constString(st.Val); ok && sv == "" {
					if okp, _ := mustPass(f, st, newCuts().addEdges(se)); !okp {
						// the initial zero value is not a store; any reset before the rename hides the temp dir from cleanup
						good = false
					}
				}
			})
		}
		c.verdict(c.fnKey(f)+":cleanup-on-error", f.Pos(), good, "a deferred block registered before directory creation reclaims the temp and final directory on every error exit", "an error exit of createSnapshot can leave a half-made directory behind without reclaiming it")
	}

}
