package main

import (
	"fmt"
	"go/token"
	"go/types"
	"strings"

	"golang.org/x/tools/go/ssa"
)

func init() {
	register("C15", "Structural premises of 'prefetch makes reads local; waiting is bounded': prefetch always releases its waiter (deferred) and the wait is a select with a timeout case; with a no-prefetch landmark no fetch call is reachable, with a prefetch landmark the range is that landmark's offset, otherwise the configured size capped by the blob size, and the decompress filter uses the same range that was downloaded; prefetch and background fetch bodies run only inside their sync.Once; the background walk reads the whole blob without a filter; the first availability check waits for prefetch unless disabled. 'No further registry request' and behaviour under stalls are not decided.", runC15)
	register("C20", "Constant/table agreement and gating of the label protocol: the label keys written at pull time equal the keys read at mount time (default handler ↔ default reader, containerd's CRI constants ↔ CRI reader, shared urls prefix and skip/prefetch labels); both readers return a source only after reference and digest labels were present and parsed and every listed layer digest parsed; growing label values are extended only after labels.Validate of the extended value; the index in the urls.<i> key is the index of the same iteration/position. Label length limits themselves and alignment with interleaved non-layer children are not decided.", runC20)
}

func runC15(c *Ctx) {
	const lp = "fs/layer"
	pf := c.mustFn(lp, "(*layer).prefetch")

	// ---------- C15.a ----------
	c.clause("C15.a", "T2", "prefetch defers prefetchWaiter.done() before any exit; wait() is a select with a time.After case; WaitForPrefetchCompletion only calls wait", 3)
	if pf != nil {
		var d *ssa.Defer
		eachInstr(pf, func(i ssa.Instruction) {
			if df, ok := i.(*ssa.Defer); ok && calleeID(df) == lp+".(*waiter).done" {
				d = df
			}
		})
		good := d != nil
		if good {
			if got, _ := reach(pf, nil, isReturn, newCuts().addInstr(d)); got != nil {
				good = false
			}
		}
		c.verdict(c.fnKey(pf)+":waiter-released", pf.Pos(), good, "done() deferred before every exit", "an exit of prefetch does not release the waiter: the first Check blocks until the timeout")
	}
	if f := c.mustFn(lp, "(*waiter).wait"); f != nil {
		timed, doneCase := false, false
		eachInstr(f, func(i ssa.Instruction) {
			if sel, ok := i.(*ssa.Select); ok {
				for _, st := range sel.States {
					if call, ok := stripConv(st.Chan).(*ssa.Call); ok && calleeID(call) == "time.After" && isParam(call.Call.Args[0]) {
						timed = sel.Blocking
					}
					if _, ok := isFieldLoad(st.Chan, lp+".waiter", "doneCh"); ok {
						doneCase = true
					}
				}
			}
		})
		// no other blocking operation
		other := false
		eachInstr(f, func(i ssa.Instruction) {
			if u, ok := i.(*ssa.UnOp); ok && u.Op == token.ARROW {
				other = true
			}
		})
		c.verdict(c.fnKey(f), f.Pos(), timed && doneCase && !other, "blocks only in select{timeout, done}", "waiting for prefetch can block without a timeout")
	}
	if f := c.mustFn(lp, "(*waiter).done"); f != nil {
		cl := 0
		for _, g := range withAnon(f) {
			for _, ci := range callsIn(g, idIs("builtin.close")) {
				cl++
				c.verdict(c.fnKey(f)+":close-once", ci.Pos(), onceDo(g) != nil, "channel closed inside doneOnce.Do", "done() can close the channel twice (panic)")
			}
		}
		if cl == 0 {
			c.bad(c.fnKey(f)+":close", f.Pos(), "done() never closes the channel")
		}
	}
	if f := c.mustFn(lp, "(*layer).WaitForPrefetchCompletion"); f != nil {
		ws := callsIn(f, idIs(lp+".(*waiter).wait"))
		good := len(ws) == 1
		if good {
			_, good = isFieldLoad(ws[0].Common().Args[1], lp+".Resolver", "prefetchTimeout")
		}
		c.verdict(c.fnKey(f), f.Pos(), good, "waits with the configured prefetch timeout", "WaitForPrefetchCompletion does not use the bounded wait")
	}

	// ---------- C15.b ----------
	c.clause("C15.b", "T1+T9", "no-prefetch landmark ⇒ no fetch; prefetch landmark ⇒ range = its offset; otherwise the size is capped by the blob size; the decompress filter compares with the range that was downloaded", 4)
	if pf != nil {
		npfl, pfl := c.constVal("estargz", "NoPrefetchLandmark"), c.constVal("estargz", "PrefetchLandmark")
		var npCall, pCall ssa.CallInstruction
		host := pf // the function that looks the landmarks up: prefetch itself, or a helper it owns
		for _, hf := range c.withHelpers(pf) {
			for _, g := range callsIn(hf, func(id string, ci ssa.CallInstruction) bool {
				return ci.Common().IsInvoke() && ci.Common().Method.Name() == "GetChild"
			}) {
				if s, ok := constString(g.Common().Args[1]); ok {
					if s == npfl {
						npCall, host = g, hf
					}
					if s == pfl {
						pCall = g
					}
				}
			}
		}
		var hostCall *ssa.Call // the call of the helper in prefetch
		if host != pf {
			for _, ci := range callsIn(pf, func(_ string, ci ssa.CallInstruction) bool { return staticFn(ci) == host }) {
				hostCall, _ = ci.(*ssa.Call)
			}
		}
		caches := callsIn(pf, func(id string, ci ssa.CallInstruction) bool {
			return id == "fs/reader.(*VerifiableReader).Cache" || (ci.Common().IsInvoke() && ci.Common().Method.Name() == "Cache") || id == lp+".(*blobRef).Cache" || strings.HasSuffix(id, ".Cache")
		})
		if npCall == nil || pCall == nil || len(caches) < 2 {
			c.bad(c.fnKey(pf)+":shape", pf.Pos(), fmt.Sprintf("landmark lookups or fetch calls not found (no-prefetch:%v prefetch:%v cache calls:%d)", npCall != nil, pCall != nil, len(caches)))
		} else {
			se := successEdges(host, npCall)
			bad := false
			if host == pf {
				for _, e := range se {
					first := pf.Blocks[e.from].Succs[e.succ].Instrs[0]
					for _, cc := range caches {
						if g, _ := reach(pf, first, isInstr(cc), nil); g != nil || first == ssa.Instruction(cc) {
							bad = true
						}
					}
				}
			} else {
				// the helper reports the landmark through a bool result: every return reachable from the success edge of
				// the lookup has that result true, and prefetch reaches a fetch only on the false edge of that result
				k := -1
				res := host.Signature.Results()
				for i := 0; i < res.Len(); i++ {
					if res.At(i).Type().String() == "bool" {
						k = i
					}
				}
				if k < 0 || hostCall == nil || pCall.Parent() != host {
					bad = true
				} else {
					for _, e := range se {
						first := host.Blocks[e.from].Succs[e.succ].Instrs[0]
						for _, r := range realReturns(host) {
							if first != ssa.Instruction(r) {
								if g, _ := reach(host, first, isInstr(r), nil); g == nil {
									continue
								}
							}
							for _, rv := range retVals(r, k) {
								if !isConstBool(rv, true) {
									bad = true
								}
							}
						}
					}
					var flag ssa.Value
					for _, r := range *hostCall.Referrers() {
						if ex, ok := r.(*ssa.Extract); ok && ex.Index == k {
							flag = ex
						}
					}
					if flag == nil {
						bad = true
					} else {
						fe := boolEdges(pf, flag, false)
						for _, cc := range caches {
							if o, _ := mustPass(pf, cc, newCuts().addEdges(fe)); !o || len(fe) == 0 {
								bad = true
							}
						}
					}
				}
			}
			c.verdict(c.fnKey(pf)+":no-prefetch-landmark", npCall.Pos(), !bad && len(se) > 0, "with a no-prefetch landmark nothing is fetched", "a layer with the no-prefetch landmark still triggers prefetch traffic")
			// the blob.Cache size argument: phi of {landmark offset, blob.Size(), parameter}
			var blobCache ssa.CallInstruction
			for _, cc := range caches {
				if len(cc.Common().Args) >= 2 {
					if n, ok := constInt(cc.Common().Args[0]); ok && n == 0 {
						blobCache = cc
					}
					if cc.Common().IsInvoke() {
						if n, ok := constInt(cc.Common().Args[0]); ok && n == 0 {
							blobCache = cc
						}
					}
				}
			}
			if blobCache == nil {
				c.bad(c.fnKey(pf)+":download-range", pf.Pos(), "download of [0, prefetchSize) not found")
			} else {
				args := blobCache.Common().Args
				sizeArg := args[len(args)-1]
				if blobCache.Common().IsInvoke() {
					sizeArg = args[1]
				} else if len(args) >= 3 {
					sizeArg = args[2]
				}
				srcs := valueSourcesIP(sizeArg, pf, 0)
				hasOffset, hasCap, hasParam := false, false, false
				for _, v := range srcs {
					v = stripConv(v)
					if e, ok := v.(*ssa.Extract); ok {
						if call, ok := e.Tuple.(*ssa.Call); ok && call.Call.IsInvoke() && call.Call.Method.Name() == "GetOffset" {
							// offset of the prefetch landmark's id
							if ie, ok := stripConv(call.Call.Args[0]).(*ssa.Extract); ok && ie.Tuple == pCall.Value() {
								hasOffset = true
							}
						}
					}
					if call, ok := v.(*ssa.Call); ok && strings.HasSuffix(calleeID(call), ".Size") {
						hasCap = true
					}
					if _, ok := stripConv(resolveParam(v)).(*ssa.Parameter); ok {
						hasParam = true
					}
					if cellHasParamStore(resolveParam(v)) {
						hasParam = true
					}
				}
				c.verdict(c.fnKey(pf)+":download-range", blobCache.Pos(), hasOffset && hasCap && hasParam, "range is the landmark offset, or the configured size capped by the blob size", fmt.Sprintf("prefetch range sources changed (landmark offset:%v, blob-size cap:%v, configured size:%v)", hasOffset, hasCap, hasParam))
				// cap: prefetchSize > blob.Size() ⇒ blob.Size()
				capOK := false
				for _, hf := range c.withHelpers(pf) {
					eachInstr(hf, func(i ssa.Instruction) {
						if b, ok := i.(*ssa.BinOp); ok && b.Op == token.GTR && (isParamish(b.X) || cellHasParamStore(b.X)) {
							if call, ok := stripConv(b.Y).(*ssa.Call); ok && strings.HasSuffix(calleeID(call), ".Size") {
								capOK = true
							}
						}
					})
				}
				c.verdict(c.fnKey(pf)+":size-cap", pf.Pos(), capOK, "configured size compared with the blob size", "configured prefetch size is not capped by the blob size")
				// the filter literal compares with the same variable
				filterOK := false
				for _, lit := range pf.AnonFuncs {
					if len(lit.Params) == 1 && lit.Signature.Results().Len() == 1 {
						eachInstr(lit, func(i ssa.Instruction) {
							if b, ok := i.(*ssa.BinOp); ok && b.Op == token.LSS && isParam(b.X) {
								// b.Y is a load of the captured prefetchSize cell, the same cell the download size was read from
								if p, ok := loadOf(stripConv(b.Y)); ok {
									if sp, ok := loadOf(stripConv(sizeArg)); ok {
										if cellRoot(p) != nil && cellRoot(p) == cellRoot(sp) {
											filterOK = true
										}
									}
								}
							}
						})
					}
				}
				c.verdict(c.fnKey(pf)+":filter-same-range", pf.Pos(), filterOK, "files are decompressed iff their offset lies in the downloaded range", "the decompress filter uses another bound than the downloaded range")
				// early release of the waiters is decided on the size that is downloaded
				isThreshold := func(v ssa.Value) bool {
					for _, x := range append([]ssa.Value{v}, reachingVals(v)...) {
						if _, ok := isFieldLoadAny(x, "PrefetchAsyncSize"); ok {
							return true
						}
					}
					return false
				}
				nCmp := 0
				eachInstr(pf, func(i ssa.Instruction) {
					b, ok := i.(*ssa.BinOp)
					if !ok || (b.Op != token.GTR && b.Op != token.GEQ && b.Op != token.LSS && b.Op != token.LEQ) {
						return
					}
					var other ssa.Value
					if isThreshold(b.Y) {
						other = b.X
					} else if isThreshold(b.X) {
						other = b.Y
					}
					if other == nil {
						return
					}
					if _, isConst := stripConv(other).(*ssa.Const); isConst {
						return // threshold > 0: feature switch
					}
					nCmp++
					c.verdict(c.fnKey(pf)+":async-threshold-on-download-size", b.Pos(), strictSame(other, sizeArg), "the async threshold is compared with the size that is downloaded", "waiters are released early on a size that is not the one downloaded (landmark offset / blob-size cap applied later): WaitForPrefetchCompletion returns while a small, must-wait prefetch still runs")
				})
				if nCmp == 0 {
					// no early release at all is fine; an unconditional explicit done() is not
					for _, d := range callsIn(pf, idIs(lp+".(*waiter).done")) {
						if _, isDefer := d.(*ssa.Defer); !isDefer {
							c.bad(c.fnKey(pf)+":early-release", d.Pos(), "waiters are released early without comparing the download size with the async threshold")
						}
					}
				}
			}
		}
	}

	// ---------- C15.f ----------
	c.clause("C15.f", "T1", "the cache walk skips a regular file without caching it only as the TOC file at the layer root (or through the offset filter / an error)", 1)
	if f := c.mustFn("fs/reader", "(*VerifiableReader).cacheWithReader"); f != nil {
		tocName := c.constVal("estargz", "TOCTarName")
		var cb *ssa.Function
		for _, lit := range f.AnonFuncs {
			for _, u := range literalUses(lit) {
				if ci, ok := u.(*ssa.Call); ok && ci.Call.IsInvoke() && ci.Call.Method.Name() == "ForeachChild" {
					cb = lit
				}
			}
		}
		if cb == nil {
			c.bad(c.fnKey(f)+":walk", f.Pos(), "the walk no longer enumerates children through ForeachChild")
		} else {
			fvNamed := func(v ssa.Value, name string) bool {
				p, ok := loadOf(stripConv(v))
				if !ok {
					return false
				}
				fv, ok := p.(*ssa.FreeVar)
				return ok && fv.Name() == name
			}
			rootEq := condEdges(cb, func(cond ssa.Value) int {
				b, ok := cond.(*ssa.BinOp)
				if ok && b.Op == token.EQL && ((fvNamed(b.X, "dirID") && fvNamed(b.Y, "rootID")) || (fvNamed(b.X, "rootID") && fvNamed(b.Y, "dirID"))) {
					return 1
				}
				return 0
			})
			nameEq := condEdges(cb, func(cond ssa.Value) int {
				b, ok := cond.(*ssa.BinOp)
				if !ok || b.Op != token.EQL {
					return 0
				}
				for _, op := range []ssa.Value{b.X, b.Y} {
					if s, ok := constString(op); ok && s == tocName && tocName != "" {
						return 1
					}
				}
				return 0
			})
			var regular []edge
			for _, ci := range callsIn(cb, func(id string, _ ssa.CallInstruction) bool { return strings.HasSuffix(id, "FileMode).IsRegular") }) {
				regular = append(regular, boolEdges(cb, ci.Value(), true)...)
			}
			offs := callsIn(cb, func(id string, ci ssa.CallInstruction) bool {
				return ci.Common().IsInvoke() && ci.Common().Method.Name() == "GetOffset"
			})
			good := len(regular) > 0 && len(offs) > 0 && len(rootEq) > 0 && len(nameEq) > 0
			detail := ""
			if good {
				for _, e := range regular {
					first := cb.Blocks[e.from].Succs[e.succ].Instrs[0]
					for _, cutE := range [][]edge{rootEq, nameEq} {
						k := newCuts().addCalls(offs).addEdges(cutE)
						if isReturn(first) {
							good = false
						} else if hit, path := reach(cb, first, isReturn, k); hit != nil {
							good = false
							detail = c.pathStr(cb, path)
						}
					}
				}
			}
			c.verdict(c.fnKey(cb)+":skip-only-root-toc", cb.Pos(), good, "a regular file bypasses the caching steps only when dirID == rootID and name == "+tocName, "a regular file can be skipped by the prefetch/background-fetch walk without being the TOC file of the layer root: after a successful background fetch it is not readable offline "+detail)
		}
	}

	clauseCacheReleaseDiscipline(c, "C15.g")
	clauseBlobKeyStable(c, "C15.h")

	// ---------- C15.c ----------
	c.clause("C15.c", "T1", "prefetch and backgroundFetch bodies run only inside prefetchOnce / backgroundFetchOnce", 2)
	for _, x := range [][3]string{{"(*layer).prefetch", "prefetchOnce", "(*layer).Prefetch"}, {"(*layer).backgroundFetch", "backgroundFetchOnce", "(*layer).BackgroundFetch"}} {
		sites := c.callSitesOf(idIs(lp+"."+x[0]), c.liveFuncs())
		for _, s := range sites {
			oc := onceDo(s.caller)
			good := oc != nil
			if good {
				fa, ok := oc.Call.Args[0].(*ssa.FieldAddr)
				good = ok && fieldName(fa) == x[1]
			}
			c.verdict(c.fnKey(s.caller)+":once:"+x[0], s.instr.Pos(), good && c.fnKey(enclosingRoot(s.caller)) == lp+"."+x[2], "runs inside "+x[1]+".Do", x[0]+" can run more than once per layer object")
		}
		if len(sites) != 1 {
			c.bad(lp+"."+x[0]+":call-sites", token.NoPos, fmt.Sprintf("%d call sites (1 on the pinned tree)", len(sites)))
		}
	}

	// ---------- C15.d ----------
	c.clause("C15.d", "T9", "backgroundFetch walks the layer through a reader covering the whole blob and without an offset filter", 1)
	if f := c.mustFn(lp, "(*layer).backgroundFetch"); f != nil {
		good := false
		for _, cc := range callsIn(f, idIs("fs/reader.(*VerifiableReader).Cache")) {
			opts := varargs(cc.Common().Args[1])
			hasReader, hasFilter := false, false
			for _, o := range opts {
				if call, ok := stripConv(o).(*ssa.Call); ok {
					switch calleeID(call) {
					case "fs/reader.WithReader":
						if sr, ok := stripConv(call.Call.Args[0]).(*ssa.Call); ok && calleeID(sr) == "io.NewSectionReader" {
							off, _ := constInt(sr.Call.Args[1])
							if sz, ok := stripConv(sr.Call.Args[2]).(*ssa.Call); ok && strings.HasSuffix(calleeID(sz), ".Size") && off == 0 {
								hasReader = true
							}
						}
					case "fs/reader.WithFilter":
						hasFilter = true
					}
				}
			}
			good = hasReader && !hasFilter
		}
		c.verdict(c.fnKey(f), f.Pos(), good, "whole blob [0, Size) read in the background, no filter", "background fetch does not cover the whole layer")
	}

	// ---------- C15.e ----------
	c.clause("C15.e", "T1", "fs.Check waits for prefetch completion unless noprefetch, after the connectivity check succeeded", 1)
	if f := c.mustFn("fs", "(*filesystem).Check"); f != nil {
		ws := callsIn(f, idIs(lp+".(Layer).WaitForPrefetchCompletion"))
		np := condEdges(f, func(cond ssa.Value) int {
			if _, ok := isFieldLoad(cond, "fs.filesystem", "noprefetch"); ok {
				return -1
			}
			return 0
		})
		good := len(ws) == 1 && len(np) > 0
		if good {
			// every nil return passes the wait or the noprefetch edge
			for _, r := range realReturns(f) {
				if returnsNilError(r) {
					if g, _ := reach(f, nil, isInstr(r), newCuts().addInstr(ws[0]).addEdges(condEdges(f, func(cond ssa.Value) int {
						if _, ok := isFieldLoad(cond, "fs.filesystem", "noprefetch"); ok {
							return 1
						}
						return 0
					}))); g != nil {
						good = false
					}
				}
			}
			// after check: the wait is not reachable from the failure edge of fs.check
			for _, ck := range callsIn(f, idIs("fs.(*filesystem).check")) {
				for _, e := range nonNilEdges(f, errResults(ck)[0]) {
					first := f.Blocks[e.from].Succs[e.succ].Instrs[0]
					if g, _ := reach(f, first, isInstr(ws[0]), nil); g != nil {
						good = false
					}
				}
			}
		}
		c.verdict(c.fnKey(f), f.Pos(), good, "success only after waiting for prefetch (unless disabled)", "Check can report the layer usable without waiting for prefetch")
	}
	c.assume("blob.Cache(0,n) downloads [0,n); VerifiableReader.Cache caches every file whose first chunk passes the filter")
}

func runC20(c *Ctx) {
	const sp = "fs/source"
	const ctd = "github.com/containerd/containerd/v2/pkg/snapshotters"

	// ---------- C20.a ----------
	c.clause("C20.a", "T5", "protocol constants agree: CRI reader ↔ containerd's pkg/snapshotters, urls prefix and urls label between fs/source and service, layers label used by the extra-labels handler", 7)
	eq := func(key, a, b string) {
		c.verdict(key, token.NoPos, a == b && !strings.HasPrefix(a, "\x00") && a != "", "both sides: "+a, fmt.Sprintf("label constants differ: %q vs %q", a, b))
	}
	eq("cri:reference", c.constVal("service", "targetRefLabel"), c.constVal(ctd, "TargetRefLabel"))
	eq("cri:layer-digest", c.constVal("service", "targetLayerDigestLabel"), c.constVal(ctd, "TargetLayerDigestLabel"))
	eq("cri:image-layers", c.constVal("service", "targetImageLayersLabel"), c.constVal(ctd, "TargetImageLayersLabel"))
	eq("extra-handler:image-layers", c.constVal(sp, "targetImageLayersLabelContainerd"), c.constVal(ctd, "TargetImageLayersLabel"))
	eq("urls-prefix", c.constVal(sp, "targetImageURLsLabelPrefix"), c.constVal("service", "targetImageURLsLabelPrefix"))
	eq("urls-label", c.constVal(sp, "targetURLsLabel"), c.constVal("service", "targetURLsLabel"))
	// the prefix is the urls label plus "."
	c.verdict("urls-prefix-shape", token.NoPos, c.constVal(sp, "targetImageURLsLabelPrefix") == c.constVal(sp, "targetURLsLabel")+".", "urls.<i> keys extend the urls label", "urls prefix is not '<urls label>.'")

	// ---------- C20.b ----------
	c.clause("C20.b", "T5", "every key the default handler stores is read by the default reader or by fs.Mount; every mandatory key read is stored", 2)
	constKeys := func(f *ssa.Function, write bool) map[string]bool {
		out := map[string]bool{}
		for _, g := range withAnon(f) {
			eachInstr(g, func(i ssa.Instruction) {
				switch x := i.(type) {
				case *ssa.MapUpdate:
					if write {
						if s, ok := constString(x.Key); ok {
							out[s] = true
						} else if b, ok := stripConv(x.Key).(*ssa.BinOp); ok && b.Op == token.ADD {
							if s, ok := constString(b.X); ok {
								out[s+"<i>"] = true
							}
						} else {
							for _, v := range reachingVals(x.Key) {
								if b, ok := stripConv(v).(*ssa.BinOp); ok && b.Op == token.ADD {
									if s, ok := constString(b.X); ok {
										out[s+"<i>"] = true
									}
								}
							}
						}
					}
				case *ssa.Lookup:
					if !write {
						if s, ok := constString(x.Index); ok {
							out[s] = true
						} else if b, ok := stripConv(x.Index).(*ssa.BinOp); ok && b.Op == token.ADD {
							if s, ok := constString(b.X); ok {
								out[s+"<i>"] = true
							}
						}
					}
				}
			})
		}
		return out
	}
	wf := c.mustFn(sp, "AppendDefaultLabelsHandlerWrapper")
	rf := c.mustFn(sp, "FromDefaultLabels")
	mf := c.mustFn("fs", "(*filesystem).Mount")
	if wf != nil && rf != nil && mf != nil {
		w := constKeys(wf, true)
		r := constKeys(rf, false)
		m := constKeys(mf, false)
		var unread []string
		for k := range w {
			if !r[k] && !m[k] {
				unread = append(unread, k)
			}
		}
		c.verdict("default-labels:written⊆read", wf.Pos(), len(unread) == 0 && len(w) >= 5, fmt.Sprintf("%d keys written, all read", len(w)), "labels written at pull time but never read at mount time: "+strings.Join(unread, ","))
		mand := []string{c.constVal(sp, "targetRefLabel"), c.constVal(sp, "targetDigestLabel")}
		good := true
		for _, k := range mand {
			if !w[k] || !r[k] {
				good = false
			}
		}
		c.verdict("default-labels:mandatory", rf.Pos(), good, "reference and digest labels are written and read", "a mandatory label is not written by the handler or not read by the reader")
	}

	// ---------- C20.c ----------
	c.clause("C20.c", "T1", "both label readers return a source only after the reference and digest labels were present and parsed; every listed layer digest is parsed with an error return", 2)
	for _, x := range [][2]string{{sp, "FromDefaultLabels"}, {"service", "sourceFromCRILabels"}} {
		f := c.mustFn(x[0], x[1])
		if f == nil || len(f.AnonFuncs) != 1 {
			continue
		}
		lit := f.AnonFuncs[0]
		var gates [][]edge
		for _, ci := range callsIn(lit, func(id string, _ ssa.CallInstruction) bool {
			return strings.HasSuffix(id, "reference.Parse") || strings.HasSuffix(id, "go-digest.Parse")
		}) {
			// only those outside loops (reference and target digest): not reachable from itself
			if g, _ := reach(lit, ci, isInstr(ci), nil); g == nil {
				gates = append(gates, successEdges(lit, ci))
			} else {
				// loop digest parse: failure returns an error
				bad := false
				for _, e := range nonNilEdges(lit, errResults(ci)[0]) {
					first := lit.Blocks[e.from].Succs[e.succ].Instrs[0]
					if g2, _ := reach(lit, first, func(i ssa.Instruction) bool {
						r, ok := i.(*ssa.Return)
						return (ok && returnsNilError(r)) || i == ssa.Instruction(ci)
					}, nil); g2 != nil {
						bad = true
					}
				}
				c.verdict(c.fnKey(lit)+":layer-digest-parsed", ci.Pos(), !bad, "a malformed neighbouring digest fails the conversion", "a malformed digest in the layers label is skipped silently")
			}
		}
		// presence tests of two constant keys
		present := condEdges(lit, func(cond ssa.Value) int {
			if e, ok := cond.(*ssa.Extract); ok && e.Index == 1 {
				if lk, ok := e.Tuple.(*ssa.Lookup); ok && lk.CommaOk && isParamish(lk.X) {
					if _, ok := constString(lk.Index); ok {
						return 1
					}
				}
			}
			return 0
		})
		good := len(gates) == 2 && len(present) >= 2
		for _, r := range realReturns(lit) {
			if !returnsNilError(r) {
				continue
			}
			for _, g := range gates {
				if okp, _ := mustPass(lit, r, newCuts().addEdges(g)); !okp {
					good = false
				}
			}
		}
		c.verdict(c.fnKey(lit)+":mandatory-labels", lit.Pos(), good, "a source is produced only after reference and digest were present and parsed", "a source can be produced without a valid reference or digest label")
	}

	// ---------- C20.d ----------
	c.clause("C20.d", "T1", "label values that grow with the manifest are extended only after labels.Validate accepted the extended value", 2)
	type labelAcc struct {
		f    *ssa.Function
		ph   *ssa.Phi
		add  *ssa.BinOp
		vals []ssa.CallInstruction
	}
	var accs []labelAcc
	for _, f := range c.pkgFuncs(sp) {
		eachInstr(f, func(i ssa.Instruction) {
			b, ok := i.(*ssa.BinOp)
			if !ok || b.Op != token.ADD || !isStringType(b.Type()) {
				return
			}
			// accumulation into a loop variable: result flows into a phi that is an operand of this very concatenation
			ph, ok := stripConv(b.X).(*ssa.Phi)
			if !ok {
				return
			}
			feeds := false
			for _, e := range ph.Edges {
				if stripConv(e) == ssa.Value(b) {
					feeds = true
				}
			}
			if !feeds {
				return
			}
			vals := callsIn(f, func(id string, _ ssa.CallInstruction) bool { return strings.HasSuffix(id, "labels.Validate") })
			var se []edge
			for _, v := range vals {
				// validated value = same accumulator + same suffix
				if vb, ok := stripConv(v.Common().Args[1]).(*ssa.BinOp); ok && vb.Op == token.ADD && stripConv(vb.X) == ssa.Value(ph) && stripConv(vb.Y) == stripConv(b.Y) {
					se = append(se, successEdges(f, v)...)
				}
			}
			// the extension takes effect where the concatenation is carried into the next iteration
			okp := true
			for ei, e := range ph.Edges {
				if stripConv(e) != ssa.Value(b) {
					continue
				}
				pred := ph.Block().Preds[ei]
				if o, _ := mustPass(f, pred.Instrs[len(pred.Instrs)-1], newCuts().addEdges(se)); !o {
					okp = false
				}
			}
			c.verdict(c.fnKey(f)+":validated-append", b.Pos(), okp && len(se) > 0, "value extended only after Validate(key, value+next) succeeded", "a label value grows without checking the size limit: Prepare fails for images with many layers/URLs")
			accs = append(accs, labelAcc{f, ph, b, vals})
		})
	}

	// ---------- C20.f ----------
	c.clause("C20.f", "T1", "once labels.Validate rejects an element the accumulation stops: no later element is appended, so the stored list is a prefix of the input (and positions in it equal positions in the input)", 2)
	for _, a := range accs {
		cut := newCuts()
		for _, p := range a.ph.Block().Preds {
			if !a.ph.Block().Dominates(p) {
				for si, s := range p.Succs {
					if s == a.ph.Block() {
						cut.edges[edge{p.Index, si}] = true
					}
				}
			}
		}
		good := true
		n := 0
		for _, v := range a.vals {
			vb, ok := stripConv(v.Common().Args[1]).(*ssa.BinOp)
			if !ok || stripConv(vb.X) != ssa.Value(a.ph) {
				continue
			}
			for _, er := range errResults(v) {
				for _, e := range nonNilEdges(a.f, er) {
					n++
					// explore from the failure side of this branch
					tgt := a.f.Blocks[e.from].Succs[e.succ]
					first := tgt.Instrs[0]
					if first == ssa.Instruction(a.add) {
						good = false
					} else if hit, _ := reach(a.f, first, isInstr(a.add), cut); hit != nil {
						good = false
					}
				}
			}
		}
		if n == 0 {
			c.unk(c.fnKey(a.f)+":stop-at-limit", a.add.Pos(), "no failure branch of labels.Validate found for this accumulator")
			continue
		}
		c.verdict(c.fnKey(a.f)+":stop-at-limit", a.add.Pos(), good, "after a rejected element the loop is left; nothing further is appended", "after labels.Validate rejects an element the loop continues and may append a later one: the list is no longer a prefix in manifest order and urls.<i> positions drift")
	}

	// ---------- C20.g ----------
	c.clause("C20.g", "T5", "a label value is validated against the key it is stored under (the size limit counts key+value)", 4)
	keyEq := func(x, y ssa.Value) bool {
		if sx, ok := constString(x); ok {
			sy, ok2 := constString(y)
			return ok2 && sx == sy
		}
		return sameValue(x, y)
	}
	for _, a := range accs {
		var derives func(v ssa.Value, d int) bool
		derives = func(v ssa.Value, d int) bool {
			if v == nil || d > 6 {
				return false
			}
			v = stripConv(v)
			if v == ssa.Value(a.ph) || v == ssa.Value(a.add) {
				return true
			}
			switch x := v.(type) {
			case *ssa.Call:
				for _, arg := range x.Call.Args {
					if derives(arg, d+1) {
						return true
					}
				}
			case *ssa.Phi:
				for _, e := range x.Edges {
					if derives(e, d+1) {
						return true
					}
				}
			}
			return false
		}
		for _, v := range a.vals {
			vb, ok := stripConv(v.Common().Args[1]).(*ssa.BinOp)
			if !ok || stripConv(vb.X) != ssa.Value(a.ph) {
				continue
			}
			key := stripConv(v.Common().Args[0])
			if par, ok := key.(*ssa.Parameter); ok {
				// helper: every caller stores the result under the key it passed
				pi := -1
				for i, p := range a.f.Params {
					if p == par {
						pi = i
					}
				}
				sites := c.callSitesOf(func(_ string, call ssa.CallInstruction) bool { return staticFn(call) == a.f }, c.liveFuncs())
				for _, cs := range sites {
					cv, ok := cs.instr.(*ssa.Call)
					if !ok || pi < 0 {
						c.unk(c.fnKey(cs.caller)+":validated-key", cs.instr.Pos(), "result of the validated-append helper not used as a value")
						continue
					}
					stored, good := 0, true
					for _, r := range *cv.Referrers() {
						if mu, ok := r.(*ssa.MapUpdate); ok && stripConv(mu.Value) == ssa.Value(cv) {
							stored++
							if !keyEq(mu.Key, cv.Call.Args[pi]) {
								good = false
							}
						}
					}
					ks := "?"
					if s, ok := constString(cv.Call.Args[pi]); ok {
						ks = s
					} else {
						ks = "computed"
					}
					if stored == 0 {
						c.unk(c.fnKey(cs.caller)+":validated-key:"+ks, cs.instr.Pos(), "result of the validated-append helper is not stored directly into a label map")
						continue
					}
					c.verdict(c.fnKey(cs.caller)+":validated-key:"+ks, cs.instr.Pos(), good, "stored under the key the value was validated against", "the value is validated against one key and stored under another: a longer key makes key+value exceed containerd's label size limit")
				}
				continue
			}
			ks, isConst := constString(key)
			if !isConst {
				c.unk(c.fnKey(a.f)+":validated-key", v.Pos(), "validation key is neither a constant nor a parameter")
				continue
			}
			stored, good := 0, true
			eachInstr(a.f, func(i ssa.Instruction) {
				if mu, ok := i.(*ssa.MapUpdate); ok && derives(mu.Value, 0) {
					stored++
					if !keyEq(key, mu.Key) {
						good = false
					}
				}
			})
			if stored == 0 {
				c.unk(c.fnKey(a.f)+":validated-key:"+ks, v.Pos(), "accumulated value is not stored into a label map in this function")
				continue
			}
			c.verdict(c.fnKey(a.f)+":validated-key:"+ks, v.Pos(), good, "stored under the key the value was validated against", "the value is validated against one key and stored under another")
		}
	}

	// ---------- C20.e ----------
	c.clause("C20.e", "T9", "the index formatted into urls.<i> is the index of the iteration that handles that layer (writer) / the position in the split list (readers)", 4)
	checkIdx := func(f *ssa.Function) {
		for _, g := range withAnon(f) {
			eachInstr(g, func(i ssa.Instruction) {
				b, ok := i.(*ssa.BinOp)
				if !ok || b.Op != token.ADD {
					return
				}
				s, ok := constString(b.X)
				if !ok || !strings.HasSuffix(s, "urls.") {
					return
				}
				sp2, ok := stripConv(b.Y).(*ssa.Call)
				if !ok {
					return
				}
				good := false
				switch calleeID(sp2) {
				case "fmt.Sprintf", "fmt.Sprint":
					va := varargs(sp2.Call.Args[len(sp2.Call.Args)-1])
					if len(va) == 1 {
						good = isLoopIndex(stripConv(va[0]))
					}
				case "strconv.Itoa", "strconv.FormatInt", "strconv.FormatUint":
					good = isLoopIndex(stripConv(sp2.Call.Args[0]))
				default:
					return
				}
				c.verdict(c.fnKey(g)+":urls-index", b.Pos(), good, "urls.<i> uses the loop's own index", "the index in urls.<i> is not the loop index of the layer it describes")
			})
		}
	}
	for _, x := range [][2]string{{sp, "AppendDefaultLabelsHandlerWrapper"}, {sp, "FromDefaultLabels"}, {"service", "sourceFromCRILabels"}, {sp, "AppendExtraLabelsHandler"}} {
		if f := c.mustFn(x[0], x[1]); f != nil {
			checkIdx(f)
		}
	}
	// readers: the list whose positions index urls.<i> is the split label itself, not a filtered or
	// re-ordered copy of it (the writer numbered the labels by position in the list it stored)
	for _, x := range [][2]string{{sp, "FromDefaultLabels"}, {"service", "sourceFromCRILabels"}} {
		f := c.mustFn(x[0], x[1])
		if f == nil {
			continue
		}
		for _, g := range withAnon(f) {
			eachInstr(g, func(i ssa.Instruction) {
				ph, ok := i.(*ssa.Phi)
				if !ok || ph.Comment != "rangeindex" {
					return
				}
				// the loop must be one that formats urls.<i>
				uses := false
				eachInstr(g, func(j ssa.Instruction) {
					if b, ok := j.(*ssa.BinOp); ok && b.Op == token.ADD {
						if s, ok := constString(b.X); ok && strings.HasSuffix(s, "urls.") {
							uses = true
						}
					}
				})
				if !uses {
					return
				}
				// find len(x) compared with the index
				var ranged ssa.Value
				eachInstr(g, func(j ssa.Instruction) {
					if b, ok := j.(*ssa.BinOp); ok && b.Op == token.LSS {
						if inc, ok := stripConv(b.X).(*ssa.BinOp); ok && stripConv(inc.X) == ssa.Value(ph) {
							if ln, ok := stripConv(b.Y).(*ssa.Call); ok && calleeID(ln) == "builtin.len" {
								ranged = ln.Call.Args[0]
							}
						}
					}
				})
				if ranged == nil {
					return
				}
				if _, isStr := ranged.Type().Underlying().(*types.Slice); !isStr {
					return
				}
				if sl, ok := ranged.Type().Underlying().(*types.Slice); !ok || sl.Elem().String() != "string" {
					return
				}
				good := true
				for _, rv := range reachingVals(ranged) {
					call, ok := stripConv(rv).(*ssa.Call)
					if !ok || calleeID(call) != "strings.Split" {
						good = false
					}
				}
				c.verdict(c.fnKey(g)+":urls-index-list", ph.Pos(), good, "the loop ranges over the strings.Split result of the layers label", "the list whose positions select urls.<i> is not the split layers label itself (filtered, de-duplicated or re-ordered): positions no longer match the numbering the writer used")
			})
		}
	}
	clauseParsedPrefetchSizeAdopted(c, "C20.h")
	clauseEmptyURLLabelIsNoURL(c, "C20.j")
	clauseLoopGoroutinesOwnTheirVars(c, "C20.i", [][2]string{{"snapshot", "(*snapshotter).checkAvailability"}})
	c.assume("containerd copies descriptor annotations with the containerd.io/snapshot/ prefix into snapshot labels unchanged")
}

func isStringType(t interface{ String() string }) bool { return t.String() == "string" }

// cellHasParamStore: v is a load of a local cell one of whose stores is a parameter (a reassigned, captured parameter).
func cellHasParamStore(v ssa.Value) bool {
	p, ok := loadOf(stripConv(v))
	if !ok {
		return false
	}
	a, ok := p.(*ssa.Alloc)
	if !ok {
		return false
	}
	for _, r := range *a.Referrers() {
		if st, ok := r.(*ssa.Store); ok && st.Addr == a {
			if _, ok := st.Val.(*ssa.Parameter); ok {
				return true
			}
		}
	}
	return false
}

// isLoopIndex: v is the index variable of a range-over-slice loop (go/ssa: phi#rangeindex + 1) or of a 3-clause loop (phi of init and i+1),
// possibly through the per-iteration copy cell.
func isLoopIndex(v ssa.Value) bool {
	v = stripConv(v)
	for _, rv := range reachingVals(v) {
		if rv != v && isLoopIndex(rv) {
			return true
		}
	}
	if b, ok := v.(*ssa.BinOp); ok && b.Op == token.ADD {
		if n, ok := constInt(b.Y); ok && n == 1 {
			if ph, ok := stripConv(b.X).(*ssa.Phi); ok && ph.Comment == "rangeindex" {
				return true
			}
		}
		return false
	}
	if ph, ok := v.(*ssa.Phi); ok && len(ph.Edges) == 2 {
		for _, e := range ph.Edges {
			if b, ok := stripConv(e).(*ssa.BinOp); ok && b.Op == token.ADD && stripConv(b.X) == ssa.Value(ph) {
				if n, ok := constInt(b.Y); ok && n == 1 {
					return true
				}
			}
		}
	}
	return false
}
