package main

import (
	"fmt"
	"go/token"
	"strings"

	"golang.org/x/tools/go/ssa"
)

func init() {
	register("C17", "Structural premises of 'the FUSE manager's record equals its live mounts': every request handler touches the filesystem map, the current filesystem and the store only behind the Ready test under the manager lock; a record is stored exactly on the success edge of a mount and deleted (with the map entry) exactly on the success edge of an unmount; Check/Unmount use the filesystem instance loaded from the map, never the current one; a mountpoint already in the map is not mounted again and a new mount is stored with the instance that mounted it; Init restores the whole bucket through the same mount path after the new filesystem is installed, and a nil filesystem is never dereferenced; one bucket, keyed by mountpoint, one record type. The outcome after injected store failures is not decided.", runC17)
}

func runC17(c *Ctx) {
	const pkg = "fusemanager"
	const srv = pkg + ".Server"
	ready := c.constInt(pkg, "FuseManagerReady")

	handlers := []string{"(*Server).Mount", "(*Server).Check", "(*Server).Unmount"}

	// ---------- C17.a ----------
	c.clause("C17.a", "T1+T4", "Mount/Check/Unmount use fsMap, curFs and the store only after the status==Ready test under lock.RLock; the manager starts not-ready; Close sets not-ready under Lock", 6)
	for _, h := range handlers {
		f := c.mustFn(pkg, h)
		if f == nil {
			continue
		}
		rdy := condEdges(f, func(cond ssa.Value) int {
			b, ok := cond.(*ssa.BinOp)
			if !ok || (b.Op != token.EQL && b.Op != token.NEQ) {
				return 0
			}
			if _, isSt := isFieldLoad(b.X, srv, "status"); !isSt {
				return 0
			}
			if n, ok := constInt(b.Y); !ok || n != ready {
				return 0
			}
			if b.Op == token.EQL {
				return 1
			}
			return -1
		})
		// uses: calls to fm.mount, sync.Map methods on fm.fsMap, store helpers, FileSystem methods
		var uses []ssa.Instruction
		eachInstr(f, func(i ssa.Instruction) {
			ci, ok := asCall(i)
			if !ok {
				return
			}
			if _, isDefer := i.(*ssa.Defer); isDefer {
				return
			}
			id := calleeID(ci)
			switch {
			case id == pkg+".(*Server).mount", id == pkg+".(*Server).storeFuseInfo", id == pkg+".(*Server).removeFuseInfo":
				uses = append(uses, i)
			case strings.HasPrefix(id, "sync.(*Map)."):
				uses = append(uses, i)
			case strings.HasPrefix(id, "snapshot.(FileSystem)."):
				uses = append(uses, i)
			}
		})
		for _, u := range uses {
			okp, path := mustPass(f, u, newCuts().addEdges(rdy))
			held := c.locksAt(u)["fm.lock"] != lockNone
			c.verdict(c.fnKey(f)+":ready-gate:"+calleeID(u.(ssa.CallInstruction)), u.Pos(), okp && held && len(rdy) > 0, "only after status==Ready, under fm.lock", "request handled before initialisation completed or without the manager lock: "+c.pathStr(f, path))
		}
		if len(uses) == 0 {
			c.bad(c.fnKey(f)+":uses", f.Pos(), "handler does nothing")
		}
	}
	if f := c.mustFn(pkg, "NewFuseManager"); f != nil {
		good := false
		for _, a := range c.fieldAccesses(srv, "status", []*ssa.Function{f}) {
			if a.write {
				n, ok := constInt(a.instr.(*ssa.Store).Val)
				good = ok && n != ready
			}
		}
		c.verdict(c.fnKey(f)+":starts-not-ready", f.Pos(), good, "a new manager is not ready", "a new manager starts in the ready state")
	}
	if f := c.mustFn(pkg, "(*Server).Close"); f != nil {
		good := false
		for _, a := range c.fieldAccesses(srv, "status", []*ssa.Function{f}) {
			if a.write {
				n, ok := constInt(a.instr.(*ssa.Store).Val)
				good = ok && n != ready && c.locksAt(a.instr)["fm.lock"] == lockW
			}
		}
		c.verdict(c.fnKey(f)+":not-ready-on-close", f.Pos(), good, "Close marks the manager not ready under the write lock", "Close leaves the manager ready")
	}
	// status is written only under the write lock
	for _, a := range c.fieldAccesses(srv, "status", c.pkgFuncs(pkg)) {
		if !a.write || isFresh(a.base) {
			continue
		}
		held := c.locksAt(a.instr)["fm.lock"] == lockW
		if a.fn.Parent() != nil {
			// Init's deferred literal runs while Init still holds the lock taken at its top
			par := a.fn.Parent()
			locks := callsIn(par, idIs("sync.(*RWMutex).Lock"))
			unl := callsIn(a.fn, idIs("sync.(*RWMutex).Unlock"))
			held = len(locks) == 1 && len(unl) == 1 && dominatesInstr(a.instr, unl[0])
		}
		c.verdict(c.fnKey(a.fn)+":status-write-locked", a.instr.Pos(), held, "status written under the write lock", "status written without the manager's write lock")
	}

	// ---------- C17.b ----------
	c.clause("C17.b", "T1+T2", "the record is stored exactly on the success edge of fm.mount and every successful Mount stored it; map entry and record are deleted exactly on the success edge of fs.Unmount and every successful unmount of a known mountpoint deleted both", 4)
	if f := c.mustFn(pkg, "(*Server).Mount"); f != nil {
		ms := callsIn(f, idIs(pkg+".(*Server).mount"))
		st := callsIn(f, idIs(pkg+".(*Server).storeFuseInfo"))
		if len(ms) != 1 || len(st) != 1 {
			c.bad(c.fnKey(f)+":shape", f.Pos(), fmt.Sprintf("%d mount / %d storeFuseInfo calls (1/1 on the pinned tree)", len(ms), len(st)))
		} else {
			se := successEdges(f, ms[0])
			okp, path := mustPass(f, st[0], newCuts().addEdges(se))
			c.verdict(c.fnKey(f)+":store-only-on-success", st[0].Pos(), okp && len(se) > 0, "record stored only after the mount succeeded", "a record is stored for a mount that failed: "+c.pathStr(f, path))
			bad := false
			for _, r := range realReturns(f) {
				if returnsNilError(r) {
					if okp, _ := mustPass(f, r, newCuts().addInstr(st[0])); !okp {
						bad = true
					}
				}
			}
			c.verdict(c.fnKey(f)+":success-implies-stored", f.Pos(), !bad, "every successful Mount stored its record", "Mount can succeed without recording the mountpoint (lost on manager restart)")
			// record content: this request's mountpoint and labels, current root/config
			good := false
			if al := stripConv(st[0].Common().Args[1]); al != nil {
				mp, lb := false, false
				if a, ok := al.(*ssa.Alloc); ok {
					for _, r := range *a.Referrers() {
						if fa, ok := r.(*ssa.FieldAddr); ok {
							for _, rr := range *fa.Referrers() {
								if s, ok := rr.(*ssa.Store); ok {
									_, isMP := isFieldLoadAny(s.Val, "Mountpoint")
									_, isLB := isFieldLoadAny(s.Val, "Labels")
									if fieldName(fa) == "Mountpoint" && isMP {
										mp = true
									}
									if fieldName(fa) == "Labels" && isLB {
										lb = true
									}
								}
							}
						}
					}
				}
				good = mp && lb
			}
			c.verdict(c.fnKey(f)+":record-content", st[0].Pos(), good, "record carries the request's mountpoint and labels", "record does not carry the request's mountpoint and labels")
			// mount args
			_, a1 := isFieldLoadAny(ms[0].Common().Args[2], "Mountpoint")
			_, a2 := isFieldLoadAny(ms[0].Common().Args[3], "Labels")
			c.verdict(c.fnKey(f)+":mount-args", ms[0].Pos(), a1 && a2, "mounts the request's mountpoint with its labels", "mount uses other arguments than the request's")
		}
	}
	if f := c.mustFn(pkg, "(*Server).Unmount"); f != nil {
		um := callsIn(f, idIs("snapshot.(FileSystem).Unmount"))
		del := callsIn(f, idIs("sync.(*Map).Delete"))
		rm := callsIn(f, idIs(pkg+".(*Server).removeFuseInfo"))
		if len(um) != 1 || len(del) != 1 || len(rm) != 1 {
			c.bad(c.fnKey(f)+":shape", f.Pos(), fmt.Sprintf("%d Unmount / %d Delete / %d removeFuseInfo (1/1/1 on the pinned tree)", len(um), len(del), len(rm)))
		} else {
			se := successEdges(f, um[0])
			for _, x := range []ssa.CallInstruction{del[0], rm[0]} {
				okp, path := mustPass(f, x, newCuts().addEdges(se))
				c.verdict(c.fnKey(f)+":forget-only-on-success:"+calleeID(x), x.Pos(), okp && len(se) > 0, "forgotten only after the unmount succeeded", "the manager forgets a mount whose unmount failed: "+c.pathStr(f, path))
			}
			for _, e := range se {
				first := f.Blocks[e.from].Succs[e.succ].Instrs[0]
				for _, x := range []ssa.CallInstruction{del[0], rm[0]} {
					bad := false
					if first != ssa.Instruction(x) {
						for _, r := range realReturns(f) {
							if returnsNilError(r) {
								if got, _ := reach(f, first, isInstr(r), newCuts().addInstr(x)); got != nil {
									bad = true
								}
							}
						}
					}
					c.verdict(c.fnKey(f)+":success-implies-forgotten:"+calleeID(x), x.Pos(), !bad, "a successful unmount removes the map entry and the record", "a successful unmount leaves the map entry or the record behind")
				}
			}
		}
	}

	// ---------- C17.c ----------
	c.clause("C17.c", "T9", "Check and Unmount call the filesystem instance loaded from fsMap for that mountpoint, never curFs", 2)
	for _, h := range []string{"(*Server).Check", "(*Server).Unmount"} {
		f := c.mustFn(pkg, h)
		if f == nil {
			continue
		}
		loads := callsIn(f, idIs("sync.(*Map).Load"))
		for _, ci := range callsIn(f, func(id string, _ ssa.CallInstruction) bool { return strings.HasPrefix(id, "snapshot.(FileSystem).") }) {
			recv := ci.Common().Value
			fromMap := false
			for _, l := range loads {
				if ta, ok := stripConv(recv).(*ssa.TypeAssert); ok {
					if e, ok := ta.X.(*ssa.Extract); ok && e.Tuple == l.Value() && e.Index == 0 {
						fromMap = true
					}
				}
			}
			_, isCur := isFieldLoad(recv, srv, "curFs")
			c.verdict(c.fnKey(f)+":owner-filesystem", ci.Pos(), fromMap && !isCur, "served by the instance that created the mount", "the request is served by the current filesystem instead of the instance that created the mount")
			// found edge
			var fe []edge
			for _, l := range loads {
				if fv := resultN(l, 1); fv != nil {
					fe = append(fe, boolEdges(f, fv, true)...)
				}
			}
			okp, _ := mustPass(f, ci, newCuts().addEdges(fe))
			c.verdict(c.fnKey(f)+":found-edge", ci.Pos(), okp && len(fe) > 0, "only for mountpoints present in the map", "filesystem used although the mountpoint is unknown")
		}
	}

	// ---------- C17.d ----------
	c.clause("C17.d", "T1", "(*Server).mount: no second mount of a known mountpoint; the instance that mounted is stored on success; a nil current filesystem is never dereferenced", 3)
	if f := c.mustFn(pkg, "(*Server).mount"); f != nil {
		loads := callsIn(f, idIs("sync.(*Map).Load"))
		mnt := callsIn(f, idIs("snapshot.(FileSystem).Mount"))
		sto := callsIn(f, idIs("sync.(*Map).Store"))
		if len(loads) != 1 || len(mnt) != 1 || len(sto) != 1 {
			c.bad(c.fnKey(f)+":shape", f.Pos(), fmt.Sprintf("%d Load / %d Mount / %d Store (1/1/1 on the pinned tree)", len(loads), len(mnt), len(sto)))
		} else {
			nf := boolEdges(f, resultN(loads[0], 1), false)
			// or: the mount table shows that nothing is mounted there any more (the known entry is stale)
			gone := condEdges(f, func(cond ssa.Value) int {
				b, ok := cond.(*ssa.BinOp)
				if !ok {
					return 0
				}
				lc, ok := stripConv(b.X).(*ssa.Call)
				if !ok {
					return 0
				}
				bi, ok := lc.Call.Value.(*ssa.Builtin)
				if !ok || bi.Name() != "len" {
					return 0
				}
				fromTable := false
				for _, v := range append([]ssa.Value{lc.Call.Args[0]}, reachingVals(lc.Call.Args[0])...) {
					if ex, ok := stripConv(v).(*ssa.Extract); ok {
						if gc, ok := ex.Tuple.(*ssa.Call); ok && strings.Contains(calleeID(gc), "mountinfo.GetMounts") {
							fromTable = true
						}
					}
				}
				n, isC := constInt(b.Y)
				if !fromTable || !isC || n != 0 {
					return 0
				}
				switch b.Op {
				case token.GTR, token.NEQ:
					return -1
				case token.EQL, token.LEQ:
					return 1
				}
				return 0
			})
			okp, _ := mustPass(f, mnt[0], newCuts().addEdges(nf).addEdges(gone))
			c.verdict(c.fnKey(f)+":no-double-mount", mnt[0].Pos(), okp && len(nf) > 0, "Mount only on the not-found edge, or after the mount table showed the known mount gone", "a mountpoint that is already served gets mounted again")
			okp2, _ := mustPass(f, sto[0], newCuts().addEdges(successEdges(f, mnt[0])))
			sameFs := sameValue(stripConv(sto[0].Common().Args[2]), mnt[0].Common().Value) || (func() bool {
				_, a := isFieldLoad(sto[0].Common().Args[2], srv, "curFs")
				_, b := isFieldLoad(mnt[0].Common().Value, srv, "curFs")
				return a && b
			})()
			c.verdict(c.fnKey(f)+":store-owner", sto[0].Pos(), okp2 && sameFs, "the mounting instance is recorded as owner, only on success", "owner recorded for a failed mount or with another instance")
			nn := condEdges(f, func(cond ssa.Value) int {
				return -nilTest(cond, func(x ssa.Value) bool { _, ok := isFieldLoad(x, srv, "curFs"); return ok })
			})
			okp3, _ := mustPass(f, mnt[0], newCuts().addEdges(nn))
			c.verdict(c.fnKey(f)+":curFs-non-nil", mnt[0].Pos(), okp3 && len(nn) > 0, "current filesystem used only when set", "the current filesystem is dereferenced although no Init succeeded yet (Init marks the manager ready even when it failed)")
			// same mountpoint key for Load/Mount/Store
			c.verdict(c.fnKey(f)+":same-key", f.Pos(), isParamish(loads[0].Common().Args[1]) && isParamish(mnt[0].Common().Args[1]) && isParamish(sto[0].Common().Args[1]), "one mountpoint key", "different keys used for lookup, mount and record")
		}
	}

	// ---------- C17.e ----------
	c.clause("C17.e", "T1", "Init installs the new filesystem before restoring and succeeds only after restoreFuseInfo succeeded; restore walks the whole bucket and mounts each record through fm.mount with its recorded labels", 3)
	if f := c.mustFn(pkg, "(*Server).Init"); f != nil {
		rs := callsIn(f, idIs(pkg+".(*Server).restoreFuseInfo"))
		var cur []ssa.Instruction
		for _, a := range c.fieldAccesses(srv, "curFs", []*ssa.Function{f}) {
			if a.write {
				cur = append(cur, a.instr)
			}
		}
		if len(rs) != 1 || len(cur) != 1 {
			c.bad(c.fnKey(f)+":shape", f.Pos(), "Init no longer installs one filesystem and restores once")
		} else {
			okp, _ := mustPass(f, rs[0], newCuts().addInstr(cur...))
			c.verdict(c.fnKey(f)+":install-before-restore", rs[0].Pos(), okp, "restore runs with the new filesystem installed", "restore runs before the new filesystem is installed")
			se := successEdges(f, rs[0])
			bad := false
			for _, r := range realReturns(f) {
				if returnsNilError(r) {
					if okp, _ := mustPass(f, r, newCuts().addEdges(se)); !okp {
						bad = true
					}
				}
			}
			c.verdict(c.fnKey(f)+":success-after-restore", f.Pos(), !bad && len(se) > 0, "Init succeeds only after every recorded mount was restored", "Init can succeed although restoring recorded mounts failed or was skipped")
			// the installed filesystem is the one just created
			st := cur[0].(*ssa.Store)
			fromNew := false
			for _, v := range reachingVals(st.Val) {
				if e, ok := stripConv(v).(*ssa.Extract); ok {
					if call, ok := e.Tuple.(*ssa.Call); ok && calleeID(call) == "service.NewFileSystem" {
						fromNew = true
					}
				}
			}
			c.verdict(c.fnKey(f)+":new-filesystem", st.Pos(), fromNew, "curFs is the filesystem built from the new configuration", "curFs is not the newly built filesystem")
		}
	}
	if f := c.mustFn(pkg, "(*Server).restoreFuseInfo"); f != nil {
		n := 0
		for _, lit := range withAnon(f) {
			for _, m := range callsIn(lit, idIs(pkg+".(*Server).mount")) {
				n++
				f1, ok1 := fieldOfValue(m.Common().Args[2])
				f2, ok2 := fieldOfValue(m.Common().Args[3])
				good := ok1 && ok2 && f1.name == "Mountpoint" && f2.name == "Labels" && sameValue(f1.base, f2.base)
				// inside a ForEach over the bucket
				inForEach := false
				for _, u := range literalUses(lit) {
					if ci, ok := u.(*ssa.Call); ok && strings.HasSuffix(calleeID(ci), "bbolt.(*Bucket).ForEach") {
						inForEach = true
					}
				}
				// its error is returned (stops Init)
				ret := false
				for _, r := range realReturns(lit) {
					for _, v := range retVals(r, 0) {
						if stripConv(v) == m.Value() {
							ret = true
						}
					}
				}
				c.verdict(c.fnKey(lit)+":restore-each", m.Pos(), good && inForEach && ret, "each record is re-mounted with its own mountpoint and labels; a failure aborts restore", "restore does not re-mount every record with its own labels, or swallows failures")
			}
		}
		if n == 0 {
			c.bad(c.fnKey(f)+":restore", f.Pos(), "restore mounts nothing")
		}
	}

	// ---------- C17.f ----------
	c.clause("C17.f", "T5", "one bucket for store/remove/restore; key = Mountpoint on both write paths; one record type marshalled and unmarshalled", 3)
	buckets := map[string][]string{}
	for _, nm := range []string{"(*Server).storeFuseInfo", "(*Server).removeFuseInfo", "(*Server).restoreFuseInfo"} {
		f := c.mustFn(pkg, nm)
		if f == nil {
			continue
		}
		for _, lit := range c.withHelpers(f) {
			eachInstr(lit, func(i ssa.Instruction) {
				ci, ok := i.(*ssa.Call)
				if !ok {
					return
				}
				id := calleeID(ci)
				if strings.HasSuffix(id, "bbolt.(*Tx).CreateBucketIfNotExists") || strings.HasSuffix(id, "bbolt.(*Tx).Bucket") {
					buckets[globalName(ci.Call.Args[1])] = append(buckets[globalName(ci.Call.Args[1])], nm)
				}
				if strings.HasSuffix(id, "bbolt.(*Bucket).Put") || strings.HasSuffix(id, "bbolt.(*Bucket).Delete") {
					keyOK := false
					for _, v := range reachingVals(ci.Call.Args[1]) {
						if sl, ok := stripConv(v).(*ssa.Slice); ok {
							v = sl.X
						}
						if _, ok := isFieldLoadAny(stripConv(v), "Mountpoint"); ok {
							keyOK = true
						}
						if cv, ok := stripConv(v).(*ssa.Convert); ok {
							if _, ok := isFieldLoadAny(cv.X, "Mountpoint"); ok {
								keyOK = true
							}
						}
					}
					c.verdict(c.fnKey(lit)+":key=Mountpoint", ci.Pos(), keyOK || keyIsMountpoint(ci.Call.Args[1]), "record keyed by mountpoint", "record keyed by something other than the mountpoint")
				}
			})
		}
	}
	c.verdict(pkg+":one-bucket", token.NoPos, len(buckets) == 1 && len(buckets[sortedKeys(buckets)[0]]) == 3, "store, remove and restore use the same bucket", fmt.Sprintf("bucket use differs: %v", buckets))

	clauseClientPropagatesRPCErrors(c, "C17.h")
	clauseFreshDecodeTarget(c, "C17.i")
	clauseKnownMountIsLive(c, "C17.j")

	// ---------- C17.g ----------
	c.clause("C17.g", "T1", "unmounting an unknown mountpoint succeeds only when the mount table shows nothing mounted there", 1)
	if f := c.mustFn(pkg, "(*Server).Unmount"); f != nil {
		loads := callsIn(f, idIs("sync.(*Map).Load"))
		if len(loads) == 1 {
			nf := boolEdges(f, resultN(loads[0], 1), false)
			empty := condEdges(f, func(cond ssa.Value) int {
				b, ok := cond.(*ssa.BinOp)
				if !ok {
					return 0
				}
				lc, ok := stripConv(b.X).(*ssa.Call)
				if !ok {
					return 0
				}
				if bi, ok := lc.Call.Value.(*ssa.Builtin); !ok || bi.Name() != "len" {
					return 0
				}
				n, isC := constInt(b.Y)
				if !isC {
					return 0
				}
				if (b.Op == token.LEQ && n == 0) || (b.Op == token.EQL && n == 0) || (b.Op == token.LSS && n == 1) {
					return 1
				}
				return 0
			})
			for _, e := range nf {
				first := f.Blocks[e.from].Succs[e.succ].Instrs[0]
				bad := false
				for _, r := range realReturns(f) {
					if returnsNilError(r) {
						if got, _ := reach(f, first, isInstr(r), newCuts().addEdges(empty)); got != nil {
							bad = true
						}
					}
				}
				c.verdict(c.fnKey(f)+":unknown-unmount", first.Pos(), !bad && len(empty) > 0, "unknown mountpoint: success only if nothing is mounted there", "unmount of an unknown but still mounted mountpoint reports success")
			}
		}
	}
	c.assume("bolt Update/View are transactional; sync.Map is linearizable; the errors of storeFuseInfo/removeFuseInfo are dropped by the callers (DESIGN note N2): divergence after an injected store failure is not decided")
}

func keyIsMountpoint(v ssa.Value) bool {
	v = stripConv(v)
	if sl, ok := v.(*ssa.Slice); ok {
		v = stripConv(sl.X)
	}
	if cv, ok := v.(*ssa.Convert); ok {
		v = stripConv(cv.X)
	}
	_, ok := isFieldLoadAny(v, "Mountpoint")
	return ok
}

// constInt returns the integer value of package-level constant name.
func (c *Ctx) constInt(pkg, name string) int64 {
	s := c.constVal(pkg, name)
	var n int64
	fmt.Sscanf(s, "%d", &n)
	return n
}
