package main

import (
	"fmt"
	"go/token"
	"go/types"
	"strings"

	"golang.org/x/tools/go/ssa"
)

// nestedMapAccess describes one operation on a map[K1]map[K2]V struct field.
type nestedMapAccess struct {
	fn    *ssa.Function
	instr ssa.Instruction
	field string
	depth int
	op    string // lookup, update, delete, len, range
	key   ssa.Value
}

// mapFieldDepth: if m is (a load of) struct field `q.<field>` returns depth 1;
// if m is the result of looking up such a field, depth 2.
func mapFieldDepth(m ssa.Value, q string, fields map[string]bool) (string, int) {
	m = stripConv(m)
	if p, ok := loadOf(m); ok {
		if fa, ok := p.(*ssa.FieldAddr); ok && typeQName(fa.X.Type()) == q && fields[fieldName(fa)] {
			return fieldName(fa), 1
		}
	}
	switch x := m.(type) {
	case *ssa.Lookup:
		if f, d := mapFieldDepth(x.X, q, fields); d == 1 {
			return f, 2
		}
	case *ssa.Extract:
		if lk, ok := x.Tuple.(*ssa.Lookup); ok && x.Index == 0 {
			if f, d := mapFieldDepth(lk.X, q, fields); d == 1 {
				return f, 2
			}
		}
	}
	return "", 0
}

func (c *Ctx) nestedMapAccesses(q string, fields map[string]bool, fns []*ssa.Function) []nestedMapAccess {
	var out []nestedMapAccess
	for _, f := range fns {
		eachInstr(f, func(i ssa.Instruction) {
			switch x := i.(type) {
			case *ssa.Lookup:
				if fl, d := mapFieldDepth(x.X, q, fields); d > 0 {
					out = append(out, nestedMapAccess{f, i, fl, d, "lookup", x.Index})
				}
			case *ssa.MapUpdate:
				if fl, d := mapFieldDepth(x.Map, q, fields); d > 0 {
					out = append(out, nestedMapAccess{f, i, fl, d, "update", x.Key})
				}
			case *ssa.Call:
				if b, ok := x.Call.Value.(*ssa.Builtin); ok {
					switch b.Name() {
					case "delete":
						if fl, d := mapFieldDepth(x.Call.Args[0], q, fields); d > 0 {
							out = append(out, nestedMapAccess{f, i, fl, d, "delete", x.Call.Args[1]})
						}
					case "len":
						if fl, d := mapFieldDepth(x.Call.Args[0], q, fields); d > 0 {
							out = append(out, nestedMapAccess{f, i, fl, d, "len", nil})
						}
					}
				}
			}
		})
	}
	return out
}

// keyOrigin classifies a string map key by the type-resolved method that produced it.
func keyOrigin(k ssa.Value) (method string, recvField string) {
	k = stripConv(k)
	call, ok := k.(*ssa.Call)
	if !ok {
		return "other:" + k.Name(), ""
	}
	id := calleeID(call)
	var recv ssa.Value
	if len(call.Call.Args) > 0 {
		recv = call.Call.Args[0]
	}
	rf := ""
	if recv != nil {
		r := stripConv(recv)
		if p, ok := loadOf(r); ok {
			if fa, ok := p.(*ssa.FieldAddr); ok {
				rf = fieldName(fa)
			}
		}
		if f, ok := r.(*ssa.Field); ok {
			rf = f.X.Type().Underlying().(*types.Struct).Field(f.Field).Name()
		}
	}
	return id, rf
}

func init() {
	register("C16", "Structural premises of the additional-layer store's use/release bookkeeping: one key kind per level of the nested maps, drop-at-zero is complete (layer released, index entry, counter entry and resolution memo removed in one critical section), no blind decrement, lookup answers only layers whose TOC digest equals the requested one and verifies against the directory name, FUSE handlers call use/release only for their own (ref, digest). Races between lookup and release and registry error handling are not decided.", runC16)
}

func runC16(c *Ctx) {
	const pkg = "store"
	const lm = pkg + ".LayerManager"
	fns := c.pkgFuncs(pkg)
	maps := map[string]bool{"layer": true, "refcounter": true, "resolveLayerCache": true}
	acc := c.nestedMapAccesses(lm, maps, fns)

	c.clause("C16.a", "T10", "per nested map and depth all keys have one type-resolved origin: depth 1 reference.Spec.String, depth 2 digest.Digest.String (TOC digest for layer/refcounter, layer digest for resolveLayerCache)", 30)
	const specStr = "github.com/containerd/containerd/v2/pkg/reference.(Spec).String"
	const dgstStr = "github.com/opencontainers/go-digest.(Digest).String"
	for _, a := range acc {
		if a.key == nil {
			continue
		}
		m, rf := keyOrigin(a.key)
		key := fmt.Sprintf("%s:%s[%d]:%s", c.fnKey(a.fn), a.field, a.depth, a.op)
		want := specStr
		if a.depth == 2 {
			want = dgstStr
		}
		if m != want {
			c.bad(key, a.instr.Pos(), fmt.Sprintf("key of %s at depth %d comes from %s, but this level is keyed by %s: the operation addresses the wrong level", a.field, a.depth, m, want))
			continue
		}
		if a.depth == 2 {
			isTOC := rf == "TOCDigest" || rf == ""
			if a.field == "resolveLayerCache" && rf == "TOCDigest" {
				c.bad(key, a.instr.Pos(), "resolveLayerCache is keyed by layer digest but the key is a TOC digest")
				continue
			}
			if a.field != "resolveLayerCache" && !isTOC {
				c.bad(key, a.instr.Pos(), a.field+" is keyed by TOC digest but the key is the layer digest field "+rf)
				continue
			}
		}
		c.ok(key, a.instr.Pos(), "key origin "+m)
	}

	c.clause("C16.lock", "T4", "layer, refcounter and resolveLayerCache are accessed only under LayerManager.mu; refPool.refcounter under refPool.mu", 30)
	for f := range maps {
		c.guardedBy(lm, f, "mu", true)
	}
	c.guardedBy(pkg+".refPool", "refcounter", "mu", true)

	rel := c.mustFn(pkg, "(*LayerManager).release")
	use := c.mustFn(pkg, "(*LayerManager).use")
	c.clause("C16.b", "T1+T2", "on the count<=0 edge of release the layer from the index is Done(), its index entry, counter entry and resolution memo are deleted in the same critical section", 5)
	if rel != nil {
		var decs []ssa.Instruction
		var dec *ssa.MapUpdate
		for _, a := range acc {
			if a.fn == rel && a.field == "refcounter" && a.depth == 2 && a.op == "update" {
				mu := a.instr.(*ssa.MapUpdate)
				if b, ok := mu.Value.(*ssa.BinOp); ok && b.Op == token.SUB {
					if n, ok := constInt(b.Y); ok && n == 1 {
						dec = mu
						decs = append(decs, mu)
					}
				}
			}
		}
		if dec == nil {
			c.bad("store.(*LayerManager).release:decrement", rel.Pos(), "release does not decrement the use counter by one")
		} else {
			c.verdict("store.(*LayerManager).release:decrement", dec.Pos(), len(decs) == 1, "single decrement", "more than one decrement in release")
			// zero edges: comparison of a value read from the same counter after the decrement
			zero := condEdges(rel, func(cond ssa.Value) int {
				b, ok := cond.(*ssa.BinOp)
				if !ok {
					return 0
				}
				n, isC := constInt(b.Y)
				if !isC {
					return 0
				}
				lk, ok := stripConv(b.X).(*ssa.Lookup)
				if !ok {
					return 0
				}
				if f, d := mapFieldDepth(lk.X, lm, maps); f != "refcounter" || d != 2 {
					return 0
				}
				if !dominatesInstr(dec, lk) {
					return 0
				}
				if (b.Op == token.LEQ && n == 0) || (b.Op == token.LSS && n == 1) || (b.Op == token.EQL && n == 0) {
					return 1
				}
				return 0
			})
			if len(zero) == 0 {
				c.bad("store.(*LayerManager).release:zero-test", rel.Pos(), "no count<=0 test after the decrement")
			} else {
				// all drop actions only on the zero edge and all present on every success path from the zero edge
				dones := callsIn(rel, idIs("fs/layer.(Layer).Done"))
				var delLayer, delCnt, delMemo, anyDel []ssa.Instruction
				for _, a := range acc {
					if a.fn != rel || a.op != "delete" {
						continue
					}
					anyDel = append(anyDel, a.instr)
					switch {
					case a.field == "layer" && a.depth == 2:
						delLayer = append(delLayer, a.instr)
					case a.field == "refcounter" && a.depth == 2:
						delCnt = append(delCnt, a.instr)
					case a.field == "resolveLayerCache":
						delMemo = append(delMemo, a.instr)
					}
				}
				for _, x := range append(append([]ssa.Instruction{}, anyDel...), toInstrs(dones)...) {
					okp, path := mustPass(rel, x, newCuts().addEdges(zero))
					c.verdict("store.(*LayerManager).release:drop-only-at-zero", x.Pos(), okp, "drop action only on the count<=0 edge", "layer state dropped although uses remain: "+c.pathStr(rel, path))
				}
				// from the zero edge, every nil-error return passed Done, the three deletes
				for _, e := range zero {
					blk := rel.Blocks[e.from].Succs[e.succ]
					first := blk.Instrs[0]
					for nm, set := range map[string][]ssa.Instruction{"Done": toInstrs(dones), "delete(layer[ref],toc)": delLayer, "delete(refcounter[ref],toc)": delCnt, "delete(resolveLayerCache…)": delMemo} {
						key := "store.(*LayerManager).release:at-zero:" + nm
						if len(set) == 0 {
							c.bad(key, first.Pos(), "release to zero never performs "+nm+": stale bookkeeping makes a later lookup fail or the counter go negative")
							continue
						}
						bad := false
						var badPath []int
						for _, r := range realReturns(rel) {
							if !returnsNilError(r) {
								continue
							}
							k := newCuts().addInstr(set...)
							if k.instrs[first] {
								continue
							}
							if got, path := reach(rel, first, isInstr(r), k); got != nil || first == ssa.Instruction(r) {
								bad = true
								badPath = path
							}
						}
						c.verdict(key, first.Pos(), !bad, nm+" on every successful path from the zero edge", "a successful release to zero skips "+nm+": "+c.pathStr(rel, badPath))
					}
				}
				// the counter entry (and, when the image has no users left, the image-level entries) are dropped on
				// EVERY path from the zero edge, also when the layer turns out not to be registered (failed lookup)
				for _, e := range zero {
					first := rel.Blocks[e.from].Succs[e.succ].Instrs[0]
					k := newCuts().addInstr(delCnt...)
					bad := false
					var bp []int
					if !k.instrs[first] {
						if got, path := reach(rel, first, isReturn, k); got != nil {
							bad, bp = true, path
						}
					}
					c.verdict("store.(*LayerManager).release:at-zero:counter-dropped-on-all-paths", first.Pos(), !bad && len(delCnt) > 0, "the use counter entry is removed on every path from the zero edge, including error returns", "an error return after reaching zero leaves the counter entry behind (stays 0, a further release drives it negative): "+c.pathStr(rel, bp))
				}
				var imgDel []ssa.Instruction
				for _, a := range acc {
					if a.fn == rel && a.op == "delete" && a.depth == 1 && a.field != "layer" {
						imgDel = append(imgDel, a.instr)
					}
				}
				emptyEdges := condEdges(rel, func(cond ssa.Value) int {
					b, ok := cond.(*ssa.BinOp)
					if !ok || b.Op != token.EQL {
						return 0
					}
					if n, ok := constInt(b.Y); !ok || n != 0 {
						return 0
					}
					if call, ok := stripConv(b.X).(*ssa.Call); ok {
						if bi, ok := call.Call.Value.(*ssa.Builtin); ok && bi.Name() == "len" {
							if f, d := mapFieldDepth(call.Call.Args[0], lm, maps); f == "refcounter" && d == 2 {
								return 1
							}
						}
					}
					return 0
				})
				imgOK := len(imgDel) == 2 && len(emptyEdges) > 0
				for _, d := range imgDel {
					if okp, _ := mustPass(rel, d, newCuts().addEdges(emptyEdges)); !okp {
						imgOK = false
					}
				}
				// the emptiness test is reached on every path from the zero edge (so the image-level reset cannot be skipped by an early error return)
				for _, e := range zero {
					first := rel.Blocks[e.from].Succs[e.succ].Instrs[0]
					var tests []ssa.Instruction
					for _, ee := range emptyEdges {
						blk := rel.Blocks[ee.from]
						tests = append(tests, blk.Instrs[len(blk.Instrs)-1])
					}
					if got, _ := reach(rel, first, isReturn, newCuts().addInstr(tests...)); got != nil {
						imgOK = false
					}
				}
				c.verdict("store.(*LayerManager).release:at-zero:image-reset", rel.Pos(), imgOK, "when the image has no users left its counter map and resolve memo are dropped, on every path from the zero edge", "the image-level bookkeeping reset can be skipped (stale resolve status makes later lookups fail without resolving again)")
				// the memo delete at depth 2 must use the layer digest of the released layer
				for _, d := range delMemo {
					if _, dep := mapFieldDepth(d.(*ssa.Call).Call.Args[0], lm, maps); dep == 2 {
						_, rf := keyOrigin(d.(*ssa.Call).Call.Args[1])
						c.verdict("store.(*LayerManager).release:memo-key", d.Pos(), rf == "Digest", "memo reset keyed by the released layer's blob digest", "memo reset uses field "+rf+" instead of the layer digest")
					}
				}
				// Done receiver is the layer looked up from r.layer[ref][toc]
				for _, d := range dones {
					recv := d.Common().Value
					fromIdx := false
					for _, v := range reachingVals(recv) {
						if e, ok := v.(*ssa.Extract); ok {
							if lk, ok := e.Tuple.(*ssa.Lookup); ok {
								if f, dep := mapFieldDepth(lk.X, lm, maps); f == "layer" && dep == 2 {
									fromIdx = true
								}
							}
						}
						if lk, ok := v.(*ssa.Lookup); ok {
							if f, dep := mapFieldDepth(lk.X, lm, maps); f == "layer" && dep == 2 {
								fromIdx = true
							}
						}
					}
					c.verdict("store.(*LayerManager).release:Done-receiver", d.Pos(), fromIdx, "Done() on the layer stored under (ref, toc)", "Done() on something other than the indexed layer")
				}
			}
			// C16.c no blind decrement
			c.clause("C16.c", "T1", "the decrement is dominated by existence tests of both levels; use creates missing levels and counts from one", 4)
			found := condEdges(rel, func(cond ssa.Value) int {
				if e, ok := cond.(*ssa.Extract); ok && e.Index == 1 {
					if lk, ok := e.Tuple.(*ssa.Lookup); ok && lk.CommaOk {
						if f, d := mapFieldDepth(lk.X, lm, maps); f == "refcounter" && d == 2 {
							return 1
						}
					}
				}
				return 0
			})
			okp, path := mustPass(rel, dec, newCuts().addEdges(found))
			c.verdict("store.(*LayerManager).release:tracked-test", dec.Pos(), okp && len(found) > 0, "decrement only when the (ref, toc) counter exists", "counter decremented without checking that the layer is tracked: "+c.pathStr(rel, path))
			// untracked returns error
			for _, r := range realReturns(rel) {
				if passes, _ := mustPass(rel, r, newCuts().addInstr(dec)); !passes {
					c.verdict("store.(*LayerManager).release:untracked-error", r.Pos(), !returnsNilError(r), "untracked release reports an error", "release of an untracked layer succeeds")
				}
			}
		}
	}
	if use != nil {
		n := 0
		for _, a := range acc {
			if a.fn != use || a.field != "refcounter" || a.op != "update" {
				continue
			}
			mu := a.instr.(*ssa.MapUpdate)
			if a.depth == 1 {
				_, isMk := mu.Value.(*ssa.MakeMap)
				c.verdict("store.(*LayerManager).use:create-level", mu.Pos(), isMk, "missing image level created", "image level set to something other than a fresh map")
				continue
			}
			n++
			missE := condEdges(use, func(cond ssa.Value) int {
				if e, ok := cond.(*ssa.Extract); ok && e.Index == 1 {
					if lk, ok := e.Tuple.(*ssa.Lookup); ok && lk.CommaOk {
						if f, d := mapFieldDepth(lk.X, lm, maps); f == "refcounter" && d == 2 {
							return -1
						}
					}
				}
				return 0
			})
			if k, ok := constInt(mu.Value); ok {
				okp, _ := mustPass(use, mu, newCuts().addEdges(missE))
				c.verdict("store.(*LayerManager).use:first", mu.Pos(), k == 1 && okp, "first use counts 1 on the not-tracked edge", "counter initialised wrongly")
			} else if b, ok := mu.Value.(*ssa.BinOp); ok && b.Op == token.ADD {
				k, _ := constInt(b.Y)
				c.verdict("store.(*LayerManager).use:inc", mu.Pos(), k == 1, "+1", "use does not add exactly one")
			} else {
				c.bad("store.(*LayerManager).use:write", mu.Pos(), "unrecognised counter update")
			}
		}
		if n < 2 {
			c.bad("store.(*LayerManager).use:updates", use.Pos(), "use no longer initialises and increments the counter")
		}
	}

	// ---- lookup answers only matching TOC digests ----
	c.clause("C16.toc", "T1+T9", "getCachedLayer returns a layer only when its TOC digest equals the requested one; resolveLayer caches a layer under its own TOC digest; getLayer hands out only getCachedLayer results", 4)
	if f := c.mustFn(pkg, "(*LayerManager).getCachedLayer"); f != nil {
		eq := condEdges(f, func(cond ssa.Value) int {
			b, ok := cond.(*ssa.BinOp)
			if !ok || b.Op != token.EQL {
				return 0
			}
			isTOCField := func(v ssa.Value) bool {
				if fl, ok := stripConv(v).(*ssa.Field); ok {
					return fl.X.Type().Underlying().(*types.Struct).Field(fl.Field).Name() == "TOCDigest"
				}
				_, ok := isFieldLoad(v, "", "TOCDigest")
				return ok
			}
			if (isTOCField(b.X) && addrKey(b.Y) == "tocDigest") || (isTOCField(b.Y) && addrKey(b.X) == "tocDigest") ||
				(isTOCField(b.X) && isParam(b.Y)) || (isTOCField(b.Y) && isParam(b.X)) {
				return 1
			}
			return 0
		})
		for _, r := range realReturns(f) {
			vs := retVals(r, 0)
			nonNil := false
			for _, v := range vs {
				if !isNilConst(v) {
					nonNil = true
				}
			}
			if !nonNil {
				continue
			}
			okp, path := mustPass(f, r, newCuts().addEdges(eq))
			c.verdict(c.fnKey(f)+":return-layer", r.Pos(), okp && len(eq) > 0, "layer returned only on Info().TOCDigest == tocDigest", "a layer is returned without comparing its TOC digest with the requested one: "+c.pathStr(f, path))
		}
	}
	if f := c.mustFn(pkg, "(*LayerManager).resolveLayer"); f != nil {
		for _, ci := range callsIn(f, idIs(pkg+".(*LayerManager).cacheLayer")) {
			args := ci.Common().Args
			// args: r, refspec, tocDigest, l
			tocOK := false
			if fl, ok := stripConv(args[2]).(*ssa.Field); ok {
				if fl.X.Type().Underlying().(*types.Struct).Field(fl.Field).Name() == "TOCDigest" {
					if info, ok := fl.X.(*ssa.Call); ok && info.Call.IsInvoke() && info.Call.Method.Name() == "Info" {
						tocOK = sameValue(info.Call.Value, args[3])
					}
				}
			}
			c.verdict(c.fnKey(f)+":cacheLayer-key", ci.Pos(), tocOK, "layer cached under its own Info().TOCDigest", "layer cached under a TOC digest that is not its own")
			// on !added the redundant layer is released
			added := resultN(ci, 1)
			if added != nil {
				fe := boolEdges(f, added, false)
				dones := callsIn(f, idIs("fs/layer.(Layer).Done"))
				good := false
				for _, d := range dones {
					if okp, _ := mustPass(f, d, newCuts().addEdges(fe)); okp && sameValue(d.Common().Value, args[3]) {
						good = true
					}
				}
				c.verdict(c.fnKey(f)+":redundant-done", ci.Pos(), good, "redundant layer released only when the cached one is kept", "redundant resolved layer is not released exactly on the !added edge")
			}
		}
	}
	if f := c.mustFn(pkg, "(*LayerManager).getLayer"); f != nil {
		// a sibling layer that fails to resolve must not fail the lookup: no channel send on the failure edge of resolveLayer
		for _, lit := range withAnon(f) {
			for _, rc := range callsIn(lit, idIs(pkg+".(*LayerManager).resolveLayer")) {
				fe := nonNilEdges(lit, errResults(rc)[0])
				bad := false
				for _, e := range fe {
					first := lit.Blocks[e.from].Succs[e.succ].Instrs[0]
					isSend := func(i ssa.Instruction) bool { _, ok := i.(*ssa.Send); return ok }
					if isSend(first) {
						bad = true
					} else if got, _ := reach(lit, first, isSend, nil); got != nil {
						bad = true
					}
				}
				c.verdict(c.fnKey(lit)+":sibling-failure-tolerated", rc.Pos(), !bad && len(fe) > 0, "a layer that fails to resolve only ends its own goroutine", "a failing sibling layer is reported to the lookup: looking up a layer the image does contain fails when another layer cannot be resolved")
			}
		}
		for _, r := range realReturns(f) {
			for _, v := range retVals(r, 0) {
				if isNilConst(v) {
					continue
				}
				okSrc := false
				for _, src := range valueSources(v, f, 0) {
					if call, ok := src.(*ssa.Call); ok && calleeID(call) == pkg+".(*LayerManager).getCachedLayer" {
						okSrc = true
					} else {
						okSrc = false
						break
					}
				}
				c.verdict(c.fnKey(f)+":result-source", r.Pos(), okSrc, "returned layer comes from getCachedLayer (TOC digest compared)", "getLayer returns a layer that did not pass the TOC digest comparison")
			}
		}
	}

	// ---- C16.d FUSE handlers ----
	c.clause("C16.d", "T1", "layernode.Lookup verifies against the directory digest before exposing diff/blob; Create calls use only for the use file; Rmdir removes children only when release returned 0", 5)
	if f := c.mustFn(pkg, "(*layernode).Lookup"); f != nil {
		gets := callsIn(f, idIs(pkg+".(*LayerManager).getLayer"))
		verifies := callsIn(f, idIs("fs/layer.(Layer).Verify"))
		var succ []edge
		for _, v := range verifies {
			// verify the layer returned by getLayer with n.digest
			_, dg := isFieldLoad(v.Common().Args[0], pkg+".layernode", "digest")
			fromGet := false
			for _, g := range gets {
				if sameValue(v.Common().Value, resultN(g, 0)) {
					fromGet = true
				}
			}
			if dg && fromGet {
				succ = append(succ, successEdges(f, v)...)
			}
		}
		sinks := callsIn(f, idIs("fs/layer.(Layer).RootNode"))
		for _, fn := range withAnon(f) {
			if fn != f {
				sinks = append(sinks, callsIn(fn, idIs("fs/layer.(Layer).RootNode"))...)
			}
		}
		nsinks := 0
		for _, s := range sinks {
			nsinks++
			site := ssa.Instruction(s)
			host := s.Parent()
			if host != f {
				// literal: the guard must dominate its creation/call in f
				site = nil
				eachInstr(f, func(i ssa.Instruction) {
					if ci, ok := asCall(i); ok && staticFn(ci) == host {
						site = i
					}
					if mc, ok := i.(*ssa.MakeClosure); ok && mc.Fn == host && site == nil {
						site = i
					}
				})
			}
			if site == nil {
				c.unk(c.fnKey(f)+":RootNode", s.Pos(), "cannot locate the literal that calls RootNode")
				continue
			}
			okp, path := mustPass(f, site, newCuts().addEdges(succ))
			c.verdict(c.fnKey(f)+":RootNode-after-Verify", s.Pos(), okp && len(succ) > 0, "RootNode only after Verify(n.digest) succeeded", "diff tree exposed without verifying the layer against the directory digest: "+c.pathStr(f, path))
		}
		// blobnode creation
		eachInstr(f, func(i ssa.Instruction) {
			if a, ok := i.(*ssa.Alloc); ok && typeQName(a.Type()) == pkg+".blobnode" {
				nsinks++
				okp, path := mustPass(f, a, newCuts().addEdges(succ))
				c.verdict(c.fnKey(f)+":blobnode-after-Verify", a.Pos(), okp && len(succ) > 0, "blob exposed only after Verify(n.digest) succeeded", "blob exposed without verification: "+c.pathStr(f, path))
			}
		})
		if nsinks < 2 {
			c.bad(c.fnKey(f)+":sinks", f.Pos(), "diff/blob exposure sites not found")
		}
		for _, g := range gets {
			_, dg := isFieldLoad(g.Common().Args[3], pkg+".layernode", "digest")
			c.verdict(c.fnKey(f)+":getLayer-digest", g.Pos(), dg, "layer requested by the directory's digest", "layer requested with a digest other than the directory name")
		}
	}
	if f := c.mustFn(pkg, "(*layernode).Create"); f != nil {
		uses := callsIn(f, idIs(pkg+".(*LayerManager).use"))
		te := condEdges(f, func(cond ssa.Value) int {
			b, ok := cond.(*ssa.BinOp)
			if !ok || b.Op != token.EQL {
				return 0
			}
			if s, ok := constString(b.Y); ok && s != "" && addrKey(b.X) == "name" {
				return 1
			}
			return 0
		})
		for _, u := range uses {
			okp, _ := mustPass(f, u, newCuts().addEdges(te))
			_, a1 := isFieldLoad(u.Common().Args[2], pkg+".layernode", "digest")
			_, a0 := isFieldLoad(u.Common().Args[1], pkg+".refnode", "ref")
			c.verdict(c.fnKey(f)+":use", u.Pos(), okp && a1 && a0 && len(te) > 0, "use(n.refnode.ref, n.digest) only for the use file", "use called for another file name or another (ref, digest)")
		}
		if len(uses) != 1 {
			c.bad(c.fnKey(f)+":use-count", f.Pos(), fmt.Sprintf("%d use calls in Create", len(uses)))
		}
	}
	if f := c.mustFn(pkg, "(*refnode).Rmdir"); f != nil {
		rels := callsIn(f, idIs(pkg+".(*LayerManager).release"))
		if len(rels) != 1 {
			c.bad(c.fnKey(f)+":release-count", f.Pos(), fmt.Sprintf("%d release calls in Rmdir", len(rels)))
		} else {
			cur := resultN(rels[0], 0)
			ze := condEdges(f, func(cond ssa.Value) int {
				b, ok := cond.(*ssa.BinOp)
				if !ok || b.Op != token.EQL || !flowsFrom(b.X, cur, 0) {
					return 0
				}
				if n, ok := constInt(b.Y); ok && n == 0 {
					return 1
				}
				return 0
			})
			rm := callsIn(f, func(id string, _ ssa.CallInstruction) bool {
				return strings.HasSuffix(id, ".(*Inode).RmChild") || strings.HasSuffix(id, ".(*Inode).RmAllChildren")
			})
			for _, x := range rm {
				okp, _ := mustPass(f, x, newCuts().addEdges(ze))
				c.verdict(c.fnKey(f)+":rm-only-at-zero", x.Pos(), okp && len(ze) > 0, "nodes removed only when the use count reached 0", "layer nodes removed while uses remain")
			}
			_, a0 := isFieldLoad(rels[0].Common().Args[2], pkg+".refnode", "ref")
			c.verdict(c.fnKey(f)+":release-args", rels[0].Pos(), a0, "release of this ref", "release of another ref")
		}
	}

	// ---- C16.e refPool ----
	c.clause("C16.e", "T1", "refPool.release deletes and calls the stored release only at count<=0; use registers a cache reference on first use", 2)
	if f := c.mustFn(pkg, "(*refPool).release"); f != nil {
		ze := condEdges(f, func(cond ssa.Value) int {
			b, ok := cond.(*ssa.BinOp)
			if !ok {
				return 0
			}
			if _, isCnt := isFieldLoad(b.X, pkg+".releaser", "count"); !isCnt {
				return 0
			}
			n, isC := constInt(b.Y)
			if isC && ((b.Op == token.LEQ && n == 0) || (b.Op == token.LSS && n == 1) || (b.Op == token.EQL && n == 0)) {
				return 1
			}
			return 0
		})
		var acts []ssa.Instruction
		eachInstr(f, func(i ssa.Instruction) {
			if ci, ok := asCall(i); ok {
				if calleeID(ci) == "builtin.delete" {
					acts = append(acts, i)
				}
				if _, ok := isFieldLoad(ci.Common().Value, pkg+".releaser", "release"); ok {
					acts = append(acts, i)
				}
			}
		})
		good := len(acts) == 2 && len(ze) > 0
		for _, a := range acts {
			if okp, _ := mustPass(f, a, newCuts().addEdges(ze)); !okp {
				good = false
			}
		}
		c.verdict(c.fnKey(f)+":drop-at-zero", f.Pos(), good, "delete + release() only on count<=0", "refPool drops the manifest reference while uses remain, or never")
	}
	if f := c.mustFn(pkg, "(*refPool).use"); f != nil {
		adds := callsIn(f, idIs("util/cacheutil.(*LRUCache).Add"))
		c.verdict(c.fnKey(f)+":first-use", f.Pos(), len(adds) == 1, "first use pins the ref in the LRU", "use does not pin the ref")
	}
	// ---------- C16.h ----------
	c.clause("C16.h", "T4", "check-then-act on the manager's maps is atomic: a write to r.layer/refcounter/resolveLayerCache that follows a read of the same map in the same function happens in the same critical section of r.mu (the map looked up is not used across an unlock)", 3)
	byFn := map[*ssa.Function][]nestedMapAccess{}
	for _, a := range acc {
		byFn[a.fn] = append(byFn[a.fn], a)
	}
	for _, f := range fns {
		as := byFn[f]
		for _, w := range as {
			if w.op != "update" && w.op != "delete" {
				continue
			}
			for _, r := range as {
				if r.op != "lookup" || r.field != w.field || r.instr == w.instr || !dominatesInstr(r.instr, w.instr) {
					continue
				}
				recv := "r"
				if len(f.Params) > 0 {
					recv = f.Params[0].Name()
				}
				good := sameRegion(c, f, r.instr, w.instr, recv+".mu")
				c.verdict(fmt.Sprintf("%s:%s:%s-after-lookup", c.fnKey(f), w.field, w.op), w.instr.Pos(), good, "read and write of the map in one critical section", "the map is read, r.mu released, and then written on the basis of the stale read (a concurrent release can delete the per-image map in between: the layer is inserted into an orphaned map, looked up as missing and never released)")
			}
		}
	}
	clauseLayerClosedOnlyByOwner(c, "C16.i")
	clauseDetachWithChildren(c, "C16.j")
	clauseStorePoolPremises(c, "C16.k")
	clauseInodeNumbersFreedOnForget(c, "C16.l")
	clauseMemoisedResolveDetached(c, "C16.m")
	c.assume("go-fuse serialises nothing: handlers may race; only the lock discipline of LayerManager is decided")
}

func toInstrs(cs []ssa.CallInstruction) []ssa.Instruction {
	var out []ssa.Instruction
	for _, c := range cs {
		out = append(out, c)
	}
	return out
}

func isParam(v ssa.Value) bool {
	_, ok := stripConv(v).(*ssa.Parameter)
	return ok
}

// returnsNilError: the last result of r is (only) the nil constant, or a call result (e.g. t.Commit()).
func returnsNilError(r *ssa.Return) bool {
	if len(r.Results) == 0 {
		return true
	}
	vs := retVals(r, len(r.Results)-1)
	for _, v := range vs {
		if !isNilConst(v) {
			return false
		}
	}
	return len(vs) > 0
}

// sameValue: a and b denote the same SSA value, possibly through loads of the same cell.
func sameValue(a, b ssa.Value) bool {
	if a == nil || b == nil {
		return false
	}
	a, b = stripConv(a), stripConv(b)
	if a == b {
		return true
	}
	// the same single definition reaches both (a variable with several reaching definitions is compared as a variable below)
	if ra, rb := reachingVals(a), reachingVals(b); len(ra) == 1 && len(rb) == 1 && stripConv(ra[0]) == stripConv(rb[0]) {
		return true
	}
	pa, oka := loadOf(a)
	pb, okb := loadOf(b)
	if oka && okb && (pa == pb || (cellRoot(pa) != nil && cellRoot(pa) == cellRoot(pb))) {
		// two loads of one variable denote the same value only if no store to it can execute between them
		la, ok1 := a.(*ssa.UnOp)
		lb, ok2 := b.(*ssa.UnOp)
		if !ok1 || !ok2 {
			return false
		}
		if la.Parent() != lb.Parent() {
			// different functions (captured variable): same if the variable is stored exactly once overall
			root := cellRoot(pa)
			if root == nil {
				return false
			}
			return len(storesToCell(enclosingRoot(la.Parent()), root)) <= 1
		}
		root := cellRoot(pa)
		if root == nil {
			return pa == pb && !storeBetween(la, lb, pa)
		}
		for _, st := range storesToCell(enclosingRoot(la.Parent()), root) {
			if st.Parent() != la.Parent() {
				// a store in an enclosing function cannot interleave with one invocation of this literal;
				// a store in a sibling/nested literal may
				anc := false
				for p := la.Parent().Parent(); p != nil; p = p.Parent() {
					if p == st.Parent() {
						anc = true
					}
				}
				if anc {
					continue
				}
				return false
			}
			if instrBetween(la, lb, st) || instrBetween(lb, la, st) {
				return false
			}
		}
		return true
	}
	return false
}

// instrBetween: x can execute after a and before b.
func instrBetween(a, b, x ssa.Instruction) bool {
	f := a.Parent()
	g1, _ := reach(f, a, isInstr(x), newCuts().addInstr(b))
	if g1 == nil {
		return false
	}
	g2, _ := reach(f, x, isInstr(b), nil)
	return g2 != nil
}

func storeBetween(a, b *ssa.UnOp, addr ssa.Value) bool {
	f := a.Parent()
	found := false
	eachInstr(f, func(i ssa.Instruction) {
		if st, ok := i.(*ssa.Store); ok && st.Addr == addr {
			if instrBetween(a, b, st) || instrBetween(b, a, st) {
				found = true
			}
		}
	})
	return found
}

// valueSources resolves v through cells, phis and channel receives to its producing values.
func valueSources(v ssa.Value, root *ssa.Function, depth int) []ssa.Value {
	v = stripConv(v)
	if depth > 6 {
		return []ssa.Value{v}
	}
	switch x := v.(type) {
	case *ssa.Phi:
		var out []ssa.Value
		for _, e := range x.Edges {
			out = append(out, valueSources(e, root, depth+1)...)
		}
		return out
	case *ssa.Extract:
		// select receive: value sent on the channel anywhere in root
		if sel, ok := x.Tuple.(*ssa.Select); ok {
			idx := x.Index - 2
			ri := 0
			for _, st := range sel.States {
				if st.Dir == types.RecvOnly {
					if ri == idx {
						return sendsOn(st.Chan, root, depth)
					}
					ri++
				}
			}
		}
	case *ssa.UnOp:
		if x.Op == token.ARROW {
			return sendsOn(x.X, root, depth)
		}
		if p, ok := loadOf(v); ok {
			if cr := cellRoot(p); cr != nil {
				var out []ssa.Value
				for _, s := range storesToCell(enclosingRoot(root), cr) {
					if isZeroConst(s.Val) {
						continue
					}
					out = append(out, valueSources(s.Val, root, depth+1)...)
				}
				if len(out) > 0 {
					return out
				}
			}
		}
	}
	return []ssa.Value{v}
}

func isZeroConst(v ssa.Value) bool {
	c, ok := v.(*ssa.Const)
	return ok && c.Value == nil
}

func sendsOn(ch ssa.Value, root *ssa.Function, depth int) []ssa.Value {
	var out []ssa.Value
	chRoot := chanRoot(ch)
	for _, f := range withAnon(enclosingRoot(root)) {
		eachInstr(f, func(i ssa.Instruction) {
			if s, ok := i.(*ssa.Send); ok && chanRoot(s.Chan) != nil && chanRoot(s.Chan) == chRoot {
				out = append(out, valueSources(s.X, f, depth+1)...)
			}
		})
	}
	return out
}

// chanRoot: the MakeChan (or cell) a channel value originates from.
func chanRoot(v ssa.Value) ssa.Value {
	v = stripConv(v)
	if mk, ok := v.(*ssa.MakeChan); ok {
		return mk
	}
	if p, ok := loadOf(v); ok {
		if cr := cellRoot(p); cr != nil {
			return cr
		}
	}
	if fv, ok := v.(*ssa.FreeVar); ok {
		// captured by value: resolve binding
		fn := fv.Parent()
		par := fn.Parent()
		if par != nil {
			idx := -1
			for i, x := range fn.FreeVars {
				if x == fv {
					idx = i
				}
			}
			var bound ssa.Value
			eachInstr(par, func(i ssa.Instruction) {
				if mc, ok := i.(*ssa.MakeClosure); ok && mc.Fn == fn && idx >= 0 {
					bound = mc.Bindings[idx]
				}
			})
			if bound != nil {
				return chanRoot(bound)
			}
		}
	}
	return nil
}
