package main

// generated from /verif/properties.jsonl (anchors.files); the properties are fixed
var anchorFiles = map[string][]string{
	"C01": {"fs/reader/reader.go", "fs/layer/layer.go", "fs/fs.go", "estargz/estargz.go", "estargz/gzip.go", "estargz/zstdchunked/zstdchunked.go", "estargz/externaltoc/externaltoc.go", "metadata/memory/reader.go", "cmd/containerd-stargz-grpc/db/reader.go", "store/fs.go"},
	"C02": {"fs/layer/node.go", "fs/layer/layer.go", "fs/reader/reader.go", "fs/remote/blob.go", "metadata/memory/reader.go", "cmd/containerd-stargz-grpc/db/reader.go", "estargz/estargz.go", "estargz/build.go", "cache/cache.go"},
	"C03": {"estargz/build.go", "estargz/estargz.go", "estargz/gzip.go", "estargz/zstdchunked/zstdchunked.go", "estargz/externaltoc/externaltoc.go"},
	"C04": {"estargz/estargz.go", "estargz/gzip.go", "estargz/zstdchunked/zstdchunked.go", "estargz/externaltoc/externaltoc.go", "metadata/memory/reader.go", "cmd/containerd-stargz-grpc/db/reader.go", "cmd/containerd-stargz-grpc/db/db.go", "fs/reader/reader.go", "fs/layer/node.go", "fs/remote/resolver.go", "fs/remote/blob.go", "estargz/build.go", "util/decompressutil/gzip.go"},
	"C05": {"metadata/metadata.go", "metadata/memory/reader.go", "estargz/estargz.go", "cmd/containerd-stargz-grpc/db/reader.go", "cmd/containerd-stargz-grpc/db/db.go", "cmd/containerd-stargz-grpc/fsopts/fsopts.go"},
	"C06": {"fs/remote/blob.go", "fs/remote/resolver.go", "fs/remote/util.go", "cache/cache.go"},
	"C07": {"fs/layer/node.go", "fs/layer/layer.go", "service/service.go"},
	"C08": {"snapshot/snapshot.go", "fs/fs.go"},
	"C09": {"snapshot/snapshot.go", "service/service.go"},
	"C10": {"util/cacheutil/ttlcache.go", "util/cacheutil/lrucache.go", "fs/layer/layer.go", "cache/cache.go", "store/refs.go"},
	"C11": {"cache/cache.go", "util/cacheutil/lrucache.go", "fs/reader/reader.go", "fs/remote/blob.go"},
	"C12": {"fs/layer/layer.go", "fs/fs.go", "util/cacheutil/ttlcache.go", "util/namedmutex/namedmutex.go", "fs/remote/blob.go"},
	"C13": {"task/task.go", "fs/layer/layer.go", "fs/fs.go", "store/manager.go"},
	"C14": {"estargz/build.go", "estargz/estargz.go", "fs/layer/layer.go"},
	"C15": {"fs/layer/layer.go", "fs/reader/reader.go", "fs/remote/blob.go", "fs/fs.go"},
	"C16": {"store/manager.go", "store/fs.go", "store/refs.go"},
	"C17": {"fusemanager/service.go", "fusemanager/fusestore.go", "fusemanager/client.go"},
	"C18": {"service/keychain/cri/cri.go", "service/resolver/cri.go", "service/resolver/registry.go", "fs/remote/resolver.go"},
	"C19": {"nativeconverter/estargz/estargz.go", "nativeconverter/zstdchunked/zstdchunked.go", "nativeconverter/estargz/externaltoc/converter.go", "nativeconverter/estargz/externaltoc/fetcher.go", "estargz/build.go"},
	"C20": {"fs/source/source.go", "service/cri.go", "fs/fs.go", "cmd/ctr-remote/commands/rpull.go"},
}
