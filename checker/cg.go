package main

// First-party static call graph (incl. calls through captured func variables) and SCCs.

import (
	"sort"

	"golang.org/x/tools/go/ssa"
)

// calleesOf resolves the first-party functions a call instruction may invoke
// without interface dispatch: static callee, or a func-typed local/captured
// cell all of whose stores are function literals.
func calleesOf(ci ssa.CallInstruction) []*ssa.Function {
	if f := staticFn(ci); f != nil {
		return []*ssa.Function{f}
	}
	cc := ci.Common()
	if cc.IsInvoke() {
		return nil
	}
	var out []*ssa.Function
	for _, v := range reachingCellVals(cc.Value) {
		switch x := v.(type) {
		case *ssa.MakeClosure:
			out = append(out, x.Fn.(*ssa.Function))
		case *ssa.Function:
			out = append(out, x)
		}
	}
	return out
}

type callGraph struct {
	out map[*ssa.Function][]*ssa.Function
	// edge sites
	sites map[[2]*ssa.Function][]ssa.CallInstruction
}

func (c *Ctx) staticCG() *callGraph {
	g := &callGraph{out: map[*ssa.Function][]*ssa.Function{}, sites: map[[2]*ssa.Function][]ssa.CallInstruction{}}
	for _, f := range c.Funcs {
		if c.TestOnly[f] {
			continue
		}
		seen := map[*ssa.Function]bool{}
		eachInstr(f, func(i ssa.Instruction) {
			if ci, ok := asCall(i); ok {
				for _, t := range calleesOf(ci) {
					if t.Blocks == nil {
						continue
					}
					k := [2]*ssa.Function{f, t}
					g.sites[k] = append(g.sites[k], ci)
					if !seen[t] {
						seen[t] = true
						g.out[f] = append(g.out[f], t)
					}
				}
			}
			// a literal created here is (conservatively) considered invoked by f
			if mc, ok := i.(*ssa.MakeClosure); ok {
				t := mc.Fn.(*ssa.Function)
				if !seen[t] {
					seen[t] = true
					g.out[f] = append(g.out[f], t)
				}
			}
		})
		for _, a := range f.AnonFuncs {
			if !seen[a] {
				seen[a] = true
				g.out[f] = append(g.out[f], a)
			}
		}
	}
	return g
}

func (g *callGraph) reachable(from []*ssa.Function) map[*ssa.Function]bool {
	seen := map[*ssa.Function]bool{}
	var st []*ssa.Function
	for _, f := range from {
		if f != nil && !seen[f] {
			seen[f] = true
			st = append(st, f)
		}
	}
	for len(st) > 0 {
		f := st[len(st)-1]
		st = st[:len(st)-1]
		for _, t := range g.out[f] {
			if !seen[t] {
				seen[t] = true
				st = append(st, t)
			}
		}
	}
	return seen
}

// sccs returns the strongly connected components that contain a cycle.
func (c *Ctx) sccs(g *callGraph) [][]*ssa.Function {
	index := 0
	idx := map[*ssa.Function]int{}
	low := map[*ssa.Function]int{}
	on := map[*ssa.Function]bool{}
	var stack []*ssa.Function
	var out [][]*ssa.Function
	var strong func(v *ssa.Function)
	strong = func(v *ssa.Function) {
		idx[v] = index
		low[v] = index
		index++
		stack = append(stack, v)
		on[v] = true
		for _, w := range g.out[v] {
			if _, ok := idx[w]; !ok {
				strong(w)
				if low[w] < low[v] {
					low[v] = low[w]
				}
			} else if on[w] && idx[w] < low[v] {
				low[v] = idx[w]
			}
		}
		if low[v] == idx[v] {
			var comp []*ssa.Function
			for {
				w := stack[len(stack)-1]
				stack = stack[:len(stack)-1]
				on[w] = false
				comp = append(comp, w)
				if w == v {
					break
				}
			}
			cyc := len(comp) > 1
			if !cyc {
				for _, w := range g.out[v] {
					if w == v {
						cyc = true
					}
				}
			}
			if cyc {
				sort.Slice(comp, func(i, j int) bool { return c.fnKey(comp[i]) < c.fnKey(comp[j]) })
				out = append(out, comp)
			}
		}
	}
	for _, f := range c.Funcs {
		if c.TestOnly[f] {
			continue
		}
		if _, ok := idx[f]; !ok {
			strong(f)
		}
	}
	sort.Slice(out, func(i, j int) bool { return c.fnKey(out[i][0]) < c.fnKey(out[j][0]) })
	return out
}
