package main

import (
	"fmt"
	"go/token"
	"go/types"

	"golang.org/x/tools/go/ssa"
)

func init() {
	register("C18", "Structural premises of 'credentials and headers reach only their own image and host': redirect never pairs a non-nil header with a redirected location; every request in fs/remote takes (URL, header) from one redirect call, from one critical section of httpFetcher, or (blobURL, registry header) of one host; RegistryHost.Header is built from the same mirror entry as its Host; the CRI credential map is written only by PullImage from that request, deleted by RemoveImage before forwarding, indexed exactly by reference, under its mutex; ParseAuth returns credentials only through the server-address gate; multiCredsFuncs returns the first non-empty pair of one credential function for the captured reference. What the docker authorizer or retryablehttp do with them is not decided.", runC18)
}

// sameCallResults: a is result i and b is result j of the same call instruction.
func sameCallResults(a, b ssa.Value, callee string) (*ssa.Call, bool) {
	ea, ok1 := stripConv(a).(*ssa.Extract)
	eb, ok2 := stripConv(b).(*ssa.Extract)
	if !ok1 || !ok2 || ea.Tuple != eb.Tuple {
		return nil, false
	}
	call, ok := ea.Tuple.(*ssa.Call)
	if !ok || (callee != "" && calleeID(call) != callee) {
		return nil, false
	}
	return call, ea.Index == 0 && eb.Index == 1
}

func runC18(c *Ctx) {
	const rp = "fs/remote"
	const hf = rp + ".httpFetcher"
	remote := c.pkgFuncs(rp)

	// ---------- C18.a ----------
	c.clause("C18.a", "T9+T1", "redirect never returns a non-nil header together with a redirected location; every request built in fs/remote takes its URL and header from one consistent source", 9)
	red := c.mustFn(rp, "redirect")
	if red != nil && len(red.Params) >= 5 {
		blobURL, hdr := red.Params[1], red.Params[4]
		// result cells (named results with defers) or direct returns
		for _, r := range realReturns(red) {
			if len(r.Results) != 3 {
				continue
			}
			key := c.fnKey(red) + ":return-pair"
			uLoad, uIsCell := loadOf(r.Results[0])
			hLoad, hIsCell := loadOf(r.Results[1])
			if uIsCell && hIsCell {
				ua, ok1 := uLoad.(*ssa.Alloc)
				ha, ok2 := hLoad.(*ssa.Alloc)
				if !ok1 || !ok2 {
					c.unk(key, r.Pos(), "unrecognised result storage")
					continue
				}
				var uStores, hStores []*ssa.Store
				eachInstr(red, func(i ssa.Instruction) {
					if s, ok := i.(*ssa.Store); ok {
						if s.Addr == ua {
							uStores = append(uStores, s)
						}
						if s.Addr == ha {
							hStores = append(hStores, s)
						}
					}
				})
				bad := ""
				nh := 0
				for _, hs := range hStores {
					if isNilConst(hs.Val) || isZeroConst(hs.Val) {
						continue
					}
					nh++
					if stripConv(hs.Val) != ssa.Value(hdr) {
						bad = "a header other than the caller's is returned"
					}
					// must be accompanied by url = blobURL: a store of blobURL to url dominates or post-dominates hs within straight-line code
					paired := false
					for _, us := range uStores {
						if flowsFrom(us.Val, blobURL, 0) && (dominatesInstr(us, hs) || dominatesInstr(hs, us)) {
							// and no store of another url value on a common path
							paired = true
						}
					}
					if !paired {
						bad = "header result set without url = blobURL"
					}
					for _, us := range uStores {
						if flowsFrom(us.Val, blobURL, 0) || isZeroConst(us.Val) {
							continue
						}
						if s, ok := constString(us.Val); ok && s == "" {
							continue
						}
						g1, _ := reach(red, us, isInstr(hs), nil)
						g2, _ := reach(red, hs, isInstr(us), nil)
						if g1 != nil || g2 != nil {
							bad = "a path sets both a redirected URL and a non-nil header: registry headers would be sent to the redirect location"
						}
					}
				}
				if nh == 0 {
					c.bad(key, r.Pos(), "redirect never returns the caller's header (2xx case lost)")
				} else {
					c.verdict(key, r.Pos(), bad == "", "non-nil header only with url = blobURL; redirected location always with the zero header", bad)
				}
			} else {
				hv := r.Results[1]
				if isNilConst(hv) {
					c.okTrivial(key, r.Pos(), "nil header")
				} else {
					c.verdict(key, r.Pos(), flowsFrom(r.Results[0], blobURL, 0) && stripConv(hv) == ssa.Value(hdr), "header returned with blobURL", "non-nil header returned with a URL that is not blobURL")
				}
			}
		}
		// 3xx branch actually uses the Location as url and 2xx uses blobURL: status tests exist
	}

	// request construction sites: maps.Copy(req.Header, H) / stores to Request.Header of non-empty values
	type reqSite struct {
		f    *ssa.Function
		at   ssa.Instruction
		url  ssa.Value
		hdr  ssa.Value
	}
	var sites []reqSite
	nReq := 0
	for _, f := range remote {
		for _, nr := range callsIn(f, idIs("net/http.NewRequestWithContext")) {
			nReq++
			req := resultN(nr, 0)
			url := nr.Common().Args[2]
			// header sources: stores to req.Header and maps.Copy(req.Header, H)
			eachInstr(f, func(i ssa.Instruction) {
				switch x := i.(type) {
				case *ssa.Store:
					fa, ok := x.Addr.(*ssa.FieldAddr)
					if !ok || fieldName(fa) != "Header" || typeQName(fa.X.Type()) != "net/http.Request" || !sameValue(fa.X, req) {
						return
					}
					v := stripConv(x.Val)
					if mk, ok := v.(*ssa.MakeMap); ok && mk != nil {
						return // fresh empty header
					}
					sites = append(sites, reqSite{f, i, url, x.Val})
				case *ssa.Call:
					if calleeID(x) != "maps.Copy" {
						return
					}
					fa, ok := isFieldLoad(x.Call.Args[0], "net/http.Request", "Header")
					if !ok || fa == nil || !sameValue(fa.X, req) {
						return
					}
					sites = append(sites, reqSite{f, i, url, x.Call.Args[1]})
				}
			})
		}
	}
	if nReq < 5 {
		c.bad(rp+":request-sites", token.NoPos, fmt.Sprintf("only %d request construction sites found (5 on the pinned tree)", nReq))
	}
	c.buildCallers()
	for _, s := range sites {
		key := c.fnKey(s.f) + ":request-headers"
		if s.url == nil {
			c.unk(key, s.at.Pos(), "cannot find the URL of the request receiving headers")
			continue
		}
		u, h := stripConv(s.url), stripConv(s.hdr)
		up, uIsP := u.(*ssa.Parameter)
		hp, hIsP := h.(*ssa.Parameter)
		switch {
		case uIsP && hIsP:
			// obligation on every caller: (url arg, header arg) consistent
			ui, hi := paramIndex(s.f, up), paramIndex(s.f, hp)
			callers := c.callersOf[s.f]
			if len(callers) == 0 {
				c.unk(key, s.at.Pos(), "no callers found for a request helper")
			}
			for _, cs := range callers {
				args := cs.instr.(ssa.CallInstruction).Common().Args
				ck := fmt.Sprintf("%s→%s:url/header-pair", c.fnKey(cs.caller), s.f.Name())
				ua, ha := args[ui], args[hi]
				if _, ok := sameCallResults(ua, ha, rp+".redirect"); ok {
					c.ok(ck, cs.instr.Pos(), "URL and header are the two results of one redirect call")
					continue
				}
				// (f.blobURL, f.orgHeader) of the same receiver
				fu, ok1 := isFieldLoad(ua, hf, "blobURL")
				fh, ok2 := isFieldLoad(ha, hf, "orgHeader")
				if ok1 && ok2 && fu != nil && fh != nil && addrKey(fu.X) == addrKey(fh.X) {
					c.ok(ck, cs.instr.Pos(), "registry blob URL with the registry's own header (same fetcher)")
					continue
				}
				// blobURL built from host.* with host.Header of the same host variable
				if hfa, ok := isFieldLoadAny(ha, "Header"); ok && typeQName(hfa.X.Type()) == "github.com/containerd/containerd/v2/core/remotes/docker.RegistryHost" {
					if urlBuiltFrom(ua, hfa, 0) {
						c.ok(ck, cs.instr.Pos(), "blob URL formatted from the same RegistryHost whose Header is passed")
						continue
					}
				}
				c.bad(ck, cs.instr.Pos(), "request helper called with a URL and a header that do not come from one source: configured headers may reach another host")
			}
			c.ok(key, s.at.Pos(), "helper: pairing checked at "+fmt.Sprint(len(callers))+" call sites")
		default:
			// fields of the fetcher read in one critical section
			uf, ok1 := isFieldLoad(u, hf, "url")
			hfld, ok2 := isFieldLoad(h, hf, "header")
			if !(ok1 && ok2) {
				// via locals assigned under the lock
				for _, rv := range reachingVals(u) {
					if x, ok := isFieldLoad(rv, hf, "url"); ok {
						uf, ok1 = x, true
					}
				}
				for _, rv := range reachingVals(h) {
					if x, ok := isFieldLoad(rv, hf, "header"); ok {
						hfld, ok2 = x, true
					}
				}
			}
			if !(ok1 && ok2) || uf == nil || hfld == nil {
				c.bad(key, s.at.Pos(), "request URL/header do not come from the fetcher's (url, header) pair")
				continue
			}
			ul, hl := loadInstrOf(uf), loadInstrOf(hfld)
			if ul == nil || hl == nil {
				c.unk(key, s.at.Pos(), "cannot locate field loads")
				continue
			}
			lk := addrKey(uf.X) + ".urlMu"
			heldU, heldH := c.locksAt(ul)[lk], c.locksAt(hl)[lk]
			same := heldU != lockNone && heldH != lockNone && sameRegion(c, s.f, ul, hl, lk)
			c.verdict(key, s.at.Pos(), same, "url and header read in one urlMu critical section", "url and header are not read in one urlMu critical section: a refresh in between sends the registry's headers to a stale redirect location")
		}
	}
	// literal in newHTTPFetcher and stores in refreshURL: url/header written together from one redirect call
	for _, f := range remote {
		var us, hs []*ssa.Store
		for _, a := range c.fieldAccesses(hf, "url", []*ssa.Function{f}) {
			if a.write {
				us = append(us, a.instr.(*ssa.Store))
			}
		}
		for _, a := range c.fieldAccesses(hf, "header", []*ssa.Function{f}) {
			if a.write {
				hs = append(hs, a.instr.(*ssa.Store))
			}
		}
		if len(us) == 0 && len(hs) == 0 {
			continue
		}
		key := c.fnKey(f) + ":url/header-write"
		if len(us) != 1 || len(hs) != 1 {
			c.bad(key, f.Pos(), "url and header are not written together")
			continue
		}
		_, ok := sameCallResults(us[0].Val, hs[0].Val, rp+".redirect")
		// written together: each store is executed whenever the other is
		if ok {
			a, b := ssa.Instruction(us[0]), ssa.Instruction(hs[0])
			if !dominatesInstr(a, b) {
				a, b = b, a
			}
			if !dominatesInstr(a, b) {
				ok = false
			} else if got, _ := reach(f, a, isReturn, newCuts().addInstr(b)); got != nil {
				ok = false // a path performs one store but not the other
			}
		}
		fresh := isFresh(us[0].Addr.(*ssa.FieldAddr).X)
		lk := addrKey(us[0].Addr.(*ssa.FieldAddr).X) + ".urlMu"
		locked := fresh || (c.locksAt(us[0])[lk] == lockW && c.locksAt(hs[0])[lk] == lockW && sameRegion(c, f, us[0], hs[0], lk))
		c.verdict(key, us[0].Pos(), ok && locked, "url and header stored from one redirect call in one critical section", "url/header written from different sources or outside one critical section")
	}

	// ---------- C18.b ----------
	c.clause("C18.b", "T4", "httpFetcher.url and httpFetcher.header are accessed only under urlMu", 6)
	c.guardedBy(hf, "url", "urlMu", true)
	c.guardedBy(hf, "header", "urlMu", true)

	// ---------- C18.c ----------
	c.clause("C18.c", "T9", "RegistryHost.Header is built from the same mirror entry as RegistryHost.Host", 1)
	const rh = "github.com/containerd/containerd/v2/core/remotes/docker.RegistryHost"
	for _, f := range c.pkgFuncs("service/resolver") {
		var hostSt, hdrSt *ssa.Store
		eachInstr(f, func(i ssa.Instruction) {
			s, ok := i.(*ssa.Store)
			if !ok {
				return
			}
			fa, ok := s.Addr.(*ssa.FieldAddr)
			if !ok || typeQName(fa.X.Type()) != rh {
				return
			}
			if a, ok := fa.X.(*ssa.Alloc); !ok || a.Comment != "complit" {
				return
			}
			switch fieldName(fa) {
			case "Host":
				hostSt = s
			case "Header":
				hdrSt = s
			}
		})
		if hdrSt == nil {
			continue
		}
		key := c.fnKey(f) + ":RegistryHost{Host,Header}"
		if hostSt == nil {
			c.bad(key, hdrSt.Pos(), "RegistryHost literal sets Header without Host")
			continue
		}
		hfa, ok := isFieldLoadAny(hostSt.Val, "Host")
		if !ok {
			c.unk(key, hostSt.Pos(), "Host is not taken from a mirror entry field")
			continue
		}
		src := hfa // the FieldAddr's X is the mirror entry
		good := true
		why := ""
		n := 0
		for _, v := range valueSourcesIP(hdrSt.Val, f, 0) {
			if isNilConst(v) {
				continue
			}
			mk, ok := v.(*ssa.MakeMap)
			if !ok {
				good, why = false, "header is not a freshly built map"
				continue
			}
			for _, r := range *mk.Referrers() {
				mu, ok := r.(*ssa.MapUpdate)
				if !ok || mu.Map != mk {
					continue
				}
				n++
				// key = extract(next(range X.Header)) #1
				e, ok := stripConv(mu.Key).(*ssa.Extract)
				if !ok {
					good, why = false, "header key not taken from the mirror entry"
					continue
				}
				nx, ok := e.Tuple.(*ssa.Next)
				if !ok {
					good, why = false, "header key not from a range"
					continue
				}
				rg, ok := nx.Iter.(*ssa.Range)
				if !ok {
					good = false
					continue
				}
				rfa, ok := isFieldLoadAny(resolveParam(rg.X), "Header")
				if !ok || rfa.X != src.X {
					good, why = false, "header entries come from a different mirror entry than Host"
				}
			}
		}
		c.verdict(key, hdrSt.Pos(), good && n > 0, "Header entries range over the Header of the entry that provides Host", "RegistryHost.Header not bound to its own host: "+why)
	}

	clauseHubAliasOnContactedHost(c, "C18.f")

	// ---------- C18.d ----------
	const cri = "service/keychain/cri"
	const is = cri + ".instrumentedService"
	c.clause("C18.d", "T4+T3+T5", "CRI credential map: under configMu; written only in PullImage with that request's Auth before forwarding; deleted only in RemoveImage before forwarding; read by exact index keyed by reference.Spec.String()", 7)
	c.guardedBy(is, "config", "configMu", true)
	cfgAcc := c.nestedMapAccesses(is, map[string]bool{"config": true}, c.liveFuncs())
	const specStr = "github.com/containerd/containerd/v2/pkg/reference.(Spec).String"
	for _, a := range cfgAcc {
		key := fmt.Sprintf("%s:config:%s", c.fnKey(a.fn), a.op)
		if a.depth != 1 {
			continue
		}
		fk := c.fnKey(a.fn)
		if a.key != nil {
			if m, _ := keyOrigin(a.key); m != specStr {
				c.bad(key, a.instr.Pos(), "credential map keyed by "+m+" instead of the image reference")
				continue
			}
		}
		switch a.op {
		case "update":
			if fk != cri+".(*instrumentedService).PullImage" {
				c.bad(key, a.instr.Pos(), "credentials stored outside PullImage")
				continue
			}
			mu := a.instr.(*ssa.MapUpdate)
			// value = r.GetAuth() of the request parameter; key parsed from the same request
			val, ok := stripConv(mu.Value).(*ssa.Call)
			goodVal := ok && calleeObj(val) != nil && calleeObj(val).Name() == "GetAuth" && isParam(val.Call.Args[0])
			goodKey := false
			if kc, ok := stripConv(mu.Key).(*ssa.Call); ok && len(kc.Call.Args) > 0 {
				goodKey = derivesFromParamCall(kc.Call.Args[0], a.fn, val, 0)
			}
			fwd := callsIn(a.fn, func(id string, ci ssa.CallInstruction) bool {
				o := calleeObj(ci)
				return o != nil && o.Name() == "PullImage" && ci.Common().IsInvoke()
			})
			before := len(fwd) > 0
			for _, fw := range fwd {
				if okp, _ := mustPass(a.fn, fw, newCuts().addInstr(mu)); !okp {
					before = false
				}
			}
			c.verdict(key, mu.Pos(), goodVal && goodKey && before, "config[ref(r)] = r.GetAuth() before the pull is forwarded", "credentials stored from another request, under another key, or after forwarding")
		case "delete":
			if fk != cri+".(*instrumentedService).RemoveImage" {
				c.bad(key, a.instr.Pos(), "credentials deleted outside RemoveImage")
				continue
			}
			fwd := callsIn(a.fn, func(id string, ci ssa.CallInstruction) bool {
				o := calleeObj(ci)
				return o != nil && o.Name() == "RemoveImage" && ci.Common().IsInvoke()
			})
			before := len(fwd) > 0
			for _, fw := range fwd {
				if okp, _ := mustPass(a.fn, fw, newCuts().addInstr(a.instr)); !okp {
					before = false
				}
			}
			c.verdict(key, a.instr.Pos(), before, "credentials dropped before the removal is forwarded", "RemoveImage forwards without dropping the credentials on some path")
		case "lookup":
			c.verdict(key, a.instr.Pos(), fk == cri+".(*instrumentedService).credentials", "exact index in credentials", "credential map read outside credentials()")
		default:
			c.bad(key, a.instr.Pos(), "unexpected operation on the credential map")
		}
	}
	// no iteration over the map
	for _, f := range c.pkgFuncs(cri) {
		eachInstr(f, func(i ssa.Instruction) {
			if rg, ok := i.(*ssa.Range); ok {
				if _, ok := isFieldLoad(rg.X, is, "config"); ok {
					c.bad(c.fnKey(f)+":config:range", rg.Pos(), "iteration over the credential map: credentials of other images become candidates")
				}
			}
		})
	}
	if f := c.mustFn(cri, "(*instrumentedService).credentials"); f != nil {
		// non-constant credentials only from ParseAuth(cfg, host) where cfg is the looked-up entry
		for _, r := range realReturns(f) {
			for idx := 0; idx < 2; idx++ {
				for _, v := range retVals(r, idx) {
					if s, ok := constString(v); ok && s == "" {
						continue
					}
					e, ok := v.(*ssa.Extract)
					good := false
					if ok {
						if pc, ok := e.Tuple.(*ssa.Call); ok && calleeID(pc) == "service/resolver.ParseAuth" {
							if ce, ok := stripConv(pc.Call.Args[0]).(*ssa.Extract); ok {
								if lk, ok := ce.Tuple.(*ssa.Lookup); ok {
									if _, ok := isFieldLoad(lk.X, is, "config"); ok {
										good = true
									}
								}
							}
						}
					}
					c.verdict(c.fnKey(f)+":result-source", r.Pos(), good, "credentials come from ParseAuth of the entry indexed by the reference", "credentials returned from another source")
				}
			}
		}
	}

	// ---------- C18.e ----------
	c.clause("C18.e", "T1", "ParseAuth returns a non-empty credential only when ServerAddress is empty or its host equals the contacted host", 3)
	if f := c.mustFn("service/resolver", "ParseAuth"); f != nil {
		gate := condEdges(f, func(cond ssa.Value) int {
			b, ok := cond.(*ssa.BinOp)
			if !ok || (b.Op != token.EQL && b.Op != token.NEQ) {
				return 0
			}
			sign := 1
			if b.Op == token.NEQ {
				sign = -1
			}
			// ServerAddress == ""
			if _, ok := isFieldLoadAny(b.X, "ServerAddress"); ok {
				if s, ok := constString(b.Y); ok && s == "" {
					return sign
				}
			}
			// host == u.Host
			isHostParam := func(v ssa.Value) bool { p, ok := stripConv(v).(*ssa.Parameter); return ok && p == f.Params[1] }
			isURLHost := func(v ssa.Value) bool {
				fa, ok := isFieldLoadAny(v, "Host")
				return ok && typeQName(fa.X.Type()) == "net/url.URL"
			}
			if (isHostParam(b.X) && isURLHost(b.Y)) || (isHostParam(b.Y) && isURLHost(b.X)) {
				return sign
			}
			return 0
		})
		n := 0
		for _, r := range realReturns(f) {
			nonEmpty := false
			for idx := 0; idx < 2; idx++ {
				for _, v := range retVals(r, idx) {
					if s, ok := constString(v); !ok || s != "" {
						nonEmpty = true
					}
				}
			}
			if !nonEmpty {
				continue
			}
			n++
			okp, path := mustPass(f, r, newCuts().addEdges(gate))
			c.verdict(c.fnKey(f)+":credential-return", r.Pos(), okp && len(gate) >= 2, "credential returned only through the server-address gate", "credential returned although the request named a different server address: "+c.pathStr(f, path))
		}
		if n < 3 {
			c.bad(c.fnKey(f)+":credential-returns", f.Pos(), "fewer credential-returning paths than on the pinned tree")
		}
		// the URL compared is parsed from ServerAddress
	}

	// ---------- C18.f ----------
	c.clause("C18.f", "T1+T9", "multiCredsFuncs returns the first non-empty pair produced by one credential function called with (host, captured ref)", 1)
	if mf := c.mustFn("service/resolver", "multiCredsFuncs"); mf != nil && len(mf.AnonFuncs) == 1 {
		lit := mf.AnonFuncs[0]
		for _, r := range realReturns(lit) {
			v0, v1 := retVals(r, 0), retVals(r, 1)
			nonEmpty := false
			for _, v := range append(v0, v1...) {
				if s, ok := constString(v); !ok || s != "" {
					nonEmpty = true
				}
			}
			if !nonEmpty {
				continue
			}
			key := c.fnKey(lit) + ":return-pair"
			if len(v0) != 1 || len(v1) != 1 {
				c.unk(key, r.Pos(), "cannot resolve returned credential")
				continue
			}
			call, ok := sameCallResults(v0[0], v1[0], "")
			good := ok
			if ok {
				args := call.Call.Args
				good = len(args) == 2 && stripConv(args[0]) == ssa.Value(lit.Params[0]) && addrKey(args[1]) == "ref"
				// callee is an element of the captured credsFuncs
				if _, isIdx := loadOf(call.Call.Value); !isIdx {
					good = false
				}
			}
			// guarded by username != "" || secret != ""
			ne := condEdges(lit, func(cond ssa.Value) int {
				b, ok := cond.(*ssa.BinOp)
				if !ok || b.Op != token.NEQ {
					return 0
				}
				if s, ok := constString(b.Y); ok && s == "" && (stripConv(b.X) == stripConv(v0[0]) || stripConv(b.X) == stripConv(v1[0])) {
					return 1
				}
				return 0
			})
			okp, _ := mustPass(lit, r, newCuts().addEdges(ne))
			c.verdict(key, r.Pos(), good && okp && len(ne) > 0, "both values from one credsFunc(host, ref) call, returned on its first non-empty answer", "credential pair mixes sources, uses another ref/host, or is returned when empty")
		}
	}
	c.assume("docker.Authorizer uses the credential function only for the host it is asked about; go-retryablehttp does not copy headers across redirects (redirects are not followed: RoundTrip is used directly)")
}

func paramIndex(f *ssa.Function, p *ssa.Parameter) int {
	for i, q := range f.Params {
		if q == p {
			return i
		}
	}
	return -1
}

// isFieldLoadAny: v is a load (or value Field) of a field called name of any struct; returns the FieldAddr (nil for value Field… then ok=false).
func isFieldLoadAny(v ssa.Value, name string) (*ssa.FieldAddr, bool) {
	v = stripConv(v)
	p, ok := loadOf(v)
	if !ok {
		return nil, false
	}
	fa, ok := p.(*ssa.FieldAddr)
	if !ok || fieldName(fa) != name {
		return nil, false
	}
	return fa, true
}

func loadInstrOf(fa *ssa.FieldAddr) ssa.Instruction {
	if fa.Referrers() == nil {
		return nil
	}
	for _, r := range *fa.Referrers() {
		if u, ok := r.(*ssa.UnOp); ok && u.Op == token.MUL {
			return u
		}
	}
	return nil
}

// sameRegion: a and b lie in one critical section of lock key lk: no release of lk between them on any path.
func sameRegion(c *Ctx, f *ssa.Function, a, b ssa.Instruction, lk string) bool {
	var unlocks []ssa.Instruction
	eachInstr(f, func(i ssa.Instruction) {
		if ci, ok := asCall(i); ok {
			if k, _, rel := lockOp(ci); rel && k == lk {
				unlocks = append(unlocks, i)
			}
		}
	})
	first, second := a, b
	if !dominatesInstr(a, b) {
		first, second = b, a
	}
	if !dominatesInstr(first, second) {
		return false
	}
	// every path first→second avoids unlocks  ⇔  second unreachable from any unlock that is reachable from first without passing second
	for _, u := range unlocks {
		if g1, _ := reach(f, first, isInstr(u), newCuts().addInstr(second)); g1 != nil {
			if g2, _ := reach(f, u, isInstr(second), nil); g2 != nil {
				return false
			}
		}
	}
	return true
}

// urlBuiltFrom: url value is formatted (fmt.Sprintf/concatenation, through phis) from fields of the same struct value as hfa.X.
func urlBuiltFrom(u ssa.Value, hfa *ssa.FieldAddr, depth int) bool {
	if depth > 6 {
		return false
	}
	u = stripConv(u)
	switch x := u.(type) {
	case *ssa.Phi:
		for _, e := range x.Edges {
			if !urlBuiltFrom(e, hfa, depth+1) {
				return false
			}
		}
		return true
	case *ssa.BinOp:
		if x.Op == token.ADD {
			return urlBuiltFrom(x.X, hfa, depth+1)
		}
	case *ssa.Call:
		if calleeID(x) == "fmt.Sprintf" {
			// varargs slice: find stores of fields of the same base
			for _, a := range x.Call.Args[1:] {
				if sl, ok := a.(*ssa.Slice); ok {
					if al, ok := sl.X.(*ssa.Alloc); ok {
						for _, r := range *al.Referrers() {
							if ia, ok := r.(*ssa.IndexAddr); ok {
								for _, rr := range *ia.Referrers() {
									if st, ok := rr.(*ssa.Store); ok {
										if fa, ok := isFieldLoadAny(st.Val, "Scheme"); ok && fa.X == hfa.X {
											return true
										}
									}
								}
							}
						}
					}
				}
			}
		}
	}
	return false
}

// derivesFromParamCall: v is computed (through calls) from a getter on the same parameter as call `of`'s receiver.
func derivesFromParamCall(v ssa.Value, f *ssa.Function, of *ssa.Call, depth int) bool {
	if depth > 6 || of == nil {
		return false
	}
	v = stripConv(v)
	if v == stripConv(of.Call.Args[0]) {
		return true
	}
	switch x := v.(type) {
	case *ssa.Call:
		for _, a := range x.Call.Args {
			if derivesFromParamCall(a, f, of, depth+1) {
				return true
			}
		}
	case *ssa.Extract:
		return derivesFromParamCall(x.Tuple, f, of, depth+1)
	case *ssa.UnOp:
		if p, ok := loadOf(v); ok {
			if a, ok := p.(*ssa.Alloc); ok {
				for _, r := range *a.Referrers() {
					if s, ok := r.(*ssa.Store); ok && s.Addr == a && derivesFromParamCall(s.Val, f, of, depth+1) {
						return true
					}
				}
			}
		}
	case *ssa.Phi:
		for _, e := range x.Edges {
			if derivesFromParamCall(e, f, of, depth+1) {
				return true
			}
		}
	}
	return false
}

var _ = types.Typ
