package main

import (
	"flag"
	"fmt"
	"os"
	"sort"
	"strconv"
	"strings"
	"time"
)

type propDef struct {
	id          string
	explanation string
	run         func(c *Ctx)
}

var props = map[string]*propDef{}

func register(id, explanation string, run func(c *Ctx)) {
	props[id] = &propDef{id, explanation, run}
}

func main() {
	repo := flag.String("repo", "/repo", "repository working tree")
	verif := flag.String("verif", "/verif", "verif directory (evidence, known findings)")
	prop := flag.String("prop", "", "property id (C01..C20) or 'all'")
	tier := flag.String("tier", "quick", "quick|thorough")
	overlay := flag.String("overlay", "", "comma separated orig=replacement file pairs (self-test mutants)")
	list := flag.Bool("list", false, "list obligations")
	discover := flag.String("discover", "", "print candidate statistics (locks) instead of checking")
	flag.Parse()
	seed := 0
	if s := os.Getenv("VERIF_SEED"); s != "" {
		seed, _ = strconv.Atoi(s)
	}
	if *discover != "" {
		os.Setenv("PATH", "/opt/veriftools/go1.26.8/bin:"+os.Getenv("PATH"))
		os.Unsetenv("GOWORK")
		base, err := load(*repo, false, nil, "")
		if err != nil {
			fmt.Fprintln(os.Stderr, "infrastructure failure:", err)
			os.Exit(2)
		}
		switch *discover {
		case "locks":
			base.discoverLocks()
		case "errs":
			base.discoverErrDrops()
		case "pairs":
			base.discoverLockPairs()
		}
		os.Exit(0)
	}
	if *prop == "" {
		fmt.Fprintln(os.Stderr, "usage: stargzlint -prop C01 [-tier quick|thorough]")
		os.Exit(2)
	}
	var ids []string
	if *prop == "all" {
		for id := range props {
			ids = append(ids, id)
		}
		sort.Strings(ids)
	} else {
		for _, id := range strings.Split(*prop, ",") {
			if props[id] == nil {
				fmt.Fprintf(os.Stderr, "unknown property %s\n", id)
				os.Exit(2)
			}
			ids = append(ids, id)
		}
	}
	ov := map[string][]byte{}
	if *overlay != "" {
		for _, pr := range strings.Split(*overlay, ",") {
			kv := strings.SplitN(pr, "=", 2)
			if len(kv) != 2 {
				fmt.Fprintln(os.Stderr, "bad -overlay")
				os.Exit(2)
			}
			b, err := os.ReadFile(kv[1])
			if err != nil {
				fmt.Fprintln(os.Stderr, err)
				os.Exit(2)
			}
			ov[kv[0]] = b
		}
	}
	os.Setenv("PATH", "/opt/veriftools/go1.26.8/bin:"+os.Getenv("PATH"))
	os.Unsetenv("GOWORK")
	start := time.Now()
	whole := *tier == "thorough"
	base, err := load(*repo, whole, ov, "")
	if err != nil {
		fmt.Fprintln(os.Stderr, "infrastructure failure:", err)
		os.Exit(2)
	}
	loadS := time.Since(start).Seconds()
	// thorough: a second view of the tree for another GOARCH so that build-constrained files are analysed too
	var alt *Ctx
	if whole {
		a, err := load(*repo, false, ov, "arm64")
		if err != nil {
			fmt.Fprintln(os.Stderr, "infrastructure failure (GOARCH=arm64 load):", err)
			os.Exit(2)
		}
		alt = a
	}
	exit := 0
	for _, id := range ids {
		pstart := time.Now()
		c := base.fork(id, *tier)
		func() {
			defer func() {
				if r := recover(); r != nil {
					c.clause(id+".internal", "engine", "checker panic", 0)
					c.unk("panic", 0, fmt.Sprintf("checker panicked: %v", r))
					if os.Getenv("VERIF_DEBUG") != "" {
						panic(r)
					}
				}
			}()
			props[id].run(c)
			runGeneric(c, id)
		}()
		if *list {
			for _, o := range c.obs {
				fmt.Printf("%-11s %-9s %-60s %s  %s\n", o.Status, o.Clause, o.Key, o.Pos, o.Detail)
			}
		}
		extra := map[string]any{"load_s": loadS, "whole_program": whole}
		if alt != nil {
			ac := alt.fork(id, *tier)
			func() {
				defer func() {
					if r := recover(); r != nil {
						ac.clause(id+".internal", "engine", "checker panic", 0)
						ac.unk("panic(GOARCH=arm64)", 0, fmt.Sprintf("checker panicked: %v", r))
					}
				}()
				props[id].run(ac)
				runGeneric(ac, id)
			}()
			nAlt := 0
			for _, o := range ac.obs {
				nAlt++
				if o.st != Discharged {
					// the same construct already reported by the primary view is not reported twice
					dup := false
					for _, p := range c.obs {
						if p.Clause == o.Clause && p.Key == o.Key && p.st != Discharged {
							dup = true
						}
					}
					if dup {
						continue
					}
					o.Key = "GOARCH=arm64:" + o.Key
					c.obs = append(c.obs, o)
				}
			}
			extra["goarch_variants"] = []string{"amd64 (whole program, dependencies type-checked from source)", "arm64 (first-party syntax)"}
			extra["obligations_arm64"] = nAlt
		}
		st := pstart
		if len(ids) == 1 {
			st = start
		}
		rc := c.finish(*verif, st, props[id].explanation, seed, extra)
		if rc > exit {
			exit = rc
		}
	}
	os.Exit(exit)
}

func (c *Ctx) fork(prop, tier string) *Ctx {
	n := *c
	n.Prop = prop
	n.Tier = tier
	n.obs = nil
	n.clauses = map[string]*clauseInfo{}
	n.clauseOrder = nil
	n.assumptions = nil
	n.notes = nil
	return &n
}
