package main

import (
	"fmt"
	"go/token"
	"go/types"
	"sort"
	"strings"

	"golang.org/x/tools/go/ssa"
)

var c04Pkgs = []string{"estargz", "estargz/zstdchunked", "estargz/externaltoc", "estargz/errorutil", "metadata/memory", "metadata",
	"cmd/containerd-stargz-grpc/db", "fs/reader", "fs/layer", "fs/remote", "util/decompressutil"}

func init() {
	register("C04", "Structural necessary conditions for 'untrusted bytes cause errors, never a crash': (a) every constant index/slice in the footer and Content-Range parsers is within a length proven on all paths, (b) integers derived from ParseFooter results and from TOC entries during reader construction are range-checked before use as slice bound or allocation size, (c) every recursion cycle in the untrusted-input packages carries a recognised bound (path-prefix measure, depth counter, one-shot flag), (d) no pointer/interface obtained with a discarded error is used unchecked, (e) explicit panics are a reviewed table. Does not decide absence of all panics (non-constant indices elsewhere, integer overflow), loop termination, or blocking on I/O.", runC04)
}

func (c *Ctx) scopeFuncs(pkgs []string) []*ssa.Function {
	var out []*ssa.Function
	for _, p := range pkgs {
		out = append(out, c.pkgFuncs(p)...)
	}
	return out
}

func isParseFooterSig(f *ssa.Function) bool {
	if f.Name() != "ParseFooter" || f.Signature.Recv() == nil {
		return false
	}
	s := f.Signature
	if s.Params().Len() != 1 || s.Results().Len() != 4 {
		return false
	}
	sl, ok := s.Params().At(0).Type().Underlying().(*types.Slice)
	return ok && types.Identical(sl.Elem(), types.Typ[types.Byte])
}

func runC04(c *Ctx) {
	live := c.liveFuncs()
	scope := c.scopeFuncs(c04Pkgs)

	// ---- C04.a ----
	c.clause("C04.a", "T6a", "constant indices/slices of untrusted bytes in every Decompressor.ParseFooter implementation and in the Content-Range parser are within a length established on all paths", 12)
	nImpl := 0
	for _, f := range live {
		if f.Parent() == nil && isParseFooterSig(f) {
			nImpl++
			c.checkConstIndexing(f, map[*ssa.Parameter]int64{}, 0, map[*ssa.Function]bool{})
		}
	}
	if nImpl < 4 {
		c.unk("ParseFooter-implementations", token.NoPos, fmt.Sprintf("only %d ParseFooter implementations found (4 on the pinned tree)", nImpl))
	}
	if f := c.mustFn("fs/remote", "parseRange"); f != nil {
		c.checkConstIndexing(f, map[*ssa.Parameter]int64{}, 0, map[*ssa.Function]bool{})
	}

	// ---- C04.b ----
	c.clause("C04.b", "T6b", "integers derived from ParseFooter results (all callers) and from TOC entry fields during reader construction are lower- and upper-bounded before use as slice bound or allocation size", 4)
	isPFCall := func(v ssa.Value) bool {
		e, ok := v.(*ssa.Extract)
		if !ok || e.Index > 2 {
			return false
		}
		call, ok := e.Tuple.(*ssa.Call)
		if !ok {
			return false
		}
		o := calleeObj(call)
		return o != nil && o.Name() == "ParseFooter" && o.Type().(*types.Signature).Results().Len() == 4
	}
	tocTypes := map[string]bool{"estargz.TOCEntry": true, "estargz.JTOC": true}
	isTOCInt := func(v ssa.Value) bool {
		p, ok := loadOf(v)
		if !ok {
			return false
		}
		fa, ok := p.(*ssa.FieldAddr)
		if !ok || !tocTypes[typeQName(fa.X.Type())] {
			return false
		}
		b, ok := v.Type().Underlying().(*types.Basic)
		return ok && b.Info()&types.IsInteger != 0
	}
	// the TOC offset handed in through metadata.Options comes from a manifest annotation: untrusted as well
	isOptOffset := func(v ssa.Value) bool { // not armed: the bounds prover cannot relate size-offset to the comparisons of offset (see DESIGN 8.5, C04-10)
		if fl, ok := v.(*ssa.Field); ok {
			if st, ok := fl.X.Type().Underlying().(*types.Struct); ok && typeQName(fl.X.Type()) == "metadata.Options" {
				return st.Field(fl.Field).Name() == "TOCOffset"
			}
			return false
		}
		p, ok := loadOf(v)
		if !ok {
			return false
		}
		fa, ok := p.(*ssa.FieldAddr)
		return ok && typeQName(fa.X.Type()) == "metadata.Options" && fieldName(fa) == "TOCOffset"
	}
	_ = isOptOffset
	// construction-phase functions for TOC taint
	g := c.staticCG()
	var ctor []*ssa.Function
	for _, nm := range [][2]string{{"estargz", "Open"}, {"metadata/memory", "NewReader"}, {"cmd/containerd-stargz-grpc/db", "NewReader"}} {
		if f := c.mustFn(nm[0], nm[1]); f != nil {
			ctor = append(ctor, f)
		}
	}
	ctorReach := g.reachable(ctor)
	type work struct {
		f      *ssa.Function
		params map[*ssa.Parameter]bool
		depth  int
	}
	var queue []work
	done := map[string]bool{}
	for _, f := range live {
		has := false
		eachInstr(f, func(i ssa.Instruction) {
			if v, ok := i.(ssa.Value); ok && (isPFCall(v) || (ctorReach[f] && isTOCInt(v))) {
				has = true
			}
		})
		if has {
			queue = append(queue, work{f, map[*ssa.Parameter]bool{}, 0})
		}
	}
	for len(queue) > 0 {
		w := queue[0]
		queue = queue[1:]
		sig := c.fnKey(w.f)
		var ps []string
		for p := range w.params {
			ps = append(ps, p.Name())
		}
		sort.Strings(ps)
		sig += "|" + strings.Join(ps, ",")
		if done[sig] {
			continue
		}
		done[sig] = true
		f := w.f
		t := &taint{c: c, memo: map[ssa.Value]int{}, params: w.params, srcOK: func(v ssa.Value) bool {
			return isPFCall(v) || (ctorReach[f] && isTOCInt(v))
		}}
		sink := func(what string, v ssa.Value, at ssa.Instruction) {
			if v == nil || !t.tainted(v, 0) {
				return
			}
			lo, up := c.boundedAt(v, at, 0)
			key := fmt.Sprintf("%s:%s(%s)", c.fnKey(f), what, valName(v))
			switch {
			case lo && up:
				c.ok(key, at.Pos(), "untrusted size has dominating lower and upper bound tests")
			case !lo && !up:
				c.bad(key, at.Pos(), "untrusted integer used as "+what+" without any range check")
			case !lo:
				c.bad(key, at.Pos(), "untrusted integer used as "+what+" without a lower-bound (>= 0) test: a negative value panics")
			default:
				c.bad(key, at.Pos(), "untrusted integer used as "+what+" without an upper-bound test: a huge value panics or exhausts memory")
			}
		}
		eachInstr(f, func(i ssa.Instruction) {
			switch x := i.(type) {
			case *ssa.MakeSlice:
				sink("make-len", x.Len, x)
				if x.Cap != x.Len {
					sink("make-cap", x.Cap, x)
				}
			case *ssa.Slice:
				sink("slice-low", x.Low, x)
				sink("slice-high", x.High, x)
			case *ssa.MakeMap:
				// size hints never panic for negative values; huge hints allocate
			case ssa.CallInstruction:
				tf := staticFn(x)
				if tf == nil || tf.Blocks == nil || w.depth >= 3 || tf.Pkg == nil || !isFirstParty(tf.Pkg.Pkg.Path()) {
					return
				}
				sub := map[*ssa.Parameter]bool{}
				for ai, a := range x.Common().Args {
					if ai < len(tf.Params) && t.tainted(a, 0) {
						sub[tf.Params[ai]] = true
					}
				}
				if len(sub) > 0 {
					queue = append(queue, work{tf, sub, w.depth + 1})
				}
			}
		})
	}

	// ---- C04.c ----
	c.clause("C04.c", "T7", "every recursion cycle in the untrusted-input packages is measure-decreasing on a path prefix, depth-guarded, visited-guarded or flag-guarded", 9)
	inScope := map[*ssa.Function]bool{}
	for _, f := range scope {
		inScope[f] = true
	}
	inScope2 := func(comp []*ssa.Function) bool {
		for _, f := range comp {
			if inScope[f] {
				return true
			}
		}
		return false
	}
	sccExceptions := map[string]string{
		"fs/remote.(*blob).fetchRange": "tail retry taken only when a shared single-flight fetch succeeded but the chunk is no longer in the cache; each level has completed a full registry round-trip, so the depth is bounded by the number of consecutive cache losses, not by input bytes (DESIGN F16)",
	}
	for _, comp := range c.sccs(g) {
		if !inScope2(comp) {
			continue
		}
		inComp := map[*ssa.Function]bool{}
		var names []string
		for _, f := range comp {
			inComp[f] = true
			names = append(names, c.fnKey(f))
		}
		sccName := strings.Join(names, "+")
		// recursive call sites: calls from a member to a member (through literals: call to the named member)
		for _, f := range comp {
			for _, t := range g.out[f] {
				if !inComp[t] {
					continue
				}
				sites := g.sites[[2]*ssa.Function{f, t}]
				for _, ci := range sites {
					key := fmt.Sprintf("%s:recursion→%s", c.fnKey(f), c.fnKey(t))
					if why, ok := sccExceptions[sccName]; ok && len(sites) == 1 && len(comp) == 1 {
						c.ok(key, ci.Pos(), "reasoned exception: "+why)
						continue
					}
					kind, detail := c.classifyRecursion(f, t, ci, comp)
					if kind != "" {
						c.ok(key, ci.Pos(), kind+": "+detail)
					} else {
						c.bad(key, ci.Pos(), "recursive call carries no recognised bound ("+detail+"): attacker-shaped data (hardlink cycle, cyclic tree) overflows the stack, which is fatal and unrecoverable in Go")
					}
				}
			}
		}
	}

	// ---- C04.f / C04.g ----
	c.clause("C04.f", "T2", "prioritized-task brackets are closed on all exits: a layer that makes a mount/prefetch/check fail must not leave background work blocked forever", 5)
	c.doDonePairing()
	clauseBatchPathOnlyForAlignedChunks(c, "C04.j")
	c.clause("C04.i", "T5", "a channel filled by worker goroutines that the parent only drains after waiting for them has room for one message per worker (otherwise a second failing worker blocks forever and the wait never returns)", 1)
	for _, f := range scope {
		eachInstr(f, func(i ssa.Instruction) {
			mc, ok := i.(*ssa.MakeChan)
			if !ok {
				return
			}
			// the variable holding the channel (captured by the workers)
			var cell ssa.Value
			for _, r := range *mc.Referrers() {
				if st, ok := r.(*ssa.Store); ok && st.Val == ssa.Value(mc) {
					cell = cellRoot(st.Addr)
				}
			}
			if cell == nil {
				return
			}
			isCh := func(v ssa.Value) bool {
				p, ok := loadOf(stripConv(v))
				return ok && cellRoot(p) == cell
			}
			// senders: literals of f that send on it
			var senders []*ssa.Function
			for _, lit := range withAnon(f) {
				if lit == f {
					continue
				}
				n := 0
				eachInstr(lit, func(j ssa.Instruction) {
					if sd, ok := j.(*ssa.Send); ok && isCh(sd.Chan) {
						n++
					}
				})
				if n > 0 {
					senders = append(senders, lit)
				}
			}
			if len(senders) == 0 {
				return
			}
			// the parent receives only after waiting for the workers
			waits := callsIn(f, idIs("sync.(*WaitGroup).Wait", "golang.org/x/sync/errgroup.(*Group).Wait"))
			var recvs []ssa.Instruction
			eachInstr(f, func(j ssa.Instruction) {
				switch x := j.(type) {
				case *ssa.UnOp:
					if x.Op == token.ARROW && isCh(x.X) {
						recvs = append(recvs, j)
					}
				case *ssa.Range:
					if isCh(x.X) {
						recvs = append(recvs, j)
					}
				case *ssa.Next:
					if rg, ok := x.Iter.(*ssa.Range); ok && isCh(rg.X) {
						recvs = append(recvs, j)
					}
				case *ssa.Select:
					for _, st := range x.States {
						if st.Dir == types.RecvOnly && isCh(st.Chan) {
							recvs = append(recvs, j)
						}
					}
				}
			})
			afterWait := len(waits) > 0
			for _, r := range recvs {
				if o, _ := mustPass(f, r, newCuts().addCalls(waits)); !o {
					afterWait = false
				}
			}
			if !afterWait {
				return // drained concurrently: capacity is not a liveness condition
			}
			key := c.fnKey(f) + ":chan-capacity"
			// each worker sends at most once
			once := true
			for _, lit := range senders {
				var sends []ssa.Instruction
				eachInstr(lit, func(j ssa.Instruction) {
					if sd, ok := j.(*ssa.Send); ok && isCh(sd.Chan) {
						sends = append(sends, j)
					}
				})
				for _, a := range sends {
					for _, b := range sends {
						if hit, _ := reach(lit, a, isInstr(b), nil); hit != nil {
							once = false
						}
					}
				}
			}
			// capacity = len(V) and the workers are started once per element of V
			good := false
			if lc, ok := stripConv(mc.Size).(*ssa.Call); ok {
				if b, ok := lc.Call.Value.(*ssa.Builtin); ok && b.Name() == "len" {
					v := lc.Call.Args[0]
					eachInstr(f, func(j ssa.Instruction) {
						l2, ok := j.(*ssa.Call)
						if !ok || l2 == lc {
							return
						}
						if b2, ok := l2.Call.Value.(*ssa.Builtin); !ok || b2.Name() != "len" {
							return
						}
						if !(stripConv(l2.Call.Args[0]) == stripConv(v) || strictSame(l2.Call.Args[0], v) || sameValue(l2.Call.Args[0], v)) {
							return
						}
						// this len bounds a range loop (compared with the rangeindex)
						for _, r := range *l2.Referrers() {
							if cmp, ok := r.(*ssa.BinOp); ok && cmp.Op == token.LSS && isLoopIndex(cmp.X) {
								good = true
							}
						}
					})
				}
			}
			c.verdict(key, mc.Pos(), good && once, "capacity is the number of workers and each worker sends at most once", "the channel the workers report into is smaller than the number of workers while the parent drains it only after wg.Wait(): two failing workers (two bad sub-archives) make Build hang")
		})
	}
	c.clause("C04.h", "T6", "a slice bound computed as a difference of run-time quantities is clamped to ≥0 or guarded by a dominating comparison of its operands", 0)
	for _, f := range scope {
		eachInstr(f, func(i ssa.Instruction) {
			sl, ok := i.(*ssa.Slice)
			if !ok {
				return
			}
			for bi, bnd := range []ssa.Value{sl.Low, sl.High} {
				if bnd == nil {
					continue
				}
				for _, v := range append([]ssa.Value{bnd}, reachingVals(bnd)...) {
					bo, ok := stripConv(v).(*ssa.BinOp)
					if !ok || bo.Op != token.SUB {
						continue
					}
					if _, isC := constInt(bo.Y); isC {
						continue // x-k: clause C04.g
					}
					if _, isC := constInt(bo.X); isC {
						continue
					}
					// decided only for differences against the length of a buffer (len(buf) − n): other differences are
					// arithmetic on chunk geometry, which this clause does not decide
					isLen := func(v ssa.Value) bool {
						call, ok := stripConv(v).(*ssa.Call)
						if !ok {
							return false
						}
						b, ok := call.Call.Value.(*ssa.Builtin)
						return ok && b.Name() == "len"
					}
					if !isLen(bo.X) && !isLen(bo.Y) {
						continue
					}
					which := "low"
					if bi == 1 {
						which = "high"
					}
					key := fmt.Sprintf("%s:slice-%s %s-%s", c.fnKey(f), which, valName(stripConv(bo.X)), valName(stripConv(bo.Y)))
					// guarded: a dominating comparison between the two operands on whose taken edge X >= Y
					ge := condEdges(f, func(cond ssa.Value) int {
						b, ok := cond.(*ssa.BinOp)
						if !ok {
							return 0
						}
						x, y := stripConv(b.X), stripConv(b.Y)
						bx, by := stripConv(bo.X), stripConv(bo.Y)
						same := func(p, q ssa.Value) bool { return p == q || strictSame(p, q) }
						switch {
						case same(x, bx) && same(y, by):
							switch b.Op {
							case token.GEQ, token.GTR:
								return 1
							case token.LSS:
								return -1
							}
						case same(x, by) && same(y, bx):
							switch b.Op {
							case token.LEQ, token.LSS:
								return 1
							case token.GTR:
								return -1
							}
						}
						return 0
					})
					okp := false
					if len(ge) > 0 {
						okp, _ = mustPass(f, sl, newCuts().addEdges(ge))
					}
					c.verdict(key, sl.Pos(), okp, "difference used as a slice bound only where minuend ≥ subtrahend was tested", "a slice bound is the unclamped difference of two run-time quantities (e.g. len(footer) − FooterSize()): a short blob makes it negative and the slice expression panics")
				}
			}
		})
	}
	c.clause("C04.g", "T6", "an index of the form x-k (k>0) into a slice is guarded by a dominating test that x >= k", 1)
	for _, f := range scope {
		eachInstr(f, func(i ssa.Instruction) {
			var idx, base ssa.Value
			switch x := i.(type) {
			case *ssa.IndexAddr:
				idx, base = x.Index, x.X
			case *ssa.Index:
				idx, base = x.Index, x.X
			default:
				return
			}
			if _, isSl := base.Type().Underlying().(*types.Slice); !isSl {
				if b, ok := base.Type().Underlying().(*types.Basic); !ok || b.Info()&types.IsString == 0 {
					return
				}
			}
			bo, ok := stripConv(idx).(*ssa.BinOp)
			if !ok || bo.Op != token.SUB {
				return
			}
			k, ok := constInt(bo.Y)
			if !ok || k <= 0 {
				return
			}
			x := stripConv(bo.X)
			// len(s)-k on the same slice guarded by len test, or x with x>=k test
			key := fmt.Sprintf("%s:index %s[%s-%d]", c.fnKey(f), valName(base), valName(x), k)
			if lc, ok := x.(*ssa.Call); ok {
				if b, ok := lc.Call.Value.(*ssa.Builtin); ok && b.Name() == "len" {
					return // s[len(s)-k]: non-emptiness is usually established by earlier element accesses/appends; not decided here
				}
			}
			lo := condEdges(f, func(cond ssa.Value) int {
				b, ok := cond.(*ssa.BinOp)
				if !ok || stripConv(b.X) != x {
					return 0
				}
				n, isC := constInt(b.Y)
				if !isC {
					return 0
				}
				switch {
				case b.Op == token.EQL && n >= 0 && n < k && k == n+1:
					return -1 // x == 0 false ⇒ x != 0 (x is a non-negative search index)
				case b.Op == token.NEQ && n >= 0 && k == n+1:
					return 1
				case b.Op == token.GTR && n >= k-1:
					return 1
				case b.Op == token.GEQ && n >= k:
					return 1
				case b.Op == token.LSS && n >= k:
					return -1
				case b.Op == token.LEQ && n >= k-1:
					return -1
				}
				return 0
			})
			okp := false
			var path []int
			if len(lo) > 0 {
				okp, path = mustPass(f, i, newCuts().addEdges(lo))
			}
			// loop counters that start at len-1/len and count down with an i >= 0 / i > 0 condition are covered by the same comparison forms
			c.verdict(key, i.Pos(), okp, "guarded by a lower-bound test on the index base", "index "+valName(x)+fmt.Sprintf("-%d", k)+" without a dominating lower-bound test: a TOC/reply that makes the search return 0 panics with index out of range: "+c.pathStr(f, path))
		})
	}

	if c.Tier == "thorough" {
		// informational only: cycles that appear when interface dispatch is resolved with VTA. VTA merges all
		// instances of one type (e.g. the memory writer's Commit calling the file writer's Commit), so these are
		// listed in the evidence as a cross-reference and never decide the verdict.
		vg := c.vtaGraph()
		static := map[string]bool{}
		for _, comp := range c.sccs(g) {
			for _, f := range comp {
				static[c.fnKey(f)] = true
			}
		}
		for _, comp := range c.sccs(vg) {
			var names []string
			extra := false
			for _, f := range comp {
				names = append(names, c.fnKey(f))
				if !static[c.fnKey(f)] {
					extra = true
				}
			}
			if extra && inScope2(comp) {
				c.note("VTA-only cycle (cross-reference, not a verdict): " + strings.Join(names, " "))
			}
		}
	}

	clauseDigestParsedBeforeUse(c, "C04.k")

	// ---- C04.d ----
	discardAllow := map[string]string{
		"compress/gzip.NewWriterLevel": "fails only for an invalid compression level, which is configuration, not input bytes",
	}
	c.clause("C04.d", "T11", "no pointer/interface result obtained together with a discarded error is used without a nil test", 2)
	for _, f := range scope {
		eachInstr(f, func(i ssa.Instruction) {
			call, ok := i.(*ssa.Call)
			if !ok {
				return
			}
			tup, ok := call.Type().(*types.Tuple)
			if !ok || tup.Len() < 2 || !isErrorType(tup.At(tup.Len()-1).Type()) {
				return
			}
			var errUsed bool
			var val *ssa.Extract
			for _, r := range *call.Referrers() {
				if e, ok := r.(*ssa.Extract); ok {
					if e.Index == tup.Len()-1 {
						errUsed = e.Referrers() != nil && len(*e.Referrers()) > 0
					} else if e.Index == 0 {
						val = e
					}
				}
			}
			if errUsed || val == nil {
				return
			}
			switch val.Type().Underlying().(type) {
			case *types.Pointer, *types.Interface, *types.Map, *types.Signature:
			default:
				return
			}
			// uses of val that dereference it
			for _, r := range *val.Referrers() {
				deref := false
				switch u := r.(type) {
				case ssa.CallInstruction:
					cc := u.Common()
					if cc.IsInvoke() && cc.Value == val {
						deref = true
					} else if len(cc.Args) > 0 && cc.Args[0] == val && cc.StaticCallee() != nil && cc.StaticCallee().Signature.Recv() != nil {
						deref = true
					}
				case *ssa.FieldAddr:
					deref = u.X == val
				case *ssa.UnOp:
					deref = u.Op == token.MUL && u.X == val
				case *ssa.MakeInterface, *ssa.ChangeInterface:
					// passed on as an interface (e.g. wrapped in a reader): the nil pointer is dereferenced later
					deref = true
				}
				if !deref {
					continue
				}
				key := fmt.Sprintf("%s:%s-result-used", c.fnKey(f), calleeID(call))
				if why, ok := discardAllow[calleeID(call)]; ok {
					c.okTrivial(key, r.Pos(), "reviewed: "+why)
					break
				}
				nn := nonNilEdges(f, val)
				okp := false
				if len(nn) > 0 {
					okp, _ = mustPass(f, r, newCuts().addEdges(nn))
				}
				if okp {
					c.ok(key, r.Pos(), "nil-tested before use")
				} else {
					c.bad(key, r.Pos(), "error of "+calleeID(call)+" is discarded and the result is used unchecked: nil dereference on malformed input")
				}
				break
			}
		})
	}

	// ---- C04.e ----
	c.clause("C04.e", "T3", "explicit panics in the untrusted-input packages are exactly the reviewed table", 3)
	panicAllow := map[string]string{
		"estargz.gzipFooterBytes":             "self-assertion on the length of a footer this process just built from a constant-size layout",
		"estargz/externaltoc.gzipFooterBytes": "self-assertion on the length of a footer this process just built",
		"fs/remote.jitter":                    "crypto/rand failure; not input-dependent",
	}
	for _, f := range scope {
		eachInstr(f, func(i ssa.Instruction) {
			p, ok := i.(*ssa.Panic)
			if !ok || !p.Pos().IsValid() {
				return
			}
			key := c.fnKey(f) + ":panic"
			if why, ok := panicAllow[c.fnKey(enclosingRoot(f))]; ok {
				c.okTrivial(key, p.Pos(), "reviewed: "+why)
			} else {
				c.bad(key, p.Pos(), "explicit panic in a package that processes untrusted layer/registry bytes is not in the reviewed table")
			}
		})
	}
	c.assume("runtime bounds checks are the only source of index panics; third-party decoders (gzip, zstd, json, tar) return errors on malformed input")
}

// classifyRecursion recognises the bounded-recursion idioms of T7.
func (c *Ctx) classifyRecursion(f, target *ssa.Function, ci ssa.CallInstruction, comp []*ssa.Function) (string, string) {
	args := ci.Common().Args
	// map args to the target's params; recursion through a literal (f != target's direct frame) still passes params explicitly
	params := target.Params
	if len(args) != len(params) {
		return "", "argument/parameter mismatch"
	}
	// the function whose parameters carry the measure: if f == target use f's own params; if f is a literal nested in target, use target's params (captured)
	owner := target
	for i, a := range args {
		p := params[i]
		// (1) depth-guarded
		if b, ok := p.Type().Underlying().(*types.Basic); ok && b.Info()&types.IsInteger != 0 {
			if bo, ok := stripConv(a).(*ssa.BinOp); ok && bo.Op == token.ADD {
				if n, ok := constInt(bo.Y); ok && n > 0 && refersToParam(bo.X, owner, i) {
					// guard: owner compares param i with a bound and returns on exceed
					guard := condEdges(owner, func(cond ssa.Value) int {
						cb, ok := cond.(*ssa.BinOp)
						if !ok || !refersToParam(cb.X, owner, i) {
							return 0
						}
						switch cb.Op {
						case token.GTR, token.GEQ:
							return -1
						case token.LSS, token.LEQ:
							return 1
						}
						return 0
					})
					if len(guard) > 0 && c.guardedEntry(owner, f, ci, guard) {
						return "depth-guarded", fmt.Sprintf("parameter %s incremented per level and compared with a bound", p.Name())
					}
				}
			}
		}
		// (2) flag-guarded
		if b, ok := p.Type().Underlying().(*types.Basic); ok && b.Kind() == types.Bool {
			if k, ok := a.(*ssa.Const); ok && k.Value != nil && k.Value.String() == "false" && f == owner {
				te := condEdges(owner, func(cond ssa.Value) int {
					if refersToParam(cond, owner, i) {
						return 1
					}
					return 0
				})
				if len(te) > 0 {
					if okp, _ := mustPass(f, ci, newCuts().addEdges(te)); okp {
						return "flag-guarded", fmt.Sprintf("call only on the true edge of %s and passes false: depth <= 2", p.Name())
					}
				}
			}
		}
		// (3) measure-decreasing path prefix
		if b, ok := p.Type().Underlying().(*types.Basic); ok && b.Kind() == types.String && f == owner {
			if isPathPrefixOf(a, owner, i, 0) {
				ne := condEdges(owner, func(cond ssa.Value) int {
					cb, ok := cond.(*ssa.BinOp)
					if !ok || (cb.Op != token.EQL && cb.Op != token.NEQ) {
						return 0
					}
					var other ssa.Value
					if derivedFromParam(cb.X, owner, i, 0) {
						other = cb.Y
					} else if derivedFromParam(cb.Y, owner, i, 0) {
						other = cb.X
					} else {
						return 0
					}
					if s, ok := constString(other); !ok || s != "" {
						return 0
					}
					if cb.Op == token.NEQ {
						return 1
					}
					return -1
				})
				if len(ne) > 0 {
					if okp, _ := mustPass(f, ci, newCuts().addEdges(ne)); okp {
						return "measure-decreasing", fmt.Sprintf("argument is the directory part of %s and the call is guarded by %s != \"\"", p.Name(), p.Name())
					}
				}
				return "", "path-prefix argument but no non-empty guard"
			}
		}
	}
	// (4) visited-guarded: a shared map is tested for the node's key (not-found edge) and
	// extended with that key before the recursive call.
	if kind, detail := c.visitedGuarded(owner, f, ci); kind != "" {
		return kind, detail
	}
	return "", "no argument decreases a measure"
}

func (c *Ctx) visitedGuarded(owner, f *ssa.Function, ci ssa.CallInstruction) (string, string) {
	// the instruction in owner that must be guarded: the call itself, or the creation of the literal containing it
	var site ssa.Instruction = ci
	if f != owner {
		site = nil
		for p := f; p != nil; p = p.Parent() {
			if p.Parent() == owner {
				eachInstr(owner, func(i ssa.Instruction) {
					if mc, ok := i.(*ssa.MakeClosure); ok && mc.Fn == p {
						site = i
					}
				})
			}
		}
		if site == nil {
			return "", ""
		}
	}
	var found string
	eachInstr(owner, func(i ssa.Instruction) {
		lk, ok := i.(*ssa.Lookup)
		if !ok || !lk.CommaOk || found != "" {
			return
		}
		if _, isMap := lk.X.Type().Underlying().(*types.Map); !isMap {
			return
		}
		mkey := addrKey(lk.X)
		if mkey == "" {
			return
		}
		// shared across levels: captured variable, or a parameter passed through unchanged
		shared := false
		switch m := stripConv(lk.X).(type) {
		case *ssa.Parameter:
			for pi, p := range owner.Params {
				if p == m && f == owner && pi < len(ci.Common().Args) && stripConv(ci.Common().Args[pi]) == m {
					shared = true
				}
			}
		default:
			if p, ok := loadOf(stripConv(lk.X)); ok {
				if root := cellRoot(p); root != nil {
					if a, ok := root.(*ssa.Alloc); ok && a.Parent() != owner {
						shared = true // captured from an enclosing function: one map for the whole walk
					}
				}
			}
		}
		if !shared {
			return
		}
		miss := condEdges(owner, func(cond ssa.Value) int {
			if e, ok := cond.(*ssa.Extract); ok && e.Tuple == lk && e.Index == 1 {
				return -1
			}
			return 0
		})
		if len(miss) == 0 {
			return
		}
		if okp, _ := mustPass(owner, site, newCuts().addEdges(miss)); !okp {
			return
		}
		// an update of the same map with the same key between
		var ups []ssa.Instruction
		eachInstr(owner, func(j ssa.Instruction) {
			if mu, ok := j.(*ssa.MapUpdate); ok && addrKey(mu.Map) == mkey && sameKeyExpr(mu.Key, lk.Index) {
				ups = append(ups, j)
			}
		})
		if len(ups) == 0 {
			return
		}
		if okp, _ := mustPass(owner, site, newCuts().addInstr(ups...)); okp {
			found = mkey
		}
	})
	if found != "" {
		return "visited-guarded", "recursion only on the not-found edge of " + found + "[key], which is extended with the key first: at most one level per distinct key"
	}
	return "", ""
}

func sameKeyExpr(a, b ssa.Value) bool {
	a, b = stripConv(a), stripConv(b)
	if a == b {
		return true
	}
	ka, kb := addrKey(a), addrKey(b)
	return ka != "" && ka == kb
}

// guardedEntry: the recursive call (possibly inside a literal nested in owner) is reachable only through guard edges of owner.
func (c *Ctx) guardedEntry(owner, f *ssa.Function, ci ssa.CallInstruction, guard []edge) bool {
	if f == owner {
		okp, _ := mustPass(owner, ci, newCuts().addEdges(guard))
		return okp
	}
	// literal nested in owner: its creation site must be guarded
	for p := f; p != nil; p = p.Parent() {
		if p.Parent() == owner {
			var mk ssa.Instruction
			eachInstr(owner, func(i ssa.Instruction) {
				if mc, ok := i.(*ssa.MakeClosure); ok && mc.Fn == p {
					mk = i
				}
			})
			if mk == nil {
				return false
			}
			okp, _ := mustPass(owner, mk, newCuts().addEdges(guard))
			return okp
		}
	}
	return false
}

// refersToParam: v is parameter i of owner (directly, via its heap cell, or as a captured variable in a nested literal).
func refersToParam(v ssa.Value, owner *ssa.Function, i int) bool {
	v = stripConv(v)
	p := owner.Params[i]
	if v == p {
		return true
	}
	if ptr, ok := loadOf(v); ok {
		root := cellRoot(ptr)
		if a, ok := root.(*ssa.Alloc); ok && a.Parent() == owner {
			// the cell initialised from the parameter
			for _, r := range *a.Referrers() {
				if s, ok := r.(*ssa.Store); ok && s.Addr == a && s.Val == p {
					return true
				}
			}
		}
	}
	return false
}

var pureStringFuncs = map[string]bool{
	"strings.TrimSuffix": true, "strings.TrimPrefix": true, "path.Clean": true, "path/filepath.Clean": true, "strings.TrimRight": true,
}

// derivedFromParam: v is param i or a cleaned/trimmed form of it (also after reassignment name = clean(name)).
func derivedFromParam(v ssa.Value, owner *ssa.Function, i int, depth int) bool {
	if depth > 5 {
		return false
	}
	v = stripConv(v)
	if refersToParam(v, owner, i) {
		return true
	}
	switch x := v.(type) {
	case *ssa.Call:
		id := calleeID(x)
		if len(x.Call.Args) >= 1 && (pureStringFuncs[id] || isStringCleaner(x)) {
			return derivedFromParam(x.Call.Args[0], owner, i, depth+1)
		}
	case *ssa.BinOp:
		if x.Op == token.ADD { // "/" + name
			return derivedFromParam(x.X, owner, i, depth+1) || derivedFromParam(x.Y, owner, i, depth+1)
		}
	case *ssa.UnOp:
		if p, ok := loadOf(v); ok {
			if a, ok := p.(*ssa.Alloc); ok {
				all := true
				n := 0
				for _, r := range *a.Referrers() {
					if s, ok := r.(*ssa.Store); ok && s.Addr == a {
						n++
						if !derivedFromParam(s.Val, owner, i, depth+1) {
							all = false
						}
					}
				}
				return all && n > 0
			}
		}
	}
	return false
}

// isStringCleaner: first-party func(string) string whose result derives from its parameter through pure string functions.
func isStringCleaner(call *ssa.Call) bool {
	t := call.Call.StaticCallee()
	if t == nil || t.Blocks == nil || len(t.Params) != 1 || t.Signature.Results().Len() != 1 {
		return false
	}
	for _, r := range realReturns(t) {
		if !derivedFromParam(r.Results[0], t, 0, 2) {
			return false
		}
	}
	return true
}

// isPathPrefixOf: v is the directory part (path.Split / filepath.Split first result, or a first-party parentDir-like helper) of a value derived from param i.
func isPathPrefixOf(v ssa.Value, owner *ssa.Function, i int, depth int) bool {
	if depth > 4 {
		return false
	}
	v = stripConv(v)
	switch x := v.(type) {
	case *ssa.Extract:
		if call, ok := x.Tuple.(*ssa.Call); ok && x.Index == 0 {
			id := calleeID(call)
			if id == "path.Split" || id == "path/filepath.Split" {
				return derivedFromParam(call.Call.Args[0], owner, i, 0)
			}
		}
	case *ssa.Call:
		id := calleeID(x)
		if id == "path.Dir" || id == "path/filepath.Dir" {
			return derivedFromParam(x.Call.Args[0], owner, i, 0)
		}
		if pureStringFuncs[id] && len(x.Call.Args) >= 1 {
			return isPathPrefixOf(x.Call.Args[0], owner, i, depth+1)
		}
		// first-party helper whose every return is a path prefix of its own parameter
		t := x.Call.StaticCallee()
		if t != nil && t.Blocks != nil && len(t.Params) == 1 && len(x.Call.Args) == 1 && derivedFromParam(x.Call.Args[0], owner, i, 0) {
			all := true
			for _, r := range realReturns(t) {
				if len(r.Results) != 1 || !isPathPrefixOf(r.Results[0], t, 0, depth+1) {
					all = false
				}
			}
			return all
		}
	}
	return false
}
