package main

// Thorough tier: dynamic-dispatch call graph (VTA seeded with CHA) restricted to first-party functions.

import (
	"golang.org/x/tools/go/callgraph"
	"golang.org/x/tools/go/callgraph/cha"
	"golang.org/x/tools/go/callgraph/vta"
	"golang.org/x/tools/go/ssa"
	"golang.org/x/tools/go/ssa/ssautil"
)

func (c *Ctx) vtaGraph() *callGraph {
	all := ssautil.AllFunctions(c.Prog)
	cg := vta.CallGraph(all, cha.CallGraph(c.Prog))
	g := &callGraph{out: map[*ssa.Function][]*ssa.Function{}, sites: map[[2]*ssa.Function][]ssa.CallInstruction{}}
	live := map[*ssa.Function]bool{}
	for _, f := range c.Funcs {
		if !c.TestOnly[f] {
			live[f] = true
		}
	}
	callgraph.GraphVisitEdges(cg, func(e *callgraph.Edge) error {
		from, to := e.Caller.Func, e.Callee.Func
		if !live[from] || !live[to] || e.Site == nil {
			return nil
		}
		k := [2]*ssa.Function{from, to}
		if len(g.sites[k]) == 0 {
			g.out[from] = append(g.out[from], to)
		}
		g.sites[k] = append(g.sites[k], e.Site)
		return nil
	})
	return g
}
