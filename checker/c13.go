package main

import (
	"go/token"
	"go/types"

	"golang.org/x/tools/go/ssa"
)

// recvEvents returns the instructions and CFG edges of f on which a value has
// been received from a channel satisfying isChan (plain receive, or the taken
// case of a select).
func recvEvents(f *ssa.Function, isChan func(ssa.Value) bool) ([]ssa.Instruction, []edge) {
	var ins []ssa.Instruction
	var es []edge
	eachInstr(f, func(i ssa.Instruction) {
		switch x := i.(type) {
		case *ssa.UnOp:
			if x.Op == token.ARROW && isChan(x.X) {
				ins = append(ins, x)
			}
		case *ssa.Select:
			for si, st := range x.States {
				if st.Dir != types.RecvOnly || !isChan(st.Chan) {
					continue
				}
				idx := si
				es = append(es, condEdges(f, func(cond ssa.Value) int {
					b, ok := cond.(*ssa.BinOp)
					if !ok || b.Op != token.EQL {
						return 0
					}
					e, ok := b.X.(*ssa.Extract)
					if !ok || e.Tuple != x || e.Index != 0 {
						return 0
					}
					if n, ok := constInt(b.Y); ok && int(n) == idx {
						return 1
					}
					return 0
				})...)
			}
		}
	})
	return ins, es
}

// selectCaseEdges: edges on which select `sel` took the case whose channel satisfies isChan.
func goLiteral(g *ssa.Go) *ssa.Function {
	switch v := g.Call.Value.(type) {
	case *ssa.MakeClosure:
		return v.Fn.(*ssa.Function)
	case *ssa.Function:
		return v
	}
	return nil
}

func init() {
	register("C13", "Structural premises of the background-task manager: the body goroutine is joined on every exit of an attempt (so the sequential retry loop cannot overlap executions and the semaphore bounds running bodies), the start decision reads the notify channel and the counter in one critical section, cancel precedes the join, every DoPrioritizedTask is paired with DonePrioritizedTask on all exits, and the silence-period decrement follows the sleep and is broadcast under the condition's lock. Timing and liveness under arbitrary bodies are not decided.", runC13)
}

func runC13(c *Ctx) {
	const pkg = "task"
	const mgr = pkg + ".BackgroundTaskManager"
	_ = c.liveFuncs()
	inv := c.mustFnClause(pkg, "(*BackgroundTaskManager).InvokeBackgroundTask")

	// locate the attempt: the function (literal) of package task that starts the body goroutine
	type attempt struct {
		f      *ssa.Function
		g      *ssa.Go
		lit    *ssa.Function
		body   ssa.CallInstruction
		done   ssa.Value // cell root of the channel closed after the body
		isDone func(ssa.Value) bool
	}
	var attempts []attempt
	if inv != nil {
		for _, f := range withAnon(inv) {
			eachInstr(f, func(i ssa.Instruction) {
				g, ok := i.(*ssa.Go)
				if !ok {
					return
				}
				lit := goLiteral(g)
				if lit == nil {
					return
				}
				// body call: call of a value flowing from the func-typed parameter of InvokeBackgroundTask
				for _, ci := range callsIn(lit, func(id string, ci ssa.CallInstruction) bool {
					if id != "" {
						return false
					}
					k := addrKey(ci.Common().Value)
					return k == "do" || k == inv.Params[1].Name()
				}) {
					attempts = append(attempts, attempt{f: f, g: g, lit: lit, body: ci})
				}
			})
		}
	}

	c.clause("C13.a", "T2", "the body goroutine closes a channel after the body on all paths, and every exit of the attempt after the goroutine start receives from that channel (join)", 2)
	for ai := range attempts {
		a := &attempts[ai]
		closes := callsIn(a.lit, func(id string, ci ssa.CallInstruction) bool { return id == "builtin.close" })
		key := c.fnKey(a.lit) + ":close-after-body"
		if len(closes) == 0 {
			c.bad(key, a.body.Pos(), "body goroutine never signals completion")
			continue
		}
		got, path := reach(a.lit, a.body, isReturn, newCuts().addCalls(closes))
		deferred := false
		for _, cl := range closes {
			if _, ok := cl.(*ssa.Defer); ok {
				deferred = true
			}
		}
		if got != nil && !deferred {
			c.bad(key, a.body.Pos(), "a path from the body to the goroutine's exit skips close(done): "+c.pathStr(a.lit, path))
			continue
		}
		c.ok(key, a.body.Pos(), "completion channel closed after the body on all paths")
		// the channel: a captured variable (cell), or a value handed to the goroutine as an argument
		chArg := stripConv(closes[0].Common().Args[0])
		var doneVal ssa.Value
		if par, ok := chArg.(*ssa.Parameter); ok {
			for k, lp := range a.lit.Params {
				if lp == par && k < len(a.g.Call.Args) {
					chArg = stripConv(a.g.Call.Args[k])
				}
			}
		}
		a.done = cellRoot(mustLoad(chArg))
		if a.done == nil {
			if _, isLoad := loadOf(chArg); !isLoad {
				if _, isPar := chArg.(*ssa.Parameter); !isPar {
					doneVal = chArg
				}
			}
		}
		if a.done == nil && doneVal == nil {
			c.unk(c.fnKey(a.f)+":join", a.g.Pos(), "cannot identify the completion channel")
			continue
		}
		isDone := func(v ssa.Value) bool {
			if doneVal != nil {
				return stripConv(v) == doneVal
			}
			p, ok := loadOf(v)
			return ok && cellRoot(p) == a.done
		}
		a.isDone = isDone
		ri, re := recvEvents(a.f, isDone)
		got, path = reach(a.f, a.g, func(i ssa.Instruction) bool {
			r, ok := i.(*ssa.Return)
			return ok && i.Block() != a.f.Recover && r != nil
		}, newCuts().addInstr(ri...).addEdges(re))
		key = c.fnKey(a.f) + ":join"
		if got != nil {
			c.bad(key, got.Pos(), "the attempt returns while the body goroutine may still be running (no receive from the completion channel on path "+c.pathStr(a.f, path)+"): a retry overlaps the previous execution and the semaphore no longer bounds running bodies")
		} else {
			c.ok(key, a.g.Pos(), "every exit after the goroutine start has received from the completion channel")
		}
	}

	c.clause("C13.b", "T1+T2", "body start dominated by backgroundSem.Acquire; Release of the same weight deferred in the same function", 1)
	for _, a := range attempts {
		acq := callsIn(a.f, func(id string, ci ssa.CallInstruction) bool {
			if id != "golang.org/x/sync/semaphore.(*Weighted).Acquire" {
				return false
			}
			_, ok := isFieldLoad(ci.Common().Args[0], mgr, "backgroundSem")
			return ok
		})
		key := c.fnKey(a.f) + ":sem"
		okp, path := mustPass(a.f, a.g, newCuts().addCalls(acq))
		// the acquisition must not be able to fail silently: non-cancellable context, or its error checked before the start
		for _, q := range acq {
			ctxArg := stripConv(q.Common().Args[1])
			nonCancel := false
			if cc, ok := ctxArg.(*ssa.Call); ok && (calleeID(cc) == "context.Background" || calleeID(cc) == "context.TODO") {
				nonCancel = true
			}
			checked := false
			if se := successEdges(a.f, q); len(se) > 0 {
				checked, _ = mustPass(a.f, a.g, newCuts().addEdges(se))
			}
			c.verdict(c.fnKey(a.f)+":sem-acquired", q.Pos(), nonCancel || checked, "Acquire cannot fail unnoticed (non-cancellable context or error checked)", "Acquire is given a cancellable context and its error is ignored: the body runs without holding a slot and the deferred Release frees a slot it never took")
		}
		if len(acq) == 0 || !okp {
			c.bad(key, a.g.Pos(), "body started without acquiring backgroundSem: "+c.pathStr(a.f, path))
			continue
		}
		var rel *ssa.Defer
		eachInstr(a.f, func(i ssa.Instruction) {
			if d, ok := i.(*ssa.Defer); ok && calleeID(d) == "golang.org/x/sync/semaphore.(*Weighted).Release" {
				if _, ok := isFieldLoad(d.Call.Args[0], mgr, "backgroundSem"); ok {
					rel = d
				}
			}
		})
		if rel == nil {
			c.bad(key, a.g.Pos(), "backgroundSem.Release is not deferred in the attempt")
			continue
		}
		w1, _ := constInt(acq[0].Common().Args[2])
		w2, _ := constInt(rel.Call.Args[1])
		// the defer must be registered before any exit after the acquire
		got, _ := reach(a.f, acq[0], isReturn, newCuts().addInstr(rel))
		c.verdict(key, a.g.Pos(), w1 == w2 && w1 > 0 && got == nil, "Acquire(1) dominates the start; Release(1) deferred before any exit", "semaphore weights differ or Release not registered on all exits")
	}

	c.clause("C13.c", "T4+T1", "notify channel and counter are read in one critical section; DoPrioritizedTask increments, closes and replaces the channel in one critical section; no start on tasks>0; the decision is read while the slot is held", 7)
	c.guardedBy(mgr, "prioritizedTaskStartNotify", "prioritizedTaskStartNotifyMu", true)
	for _, a := range attempts {
		// the counter load used for the start decision
		loads := callsIn(a.f, func(id string, ci ssa.CallInstruction) bool {
			if id != "sync/atomic.LoadInt64" {
				return false
			}
			fa, ok := ci.Common().Args[0].(*ssa.FieldAddr)
			return ok && fieldName(fa) == "prioritizedTasks"
		})
		key := c.fnKey(a.f) + ":start-decision"
		var dec ssa.CallInstruction
		for _, l := range loads {
			if c.locksAt(l)["ts.prioritizedTaskStartNotifyMu"] == lockW {
				dec = l
			}
		}
		if dec == nil {
			c.bad(key, a.g.Pos(), "the prioritized-task counter is not read inside the notify-channel critical section: a prioritized task can begin between the two reads unnoticed")
			continue
		}
		// the decision is taken while holding a slot: a decision taken before queueing on the
		// semaphore is stale by the time the slot is obtained
		acqs := callsIn(a.f, func(id string, ci ssa.CallInstruction) bool {
			if id != "golang.org/x/sync/semaphore.(*Weighted).Acquire" {
				return false
			}
			_, ok := isFieldLoad(ci.Common().Args[0], mgr, "backgroundSem")
			return ok
		})
		if hit, _ := reach(a.f, nil, isInstr(dec), newCuts().addCalls(acqs)); true {
			c.verdict(c.fnKey(a.f)+":decision-after-acquire", dec.Pos(), hit == nil && len(acqs) > 0, "the counter and the notify channel are read after backgroundSem.Acquire returned", "the start decision is read before the concurrency slot is acquired: a prioritized task that begins while this attempt queues on the semaphore is not noticed, and the body starts during it")
		}
		pos := condEdges(a.f, func(cond ssa.Value) int {
			b, ok := cond.(*ssa.BinOp)
			if !ok || !flowsFrom(b.X, dec.Value(), 0) {
				return 0
			}
			n, isC := constInt(b.Y)
			if !isC {
				return 0
			}
			switch {
			case b.Op == token.GTR && n == 0, b.Op == token.GEQ && n == 1, b.Op == token.NEQ && n == 0:
				return -1 // false edge: no prioritized task
			case b.Op == token.LEQ && n == 0, b.Op == token.EQL && n == 0, b.Op == token.LSS && n == 1:
				return 1
			}
			return 0
		})
		okp, path := mustPass(a.f, a.g, newCuts().addEdges(pos))
		c.verdict(key, a.g.Pos(), okp && len(pos) > 0, "body started only on the tasks==0 edge of the counter read under the notify lock", "body can start although prioritized tasks are in progress: "+c.pathStr(a.f, path))
	}
	if f := c.mustFn(pkg, "(*BackgroundTaskManager).DoPrioritizedTask"); f != nil {
		adds := callsIn(f, func(id string, ci ssa.CallInstruction) bool {
			if id != "sync/atomic.AddInt64" {
				return false
			}
			fa, ok := ci.Common().Args[0].(*ssa.FieldAddr)
			return ok && fieldName(fa) == "prioritizedTasks"
		})
		closes := callsIn(f, func(id string, ci ssa.CallInstruction) bool {
			if id != "builtin.close" {
				return false
			}
			_, ok := isFieldLoad(ci.Common().Args[0], mgr, "prioritizedTaskStartNotify")
			return ok
		})
		good := len(adds) == 1 && len(closes) == 1
		if good {
			n, _ := constInt(adds[0].Common().Args[1])
			good = n == 1 && c.locksAt(adds[0])["ts.prioritizedTaskStartNotifyMu"] == lockW && c.locksAt(closes[0])["ts.prioritizedTaskStartNotifyMu"] == lockW
		}
		// channel replaced after close in the same region
		replaced := false
		for _, a := range c.fieldAccesses(mgr, "prioritizedTaskStartNotify", []*ssa.Function{f}) {
			if a.write && len(closes) == 1 {
				if _, isMk := a.instr.(*ssa.Store).Val.(*ssa.MakeChan); isMk && dominatesInstr(closes[0], a.instr) && c.locksAt(a.instr)["ts.prioritizedTaskStartNotifyMu"] == lockW {
					replaced = true
				}
			}
		}
		// all on every path
		if good {
			for _, must := range []ssa.Instruction{adds[0], closes[0]} {
				if got, _ := reach(f, nil, isReturn, newCuts().addInstr(must)); got != nil {
					good = false
				}
			}
		}
		c.verdict(c.fnKey(f)+":begin", f.Pos(), good && replaced, "counter +1, close and fresh channel in one critical section on every path", "DoPrioritizedTask does not increment/close/replace inside one critical section on every path")
	}

	c.clause("C13.d", "T1", "the prioritized-start case cancels the body's context before joining; the watched channel is the one read under the notify lock", 1)
	for _, a := range attempts {
		if a.isDone == nil {
			continue
		}
		isNotify := func(v ssa.Value) bool {
			for _, rv := range reachingVals(v) {
				if _, ok := isFieldLoad(rv, mgr, "prioritizedTaskStartNotify"); ok {
					return true
				}
			}
			_, ok := isFieldLoad(v, mgr, "prioritizedTaskStartNotify")
			return ok
		}
		_, chEdges := recvEvents(a.f, isNotify)
		key := c.fnKey(a.f) + ":cancel"
		if len(chEdges) == 0 {
			c.bad(key, a.g.Pos(), "the attempt does not watch the prioritized-start channel while the body runs")
			continue
		}
		// cancel func: second result of context.WithTimeout/WithCancel whose ctx is passed to the body
		var cancelCalls []ssa.Instruction
		eachInstr(a.f, func(i ssa.Instruction) {
			ci, ok := i.(*ssa.Call)
			if !ok {
				return
			}
			if e, ok := ci.Call.Value.(*ssa.Extract); ok && e.Index == 1 {
				if src, ok := e.Tuple.(*ssa.Call); ok && (calleeID(src) == "context.WithTimeout" || calleeID(src) == "context.WithCancel") {
					cancelCalls = append(cancelCalls, i)
				}
			}
		})
		// from each ch-edge target block, every path to a return or to a join passes cancel first
		good := len(cancelCalls) > 0
		isDone := a.isDone
		ri, _ := recvEvents(a.f, isDone)
		for _, e := range chEdges {
			blk := a.f.Blocks[e.from].Succs[e.succ]
			if len(blk.Instrs) == 0 {
				continue
			}
			first := blk.Instrs[0]
			target := func(i ssa.Instruction) bool {
				if isReturn(i) {
					return true
				}
				for _, r := range ri {
					if r == i {
						return true
					}
				}
				return false
			}
			k := newCuts().addInstr(cancelCalls...)
			if target(first) && !k.instrs[first] {
				good = false
			}
			if k.instrs[first] {
				continue
			}
			if got, _ := reach(a.f, first, target, k); got != nil {
				good = false
			}
		}
		c.verdict(key, a.g.Pos(), good, "cancel() precedes the join/return on the prioritized-start case", "the prioritized-start case does not cancel the body before waiting/returning")
		// ctx passed to body is the cancellable one
		ctxOK := false
		if len(a.body.Common().Args) == 1 {
			for _, rv := range reachingCellVals(goActual(a.g, a.lit, a.body.Common().Args[0])) {
				if e, ok := rv.(*ssa.Extract); ok && e.Index == 0 {
					if src, ok := e.Tuple.(*ssa.Call); ok && (calleeID(src) == "context.WithTimeout" || calleeID(src) == "context.WithCancel") {
						ctxOK = true
					}
				}
			}
		}
		c.verdict(c.fnKey(a.lit)+":ctx", a.body.Pos(), ctxOK, "body receives the cancellable context", "body does not receive the context that cancel() cancels")
	}

	c.clause("C13.e", "T2", "every DoPrioritizedTask is followed by DonePrioritizedTask on all exits", 5)
	c.doDonePairing()

	c.clause("C13.f", "T1+T4", "the counter is decremented only after the silence-period sleep and followed by Broadcast under the cond lock; waiters test the counter under that lock before Wait; the counter has no other writer", 3)
	for _, f := range c.pkgFuncs(pkg) {
		for _, ci := range callsIn(f, func(id string, ci ssa.CallInstruction) bool {
			if id != "sync/atomic.AddInt64" && id != "sync/atomic.StoreInt64" && id != "sync/atomic.SwapInt64" && id != "sync/atomic.CompareAndSwapInt64" {
				return false
			}
			fa, ok := ci.Common().Args[0].(*ssa.FieldAddr)
			return ok && fieldName(fa) == "prioritizedTasks"
		}) {
			key := c.fnKey(f) + ":counter-write"
			n, isC := constInt(ci.Common().Args[1])
			root := c.fnKey(c.ownerRoot(f))
			switch {
			case calleeID(ci) != "sync/atomic.AddInt64" || !isC:
				c.bad(key, ci.Pos(), "counter written other than by ±1")
			case n == 1 && root == pkg+".(*BackgroundTaskManager).DoPrioritizedTask":
				c.ok(key, ci.Pos(), "+1 in DoPrioritizedTask")
			case n == -1 && root == pkg+".(*BackgroundTaskManager).DonePrioritizedTask":
				sleeps := callsIn(f, func(id string, s ssa.CallInstruction) bool {
					if id != "time.Sleep" {
						return false
					}
					_, ok := isFieldLoad(s.Common().Args[0], mgr, "prioritizedTaskSilencePeriod")
					return ok
				})
				okp, _ := mustPass(f, ci, newCuts().addCalls(sleeps))
				bc := callsIn(f, idIs("sync.(*Cond).Broadcast"))
				held := false
				for _, b := range bc {
					if c.locksAt(b)["ts.prioritizedTaskDoneCond.L"] == lockW {
						held = true
					}
				}
				got, _ := reach(f, ci, isReturn, newCuts().addCalls(bc))
				c.verdict(key, ci.Pos(), okp && len(sleeps) > 0 && held && got == nil && len(bc) > 0, "-1 after the silence sleep, then Broadcast under cond.L on all paths", "decrement not after the silence-period sleep, or waiters are not woken under the cond lock")
			default:
				c.bad(key, ci.Pos(), "counter written outside Do/DonePrioritizedTask")
			}
		}
		for _, a := range c.fieldAccesses(mgr, "prioritizedTasks", []*ssa.Function{f}) {
			if a.write {
				c.bad(c.fnKey(f)+":counter-plain-write", a.instr.Pos(), "non-atomic write of prioritizedTasks")
			}
		}
	}
	if inv != nil {
		waits := callsIn(inv, idIs("sync.(*Cond).Wait"))
		for _, w := range waits {
			held := c.locksAt(w)["ts.prioritizedTaskDoneCond.L"] == lockW
			busy := condEdges(inv, func(cond ssa.Value) int {
				b, ok := cond.(*ssa.BinOp)
				if !ok || b.Op != token.GTR {
					return 0
				}
				l, ok := b.X.(*ssa.Call)
				if !ok || calleeID(l) != "sync/atomic.LoadInt64" {
					return 0
				}
				if n, ok := constInt(b.Y); !ok || n != 0 {
					return 0
				}
				if c.locksAt(l)["ts.prioritizedTaskDoneCond.L"] != lockW {
					return 0
				}
				return 1
			})
			okp, _ := mustPass(inv, w, newCuts().addEdges(busy))
			c.verdict(c.fnKey(inv)+":wait", w.Pos(), held && okp && len(busy) > 0, "Wait only after re-testing the counter under cond.L (no lost wake-up)", "Wait without re-testing the counter under cond.L: a wake-up can be lost")
		}
		if len(waits) == 0 {
			c.bad(c.fnKey(inv)+":wait", inv.Pos(), "InvokeBackgroundTask does not wait for prioritized tasks")
		}
	}

	c.clause("C13.h", "T2", "a body handed to InvokeBackgroundTask does not leave work running when it returns: every goroutine it starts is joined (a receive from a channel that goroutine completes on) on every path to the body's return", 1)
	for _, s := range c.callSitesOf(idIs(pkg+".(*BackgroundTaskManager).InvokeBackgroundTask"), c.liveFuncs()) {
		call := s.instr.(ssa.CallInstruction)
		mc, ok := stripConv(call.Common().Args[1]).(*ssa.MakeClosure)
		if !ok {
			c.unk(c.fnKey(s.caller)+":body", s.instr.Pos(), "the task body is not a function literal at the call site")
			continue
		}
		body := mc.Fn.(*ssa.Function)
		good := true
		detail := ""
		eachInstr(body, func(i ssa.Instruction) {
			g, ok := i.(*ssa.Go)
			if !ok {
				return
			}
			lit := goLiteral(g)
			if lit == nil {
				good, detail = false, "goroutine target not resolvable"
				return
			}
			// channels the goroutine sends on or closes
			cells := map[ssa.Value]bool{}
			vals := map[ssa.Value]bool{}
			note := func(ch ssa.Value) {
				ch = stripConv(goActual(g, lit, ch))
				if p, ok := loadOf(ch); ok {
					if cr := cellRoot(p); cr != nil {
						cells[cr] = true
						return
					}
				}
				vals[ch] = true
			}
			eachInstr(lit, func(j ssa.Instruction) {
				switch x := j.(type) {
				case *ssa.Send:
					note(x.Chan)
				case ssa.CallInstruction:
					if calleeID(x) == "builtin.close" {
						note(x.Common().Args[0])
					}
				}
			})
			isCh := func(v ssa.Value) bool {
				v = stripConv(v)
				if vals[v] {
					return true
				}
				if p, ok := loadOf(v); ok {
					if cr := cellRoot(p); cr != nil && cells[cr] {
						return true
					}
				}
				return false
			}
			ri, re := recvEvents(body, isCh)
			if hit, path := reach(body, g, isReturn, newCuts().addInstr(ri...).addEdges(re)); hit != nil {
				good = false
				detail = c.pathStr(body, path)
			}
		})
		c.verdict(c.fnKey(body)+":no-orphan-goroutine", body.Pos(), good, "the body returns only after the goroutines it started have completed", "the task body can return while a goroutine it started is still running (e.g. it gives up on ctx.Done()): after the silence period the manager re-runs the body while the orphan still reads into the shared buffer: "+detail)
	}

	clauseCloneReadsThroughGivenReader(c, "C13.i")
	clauseFlightJoinedBeforeReturn(c, "C13.j")
	c.clause("C13.g", "T1", "an attempt reports success only after the body completed; InvokeBackgroundTask returns only after a successful attempt", 2)
	for _, a := range attempts {
		if a.isDone == nil {
			continue
		}
		isDone := a.isDone
		ri, re := recvEvents(a.f, isDone)
		for _, r := range realReturns(a.f) {
			vs := retVals(r, 0)
			allFalse := len(vs) > 0
			for _, v := range vs {
				if k, ok := v.(*ssa.Const); !ok || k.Value == nil || k.Value.String() != "false" {
					allFalse = false
				}
			}
			if allFalse {
				continue
			}
			okp, path := mustPass(a.f, r, newCuts().addInstr(ri...).addEdges(re))
			c.verdict(c.fnKey(a.f)+":return-true", r.Pos(), okp, "success only after the completion channel was received", "attempt reports success on a path that did not observe completion: "+c.pathStr(a.f, path))
		}
		// the outer function returns only on attempt()==true
		if inv != nil && a.f.Parent() == inv {
			var call ssa.CallInstruction
			for _, ci := range callsIn(inv, func(id string, ci ssa.CallInstruction) bool { return staticFn(ci) == a.f }) {
				call = ci
			}
			if call == nil {
				c.unk(c.fnKey(inv)+":loop", inv.Pos(), "attempt literal is not called directly")
				continue
			}
			te := boolEdges(inv, call.Value(), true)
			for _, r := range realReturns(inv) {
				okp, path := mustPass(inv, r, newCuts().addEdges(te))
				c.verdict(c.fnKey(inv)+":loop", r.Pos(), okp && len(te) > 0, "returns only after an attempt succeeded", "InvokeBackgroundTask can return without a completed execution: "+c.pathStr(inv, path))
			}
			// the wait-for-zero loop precedes each attempt
			waits := callsIn(inv, idIs("sync/atomic.LoadInt64"))
			okp, _ := mustPass(inv, call, newCuts().addCalls(waits))
			c.verdict(c.fnKey(inv)+":wait-before-attempt", call.Pos(), okp, "counter consulted before every attempt", "attempt started without consulting the counter")
		}
	}
	c.assume("golang.org/x/sync/semaphore, sync.Cond and context cancellation behave as documented; bodies honour cancellation eventually (the join otherwise waits for the timeout context)")
}

func mustLoad(v ssa.Value) ssa.Value {
	if p, ok := loadOf(v); ok {
		return p
	}
	return v
}

// reachingCellVals resolves a load through captured cells (FreeVar → Alloc in
// the parent) to the values stored into that cell anywhere in the root function.
func reachingCellVals(v ssa.Value) []ssa.Value {
	v = stripConv(v)
	p, ok := loadOf(v)
	if !ok {
		return []ssa.Value{v}
	}
	root := cellRoot(p)
	if root == nil {
		return []ssa.Value{v}
	}
	a := root.(*ssa.Alloc)
	var out []ssa.Value
	for _, s := range storesToCell(enclosingRoot(a.Parent()), a) {
		out = append(out, stripConv(s.Val))
	}
	return out
}

func (c *Ctx) mustFnClause(pkg, name string) *ssa.Function {
	f := c.fn(pkg, name)
	if f == nil {
		c.clause(c.Prop+".anchors", "anchor", "mechanism entry points resolve", 0)
		c.unk("anchor:"+pkg+"."+name, token.NoPos, "anchor function does not resolve; the mechanism entry point was renamed or removed")
	}
	return f
}

// doDonePairing: every function that calls DoPrioritizedTask calls DonePrioritizedTask of the same manager on all exits.
func (c *Ctx) doDonePairing() {
	const pkg = "task"
	for _, s := range c.callSitesOf(idIs(pkg+".(*BackgroundTaskManager).DoPrioritizedTask"), c.liveFuncs()) {
		f := s.caller
		key := c.fnKey(f) + ":Do/Done"
		dones := callsIn(f, idIs(pkg+".(*BackgroundTaskManager).DonePrioritizedTask"))
		if len(dones) == 0 {
			c.bad(key, s.instr.Pos(), "DoPrioritizedTask without DonePrioritizedTask: background tasks are blocked forever")
			continue
		}
		got, path := reach(f, s.instr, isReturn, newCuts().addCalls(dones))
		same := false
		for _, d := range dones {
			if addrKey(d.Common().Args[0]) == addrKey(s.instr.(ssa.CallInstruction).Common().Args[0]) {
				same = true
			}
		}
		c.verdict(key, s.instr.Pos(), got == nil && same, "Done (deferred or explicit) on every exit after Do", "an exit after DoPrioritizedTask skips DonePrioritizedTask (e.g. an error return on a corrupted layer): every background task then waits forever: "+c.pathStr(f, path))
	}
}
