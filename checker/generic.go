package main

import (
	"fmt"
	"go/types"
	"path/filepath"
	"sort"

	"golang.org/x/tools/go/ssa"
)

// ---------------------------------------------------------------------------
// Generic rules instantiated per property over the files the property is
// anchored in. Tables are frozen: every entry was confirmed by reading.
// ---------------------------------------------------------------------------

var dataMovingCalls = map[string]bool{"io.CopyN": true, "io.Copy": true, "io.ReadFull": true, "io.ReadAtLeast": true, "io.(ReaderAt).ReadAt": true, "io.(Reader).Read": true, "io.(Writer).Write": true, "io.(WriterAt).WriteAt": true}

type droppedErr struct {
	fn      *ssa.Function
	call    *ssa.Call
	id      string
	cleanup bool
}

func callName(call *ssa.Call) string {
	if call.Call.IsInvoke() {
		return call.Call.Method.Name()
	}
	if f := staticFn(call); f != nil {
		return f.Name()
	}
	return ""
}

// errCalls lists, for the given functions, every call to a first-party or
// data-moving function that returns an error, with whether the error is dropped.
func (c *Ctx) errCalls(scope []*ssa.Function, visit func(f *ssa.Function, call *ssa.Call, id string, dropped bool)) {
	dropped := map[*ssa.Call]bool{}
	for _, call := range unusedErrCalls(scope) {
		dropped[call] = true
	}
	for _, f := range scope {
		f := f
		eachInstr(f, func(i ssa.Instruction) {
			call, ok := i.(*ssa.Call)
			if !ok {
				return
			}
			sig := call.Call.Signature()
			n := sig.Results().Len()
			if n == 0 || !isErrorType(sig.Results().At(n-1).Type()) {
				return
			}
			id := calleeID(call)
			fp := false
			if o := calleeObj(call); o != nil && o.Pkg() != nil && isFirstParty(o.Pkg().Path()) {
				fp = true
			}
			if !fp && !dataMovingCalls[id] {
				return
			}
			visit(f, call, id, dropped[call])
		})
	}
}

func (c *Ctx) discoverErrDrops() {
	var lines []string
	c.errCalls(c.liveFuncs(), func(f *ssa.Function, call *ssa.Call, id string, dropped bool) {
		if dropped {
			lines = append(lines, fmt.Sprintf("%-70s %-50s %s", c.fnKey(f), id, c.pos(call.Pos())))
		}
	})
	sort.Strings(lines)
	for _, l := range lines {
		fmt.Println(l)
	}
}

// ---------------------------------------------------------------------------
// Lock pairing: a mutex acquired in a function is released on every path to a
// return (directly, or by a deferred unlock registered before the return).
// May-hold dataflow (meet = union); a deferred Unlock of the same lock kills.
// ---------------------------------------------------------------------------

type heldLock struct {
	key string
	at  ssa.Instruction
}

// deferredUnlockKeys returns lock keys released by a defer instruction: either
// `defer mu.Unlock()` or a deferred func literal whose body unlocks a captured mutex.
func deferredUnlockKeys(d *ssa.Defer) []string {
	id := calleeID(d)
	switch id {
	case "sync.(*Mutex).Unlock", "sync.(*RWMutex).Unlock", "sync.(*RWMutex).RUnlock", "sync.(Locker).Unlock":
		cc := d.Common()
		var recv ssa.Value
		if cc.IsInvoke() {
			recv = cc.Value
		} else if len(cc.Args) > 0 {
			recv = cc.Args[0]
		}
		return []string{addrKey(recv)}
	}
	var out []string
	if mc, ok := d.Call.Value.(*ssa.MakeClosure); ok {
		lit := mc.Fn.(*ssa.Function)
		eachInstr(lit, func(i ssa.Instruction) {
			ci, ok := asCall(i)
			if !ok {
				return
			}
			k, _, rel := lockOp(ci)
			if k == "" || !rel {
				return
			}
			// translate free-variable names to the binding's key in the parent
			for j, fv := range lit.FreeVars {
				if j < len(mc.Bindings) {
					bk := addrKey(mc.Bindings[j])
					if bk == "" {
						continue
					}
					if k == fv.Name() {
						out = append(out, bk)
					} else if len(k) > len(fv.Name()) && k[:len(fv.Name())+1] == fv.Name()+"." {
						out = append(out, bk+k[len(fv.Name()):])
					}
				}
			}
		})
	}
	return out
}

// leakedLocks returns locks that may be held at a return of f although they
// were acquired in f.
func (c *Ctx) leakedLocks(f *ssa.Function) (acquired int, leaks []heldLock) {
	if len(f.Blocks) == 0 {
		return 0, nil
	}
	type state map[string]ssa.Instruction
	clone := func(s state) state {
		n := state{}
		for k, v := range s {
			n[k] = v
		}
		return n
	}
	in := map[int]state{0: {}}
	transfer := func(b *ssa.BasicBlock, s state, atRet func(r *ssa.Return, s state)) state {
		cur := clone(s)
		for _, ins := range b.Instrs {
			if d, ok := ins.(*ssa.Defer); ok {
				for _, k := range deferredUnlockKeys(d) {
					delete(cur, k)
				}
				continue
			}
			if ci, ok := asCall(ins); ok {
				k, acq, rel := lockOp(ci)
				if k != "" {
					if acq != 0 {
						cur[k] = ins
					} else if rel {
						delete(cur, k)
					}
				}
			}
			if r, ok := ins.(*ssa.Return); ok && atRet != nil {
				atRet(r, cur)
			}
		}
		return cur
	}
	work := []int{0}
	for len(work) > 0 {
		bi := work[0]
		work = work[1:]
		b := f.Blocks[bi]
		out := transfer(b, in[bi], nil)
		for _, s := range b.Succs {
			old, seen := in[s.Index]
			changed := false
			if !seen {
				in[s.Index] = clone(out)
				changed = true
			} else {
				for k, v := range out {
					if _, has := old[k]; !has {
						old[k] = v
						changed = true
					}
				}
			}
			if changed {
				work = append(work, s.Index)
			}
		}
	}
	seen := map[string]bool{}
	eachInstr(f, func(i ssa.Instruction) {
		if ci, ok := asCall(i); ok {
			if k, acq, _ := lockOp(ci); k != "" && acq != 0 {
				acquired++
			}
		}
	})
	for _, b := range f.Blocks {
		s, ok := in[b.Index]
		if !ok {
			continue
		}
		transfer(b, s, func(r *ssa.Return, st state) {
			for k, at := range st {
				if !seen[k] {
					seen[k] = true
					leaks = append(leaks, heldLock{k, at})
				}
			}
		})
	}
	sort.Slice(leaks, func(i, j int) bool { return leaks[i].key < leaks[j].key })
	return acquired, leaks
}

func (c *Ctx) discoverLockPairs() {
	n := 0
	for _, f := range c.liveFuncs() {
		acq, leaks := c.leakedLocks(f)
		n += acq
		for _, l := range leaks {
			fmt.Printf("LEAK %-60s %s acquired at %s\n", c.fnKey(f), l.key, c.pos(l.at.Pos()))
		}
	}
	fmt.Println("acquire sites:", n)
}

// ---------------------------------------------------------------------------
// Frozen tables
// ---------------------------------------------------------------------------

// lockTable: mutexes of the mechanisms, the fields each protects (every access
// on today's tree is under the mutex; confirmed with -discover locks and by
// reading) and the properties whose mechanism the protected state belongs to.
// fields may be empty: the mutex then only takes part in the pairing rule.
type lockEntry struct {
	q, mu  string
	fields []string
	props  []string
}

var lockTable = []lockEntry{
	{"fs.filesystem", "layerMu", []string{"layer"}, []string{"C08", "C09", "C12"}},
	{"fs/layer.Resolver", "layerCacheMu", []string{"layerCache"}, []string{"C10", "C12"}},
	{"fs/layer.Resolver", "blobCacheMu", []string{"blobCache"}, []string{"C10", "C12"}},
	{"fs/layer.layer", "prefetchSizeMu", []string{"prefetchSize"}, []string{"C15"}},
	{"fs/layer.layer", "closedMu", []string{"closed"}, []string{"C12"}},
	{"fs/layer.node", "entsMu", []string{"ents", "entsCached"}, []string{"C07", "C02", "C04"}},
	{"fs/layer.statFile", "mu", []string{"statJSON"}, []string{"C07"}},
	{"fs/reader.VerifiableReader", "prohibitVerifyFailureMu", []string{"skippedVerify"}, []string{"C01", "C04"}},
	{"fs/reader.VerifiableReader", "lastVerifyErrMu", nil, []string{"C01", "C04"}},
	{"fs/reader.VerifiableReader", "closedMu", []string{"closed"}, []string{"C12", "C01"}},
	{"fs/reader.reader", "closedMu", []string{"closed"}, []string{"C12", "C11", "C04"}},
	{"fs/reader.reader", "lastReadTimeMu", []string{"lastReadTime"}, []string{"C15"}},
	{"fs/remote.httpFetcher", "singleRangeMu", []string{"singleRange"}, []string{"C06", "C04"}},
	{"fs/remote.httpFetcher", "urlMu", nil, []string{"C06", "C18", "C04"}},
	{"fs/remote.blob", "fetchedRegionCopyMu", nil, []string{"C06", "C04"}},
	{"fs/remote.blob", "fetchedRegionSetMu", nil, []string{"C06", "C04"}},
	{"fs/remote.blob", "fetcherMu", nil, []string{"C06", "C12", "C04"}},
	{"fs/remote.blob", "closedMu", nil, []string{"C06", "C12", "C04"}},
	{"fs/remote.blob", "lastCheckMu", nil, []string{"C06", "C12", "C04"}},
	{"fusemanager.Server", "lock", []string{"root", "config", "ms", "fuseStoreAddr", "curCRIServer"}, []string{"C17"}},
	{"fusemanager.dbOpener", "mu", []string{"handles"}, []string{"C17"}},
	{"service/keychain/cri.instrumentedService", "criMu", []string{"cri"}, []string{"C18"}},
	{"service/keychain/cri.instrumentedService", "configMu", nil, []string{"C18"}},
	{"cmd/stargz-store.storeKeychain", "configMu", []string{"config"}, []string{"C18"}},
	{"store.idMap", "mu", []string{"m"}, []string{"C16"}},
	{"store.refPool", "mu", []string{"cache"}, []string{"C16", "C10"}},
	{"store.LayerManager", "mu", nil, []string{"C16"}},
	{"cmd/containerd-stargz-grpc/db.reader", "curIDMu", []string{"curID"}, []string{"C05", "C04"}},
	{"estargz.tempFiles", "filesMu", []string{"files"}, []string{"C03", "C04"}},
	{"estargz.verifier", "digestMapMu", []string{"digestMap"}, []string{"C01", "C04"}},
	{"estargz.countReadSeeker", "mu", []string{"cPos"}, []string{"C03", "C04"}},
	{"util/ioutils.CountWriter", "mu", []string{"n"}, []string{"C19"}},
	{"util/cacheutil.TTLCache", "mu", nil, []string{"C10", "C12"}},
	{"util/cacheutil.LRUCache", "mu", nil, []string{"C10", "C11"}},
	{"util/cacheutil.refCounter", "mu", nil, []string{"C10", "C11", "C12"}},
	{"cache.MemoryCache", "mu", nil, []string{"C11"}},
	{"cache.directoryCache", "closedMu", nil, []string{"C11", "C12"}},
	{"util/namedmutex.NamedMutex", "mu", nil, []string{"C12"}},
	{"task.BackgroundTaskManager", "prioritizedTaskStartNotifyMu", nil, []string{"C13"}},
}

// lockWrappers: functions that return holding a lock on purpose.
var lockWrappers = map[string]string{
	"util/namedmutex.(*NamedMutex).Lock": "the named lock itself: returns holding the per-name mutex, released by NamedMutex.Unlock (pairing of the two is C12.e)",
}

// errDropAllowed: dropped errors that were read and accepted, keyed by
// function and callee.
var errDropAllowed = map[string]string{
	"estargz.(currentCompressionWriter).Write|io.(Writer).Write":         "hash.Hash.Write never returns an error (documented by package hash)",
	"fs/reader.(*reader).cacheData|cache.(Writer).Commit":                "best-effort caching of a chunk that was already verified and returned; a failed commit only costs a later re-fetch",
	"fusemanager.(*Server).Mount|fusemanager.(*Server).storeFuseInfo":    "store failures are outside C17's fault model (mount/unmount/construction failures); noted as N2 in DESIGN.md",
	"fusemanager.(*Server).Unmount|fusemanager.(*Server).removeFuseInfo": "as above (N2)",
	"store.(*LayerManager).release|store.(*refPool).release":             "the pool's own use counter; its error only says that the reference was not pooled, release of the layer proceeds",
}

var cleanupNames = map[string]bool{"Abort": true, "Close": true, "close": true, "CleanupAll": true}

// mutexOf resolves the struct type and field name of the mutex a lock call operates on.
func mutexOf(ci ssa.CallInstruction) (q, mu string) {
	cc := ci.Common()
	var recv ssa.Value
	if cc.IsInvoke() {
		recv = cc.Value
	} else if len(cc.Args) > 0 {
		recv = cc.Args[0]
	}
	for {
		switch x := recv.(type) {
		case *ssa.FieldAddr:
			st := deref(x.X.Type())
			if s, ok := st.Underlying().(*types.Struct); ok {
				return typeQName(st), s.Field(x.Field).Name()
			}
			return "", ""
		case *ssa.UnOp:
			recv = x.X
			continue
		case *ssa.ChangeType:
			recv = x.X
			continue
		case *ssa.MakeInterface:
			recv = x.X
			continue
		}
		return "", ""
	}
}

func inList(l []string, s string) bool {
	for _, x := range l {
		if x == s {
			return true
		}
	}
	return false
}

func (c *Ctx) fileOf(f *ssa.Function) string {
	p := f.Pos()
	for g := f; !p.IsValid() && g.Parent() != nil; {
		g = g.Parent()
		p = g.Pos()
	}
	if !p.IsValid() {
		return ""
	}
	pp := c.Fset.Position(p)
	r, err := filepath.Rel(c.RepoDir, pp.Filename)
	if err != nil {
		return pp.Filename
	}
	return r
}

// genericMin: instance minima per property {lk, lp, ed}, about 70% of the
// counts confirmed on the tree of 2026-09-23 (a rule matching fewer sites than
// that has lost its anchors and must not pass).
var genericMin = map[string][3]int{
	"C01": {5, 6, 200}, "C02": {4, 1, 225}, "C03": {7, 3, 58}, "C04": {20, 21, 235}, "C05": {2, 1, 108},
	"C06": {1, 10, 0}, "C07": {12, 3, 38}, "C08": {4, 3, 26}, "C09": {4, 2, 19}, "C10": {8, 11, 29},
	"C11": {2, 8, 77}, "C12": {16, 21, 52}, "C13": {0, 3, 38}, "C14": {0, 0, 68}, "C15": {2, 3, 104},
	"C16": {7, 7, 15}, "C17": {16, 5, 11}, "C18": {4, 7, 18}, "C19": {2, 2, 30}, "C20": {0, 1, 10},
}

// runGeneric adds the generic clauses of property id.
func runGeneric(c *Ctx, id string) {
	live := c.liveFuncs()
	anch := map[string]bool{}
	for _, f := range anchorFiles[id] {
		anch[f] = true
	}

	// ---------- <id>.lk: guarded-by table ----------
	var mine []lockEntry
	nf := 0
	for _, e := range lockTable {
		if inList(e.props, id) {
			mine = append(mine, e)
			nf += len(e.fields)
		}
	}
	if nf > 0 {
		c.clause(id+".lk", "T4", "state of this property's mechanism that is shared between goroutines is read and written only with its mutex held (frozen table of struct field / mutex pairs)", genericMin[id][0])
		for _, e := range mine {
			for _, fld := range e.fields {
				if n := c.guardedBy(e.q, fld, e.mu, true); n == 0 {
					c.unk(e.q+"."+fld, 0, "no access to "+e.q+"."+fld+" found: the table entry no longer resolves")
				}
			}
		}
	}

	// ---------- <id>.lp: lock pairing ----------
	byMu := map[string]bool{}
	for _, e := range mine {
		byMu[e.q+"."+e.mu] = true
	}
	known := map[string]bool{}
	for _, e := range lockTable {
		known[e.q+"."+e.mu] = true
	}
	type site struct {
		f *ssa.Function
	}
	var fns []*ssa.Function
	for _, f := range live {
		relevant := false
		eachInstr(f, func(i ssa.Instruction) {
			ci, ok := asCall(i)
			if !ok {
				return
			}
			if k, acq, _ := lockOp(ci); k == "" || acq == 0 {
				return
			}
			q, mu := mutexOf(ci)
			if q != "" && byMu[q+"."+mu] {
				relevant = true
			} else if (q == "" || !known[q+"."+mu]) && anch[c.fileOf(f)] {
				relevant = true // local/package-level mutex or one outside the table, in a file of this property
			}
		})
		if relevant {
			fns = append(fns, f)
		}
	}
	if len(fns) > 0 {
		c.clause(id+".lp", "T2", "a mutex of this property's mechanism acquired in a function is released on every path to a return (directly or by a deferred unlock); the only function that returns holding a lock is the named-mutex wrapper", genericMin[id][1])
		for _, f := range fns {
			_, leaks := c.leakedLocks(f)
			key := c.fnKey(f) + ":locks-released"
			if len(leaks) == 0 {
				c.ok(key, f.Pos(), "every acquired lock is released on all paths to a return")
				continue
			}
			if why, ok := lockWrappers[c.fnKey(f)]; ok {
				c.okTrivial(key, f.Pos(), "lock wrapper: "+why)
				continue
			}
			for _, l := range leaks {
				c.bad(key, l.at.Pos(), "lock "+l.key+" acquired here may still be held when the function returns (no unlock, direct or deferred, on some path): every later user of the mutex blocks forever")
			}
		}
	}

	// ---------- <id>.ed: no dropped error ----------
	if id != "C06" { // C06.j covers fs/remote and cache for C06
		var scope []*ssa.Function
		for _, f := range live {
			if anch[c.fileOf(f)] {
				scope = append(scope, f)
			}
		}
		n := 0
		c.errCalls(scope, func(f *ssa.Function, call *ssa.Call, cid string, dropped bool) { n++ })
		if n > 0 {
			c.clause(id+".ed", "T11", "in the files this property is anchored in, the error of a first-party or data-moving call is never dropped (not assigned, or assigned to a variable nobody reads); only cleanup calls (Abort, Close, CleanupAll, draining into io.Discard) and a reviewed table of sites may ignore theirs", genericMin[id][2])
			c.errCalls(scope, func(f *ssa.Function, call *ssa.Call, cid string, dropped bool) {
				key := c.fnKey(f) + ":err-of:" + cid
				if !dropped {
					c.okTrivial(key, call.Pos(), "error result is consumed")
					return
				}
				if cleanupNames[callName(call)] {
					c.okTrivial(key, call.Pos(), "cleanup call; its error is intentionally ignored")
					return
				}
				if cid == "io.Copy" && len(call.Call.Args) > 0 {
					if g, ok := stripConv(call.Call.Args[0]).(*ssa.UnOp); ok {
						if gl, ok := g.X.(*ssa.Global); ok && gl.Name() == "Discard" && gl.Pkg.Pkg.Path() == "io" {
							c.okTrivial(key, call.Pos(), "draining a body into io.Discard")
							return
						}
					}
				}
				if why, ok := errDropAllowed[c.fnKey(f)+"|"+cid]; ok {
					c.okTrivial(key, call.Pos(), "reviewed: "+why)
					return
				}
				c.bad(key, call.Pos(), "the error of "+cid+" is dropped: a failure inside the mechanism is reported as success")
			})
		}
	}
}
