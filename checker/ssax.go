package main

// SSA helper library: callee resolution, site enumeration, reachability with
// cuts (the core of T1/T2), nil/bool success edges, value flow through cells.

import (
	"fmt"
	"go/constant"
	"go/token"
	"go/types"
	"sort"
	"strings"

	"golang.org/x/tools/go/ssa"
)

// funcID: "<relpkg>.<Name>" or "<relpkg>.(<Recv>).<Name>", first-party
// packages relative to the module root, others by import path.
func funcID(f *types.Func) string {
	if f == nil {
		return ""
	}
	pkg := ""
	if f.Pkg() != nil {
		pkg = rel(f.Pkg().Path())
	}
	sig, _ := f.Type().(*types.Signature)
	if sig != nil && sig.Recv() != nil {
		return pkg + ".(" + recvName(sig.Recv().Type()) + ")." + f.Name()
	}
	return pkg + "." + f.Name()
}

func calleeObj(call ssa.CallInstruction) *types.Func {
	cc := call.Common()
	if cc.IsInvoke() {
		return cc.Method
	}
	if f := cc.StaticCallee(); f != nil {
		if o, ok := f.Object().(*types.Func); ok {
			return o
		}
		// instantiated generic / wrapper
		if f.Origin() != nil {
			if o, ok := f.Origin().Object().(*types.Func); ok {
				return o
			}
		}
	}
	return nil
}

func calleeID(call ssa.CallInstruction) string {
	if b, ok := call.Common().Value.(*ssa.Builtin); ok {
		return "builtin." + b.Name()
	}
	return funcID(calleeObj(call))
}

// staticFn returns the first-party ssa.Function called (incl. closures).
func staticFn(call ssa.CallInstruction) *ssa.Function {
	return call.Common().StaticCallee()
}

func asCall(i ssa.Instruction) (ssa.CallInstruction, bool) {
	ci, ok := i.(ssa.CallInstruction)
	return ci, ok
}

func (c *Ctx) fn(pkg, name string) *ssa.Function {
	want := pkg + "." + name
	for _, f := range c.Funcs {
		if f.Parent() == nil && c.fnKey(f) == want {
			return f
		}
	}
	return nil
}

// mustFn resolves a named anchor or records an undecided obligation.
func (c *Ctx) mustFn(pkg, name string) *ssa.Function {
	f := c.fn(pkg, name)
	if f == nil {
		c.unk("anchor:"+pkg+"."+name, token.NoPos, "anchor function does not resolve; the mechanism entry point was renamed or removed")
	}
	return f
}

func eachInstr(f *ssa.Function, visit func(ssa.Instruction)) {
	for _, b := range f.Blocks {
		for _, i := range b.Instrs {
			visit(i)
		}
	}
}

// withAnon returns f and all its (transitively) nested function literals.
func withAnon(f *ssa.Function) []*ssa.Function {
	out := []*ssa.Function{f}
	for _, a := range f.AnonFuncs {
		out = append(out, withAnon(a)...)
	}
	return out
}

// callsIn returns the call instructions in f (not nested literals) whose callee id satisfies match.
func callsIn(f *ssa.Function, match func(id string, call ssa.CallInstruction) bool) []ssa.CallInstruction {
	var out []ssa.CallInstruction
	eachInstr(f, func(i ssa.Instruction) {
		if ci, ok := asCall(i); ok {
			if match(calleeID(ci), ci) {
				out = append(out, ci)
			}
		}
	})
	return out
}

func idIs(ids ...string) func(string, ssa.CallInstruction) bool {
	return func(id string, _ ssa.CallInstruction) bool {
		for _, x := range ids {
			if id == x {
				return true
			}
		}
		return false
	}
}

// methodNamed matches a call to a method called name whose receiver type
// (static or interface) is the named type typ (qualified "<relpkg>.<Name>") or
// implements the interface typ.
func (c *Ctx) methodOf(typ string, names ...string) func(string, ssa.CallInstruction) bool {
	ifc := c.namedType(typ)
	return func(id string, call ssa.CallInstruction) bool {
		o := calleeObj(call)
		if o == nil {
			return false
		}
		okName := false
		for _, n := range names {
			if o.Name() == n {
				okName = true
			}
		}
		if !okName {
			return false
		}
		sig := o.Type().(*types.Signature)
		if sig.Recv() == nil {
			return false
		}
		rt := sig.Recv().Type()
		if typeQName(rt) == typ {
			return true
		}
		if ifc != nil {
			if it, ok := ifc.Underlying().(*types.Interface); ok {
				if _, isIface := rt.Underlying().(*types.Interface); !isIface {
					return types.Implements(rt, it) || types.Implements(types.NewPointer(deref(rt)), it)
				}
			}
		}
		return false
	}
}

func deref(t types.Type) types.Type {
	if p, ok := t.(*types.Pointer); ok {
		return p.Elem()
	}
	return t
}

// typeQName: "<relpkg>.<Name>" of a (pointer to) named type, else "".
func typeQName(t types.Type) string {
	t = deref(t)
	if n, ok := t.(*types.Named); ok {
		if n.Obj().Pkg() == nil {
			return n.Obj().Name()
		}
		return rel(n.Obj().Pkg().Path()) + "." + n.Obj().Name()
	}
	if a, ok := t.(*types.Alias); ok {
		return typeQName(types.Unalias(a))
	}
	return ""
}

func (c *Ctx) namedType(q string) *types.Named {
	i := strings.LastIndex(q, ".")
	if i < 0 {
		return nil
	}
	pkgRel, name := q[:i], q[i+1:]
	var tp *types.Package
	if p, ok := c.Pkgs[pkgRel]; ok {
		tp = p.Types
	} else {
		for _, p := range c.AllPkgs {
			for path, imp := range p.Imports {
				if path == pkgRel {
					tp = imp.Types
				}
			}
			if tp != nil {
				break
			}
		}
	}
	if tp == nil {
		return nil
	}
	o := tp.Scope().Lookup(name)
	if o == nil {
		return nil
	}
	n, _ := o.Type().(*types.Named)
	return n
}

// ---------- reachability with cuts ----------

type edge struct{ from, succ int }

type cuts struct {
	instrs map[ssa.Instruction]bool
	edges  map[edge]bool
}

func newCuts() *cuts { return &cuts{instrs: map[ssa.Instruction]bool{}, edges: map[edge]bool{}} }
func (k *cuts) addInstr(is ...ssa.Instruction) *cuts {
	for _, i := range is {
		k.instrs[i] = true
	}
	return k
}
func (k *cuts) addCalls(cs []ssa.CallInstruction) *cuts {
	for _, i := range cs {
		k.instrs[i] = true
	}
	return k
}
func (k *cuts) addEdges(es []edge) *cuts {
	for _, e := range es {
		k.edges[e] = true
	}
	return k
}

// reach reports whether control can flow from just after `from` (or from the
// function entry when from is nil) to an instruction satisfying `to` without
// executing a cut instruction or traversing a cut edge. It returns the target
// reached and the block path.
func reach(f *ssa.Function, from ssa.Instruction, to func(ssa.Instruction) bool, cut *cuts) (ssa.Instruction, []int) {
	if len(f.Blocks) == 0 {
		return nil, nil
	}
	if cut == nil {
		cut = newCuts()
	}
	type item struct {
		b    *ssa.BasicBlock
		idx  int
		path []int
	}
	var q []item
	visited := map[int]bool{}
	if from == nil {
		q = append(q, item{f.Blocks[0], 0, []int{0}})
		visited[0] = true
	} else {
		b := from.Block()
		idx := -1
		for i, ins := range b.Instrs {
			if ins == from {
				idx = i
			}
		}
		q = append(q, item{b, idx + 1, []int{b.Index}})
	}
	for len(q) > 0 {
		it := q[0]
		q = q[1:]
		blocked := false
		for i := it.idx; i < len(it.b.Instrs); i++ {
			ins := it.b.Instrs[i]
			if to(ins) {
				return ins, it.path
			}
			if cut.instrs[ins] {
				blocked = true
				break
			}
		}
		if blocked {
			continue
		}
		for j, s := range it.b.Succs {
			if cut.edges[edge{it.b.Index, j}] {
				continue
			}
			if visited[s.Index] {
				continue
			}
			visited[s.Index] = true
			np := append(append([]int{}, it.path...), s.Index)
			q = append(q, item{s, 0, np})
		}
	}
	return nil, nil
}

func isInstr(x ssa.Instruction) func(ssa.Instruction) bool {
	return func(i ssa.Instruction) bool { return i == x }
}

func isReturn(i ssa.Instruction) bool { _, ok := i.(*ssa.Return); return ok }

func (c *Ctx) pathStr(f *ssa.Function, path []int) string {
	var sb []string
	for _, b := range path {
		blk := f.Blocks[b]
		line := ""
		for _, ins := range blk.Instrs {
			if ins.Pos().IsValid() {
				line = fmt.Sprintf("@%d", c.Fset.Position(ins.Pos()).Line)
				break
			}
		}
		sb = append(sb, fmt.Sprintf("b%d%s", b, line))
	}
	if len(sb) > 14 {
		sb = append(sb[:6], append([]string{"…"}, sb[len(sb)-6:]...)...)
	}
	return strings.Join(sb, "→")
}

// mustPass: every path from entry to site passes a cut. Returns ok and a counter-example path.
func mustPass(f *ssa.Function, site ssa.Instruction, cut *cuts) (bool, []int) {
	got, path := reach(f, nil, isInstr(site), cut)
	return got == nil, path
}

// ---------- value flow ----------

// stripConv removes value-preserving conversions.
func stripConv(v ssa.Value) ssa.Value {
	for {
		switch x := v.(type) {
		case *ssa.ChangeType:
			v = x.X
		case *ssa.ChangeInterface:
			v = x.X
		case *ssa.MakeInterface:
			v = x.X
		case *ssa.Convert:
			v = x.X
		default:
			return v
		}
	}
}

// cellOf: if v is a load (*p) returns p.
func loadOf(v ssa.Value) (ssa.Value, bool) {
	if u, ok := v.(*ssa.UnOp); ok && u.Op == token.MUL {
		return u.X, true
	}
	return nil, false
}

// storesTo lists stores whose address is the cell `addr` (an Alloc or FreeVar
// pointing to the same captured variable) within function f and its literals.
func storesToCell(root *ssa.Function, cell ssa.Value) []*ssa.Store {
	var out []*ssa.Store
	for _, f := range withAnon(root) {
		eachInstr(f, func(i ssa.Instruction) {
			if s, ok := i.(*ssa.Store); ok && sameCell(s.Addr, cell) {
				out = append(out, s)
			}
		})
	}
	return out
}

// sameCell: identical address values, or a FreeVar and the Alloc it was bound to.
func sameCell(a, b ssa.Value) bool {
	if a == b {
		return true
	}
	return cellRoot(a) != nil && cellRoot(a) == cellRoot(b)
}

// cellRoot resolves a FreeVar to the Alloc captured by the enclosing MakeClosure.
func cellRoot(v ssa.Value) ssa.Value {
	for depth := 0; depth < 6; depth++ {
		switch x := v.(type) {
		case *ssa.Alloc:
			return x
		case *ssa.FreeVar:
			fn := x.Parent()
			par := fn.Parent()
			if par == nil {
				return nil
			}
			idx := -1
			for i, fv := range fn.FreeVars {
				if fv == x {
					idx = i
				}
			}
			var bound ssa.Value
			for _, pf := range []*ssa.Function{par} {
				eachInstr(pf, func(i ssa.Instruction) {
					if mc, ok := i.(*ssa.MakeClosure); ok && mc.Fn == fn && idx >= 0 && idx < len(mc.Bindings) {
						bound = mc.Bindings[idx]
					}
				})
			}
			if bound == nil {
				return nil
			}
			v = bound
		default:
			return nil
		}
	}
	return nil
}

// flowsFrom reports whether value x is (a copy of) value src: identical,
// through conversions, or a load of a cell whose every reaching store (in the
// same function) stores a value flowing from src and which dominates the load.
func flowsFrom(x, src ssa.Value, depth int) bool {
	if depth > 6 {
		return false
	}
	x = stripConv(x)
	src = stripConv(src)
	if x == src {
		return true
	}
	if p, ok := loadOf(x); ok {
		if _, isAlloc := p.(*ssa.Alloc); isAlloc {
			ld := x.(*ssa.UnOp)
			f := ld.Parent()
			var stores []*ssa.Store
			eachInstr(f, func(i ssa.Instruction) {
				if s, ok := i.(*ssa.Store); ok && s.Addr == p {
					stores = append(stores, s)
				}
			})
			// stores that can reach the load without passing another store
			var reaching []*ssa.Store
			for _, s := range stores {
				k := newCuts()
				for _, o := range stores {
					if o != s {
						k.addInstr(o)
					}
				}
				if got, _ := reach(f, s, isInstr(ld), k); got != nil {
					reaching = append(reaching, s)
				}
			}
			if len(reaching) == 0 {
				return false
			}
			// the load must not be reachable from entry avoiding all stores
			k := newCuts()
			for _, s := range stores {
				k.addInstr(s)
			}
			if got, _ := reach(f, nil, isInstr(ld), k); got != nil {
				return false
			}
			for _, s := range reaching {
				if !flowsFrom(s.Val, src, depth+1) {
					return false
				}
			}
			return true
		}
	}
	if ph, ok := x.(*ssa.Phi); ok {
		for _, e := range ph.Edges {
			if !flowsFrom(e, src, depth+1) {
				return false
			}
		}
		return len(ph.Edges) > 0
	}
	return false
}

// errOf returns the error-typed result value(s) of a call: the call itself or
// its Extracts of type error.
func errResults(call ssa.CallInstruction) []ssa.Value {
	v := call.Value()
	if v == nil {
		return nil
	}
	var out []ssa.Value
	if isErrorType(v.Type()) {
		out = append(out, v)
	}
	if _, ok := v.Type().(*types.Tuple); ok {
		for _, r := range *v.Referrers() {
			if e, ok := r.(*ssa.Extract); ok && isErrorType(e.Type()) {
				out = append(out, e)
			}
		}
	}
	return out
}

func resultN(call ssa.CallInstruction, n int) ssa.Value {
	v := call.Value()
	if v == nil {
		return nil
	}
	if _, ok := v.Type().(*types.Tuple); ok {
		for _, r := range *v.Referrers() {
			if e, ok := r.(*ssa.Extract); ok && e.Index == n {
				return e
			}
		}
		return nil
	}
	if n == 0 {
		return v
	}
	return nil
}

func isErrorType(t types.Type) bool {
	n, ok := t.(*types.Named)
	return ok && n.Obj().Pkg() == nil && n.Obj().Name() == "error"
}

func isNilConst(v ssa.Value) bool {
	c, ok := v.(*ssa.Const)
	return ok && c.IsNil()
}

// condEdges returns, for every If in f whose condition is classified by
// classify (returning +1 when cond-true means "pass", -1 when cond-false
// means "pass", 0 when unrelated), the passing edges.
func condEdges(f *ssa.Function, classify func(cond ssa.Value) int) []edge {
	var out []edge
	for _, b := range f.Blocks {
		if len(b.Instrs) == 0 {
			continue
		}
		iff, ok := b.Instrs[len(b.Instrs)-1].(*ssa.If)
		if !ok {
			continue
		}
		cond := iff.Cond
		sign := 1
		for {
			if u, ok := cond.(*ssa.UnOp); ok && u.Op == token.NOT {
				cond = u.X
				sign = -sign
				continue
			}
			break
		}
		k := classify(cond) * sign
		if k > 0 {
			out = append(out, edge{b.Index, 0})
		} else if k < 0 {
			out = append(out, edge{b.Index, 1})
		}
	}
	return out
}

// nilTest classifies cond as a nil-comparison of a value satisfying isV:
// returns +1 if cond true ⇒ value is nil, -1 if cond true ⇒ value non-nil.
func nilTest(cond ssa.Value, isV func(ssa.Value) bool) int {
	b, ok := cond.(*ssa.BinOp)
	if !ok || (b.Op != token.EQL && b.Op != token.NEQ) {
		return 0
	}
	var x ssa.Value
	if isNilConst(b.Y) {
		x = b.X
	} else if isNilConst(b.X) {
		x = b.Y
	} else {
		return 0
	}
	if !isV(x) {
		return 0
	}
	if b.Op == token.EQL {
		return 1
	}
	return -1
}

// nilEdges: edges of f on which a value flowing from v is known to be nil.
func nilEdges(f *ssa.Function, v ssa.Value) []edge {
	return condEdges(f, func(cond ssa.Value) int {
		return nilTest(cond, func(x ssa.Value) bool { return flowsFrom(x, v, 0) })
	})
}

// nonNilEdges: edges on which v is known non-nil.
func nonNilEdges(f *ssa.Function, v ssa.Value) []edge {
	return condEdges(f, func(cond ssa.Value) int {
		return -nilTest(cond, func(x ssa.Value) bool { return flowsFrom(x, v, 0) })
	})
}

// successEdges: edges on which every error result of call is nil.
func successEdges(f *ssa.Function, call ssa.CallInstruction) []edge {
	var out []edge
	for _, e := range errResults(call) {
		out = append(out, nilEdges(f, e)...)
	}
	return out
}

// boolEdges: edges on which a bool value flowing from v is true (want) / false.
func boolEdges(f *ssa.Function, v ssa.Value, want bool) []edge {
	return condEdges(f, func(cond ssa.Value) int {
		if flowsFrom(cond, v, 0) {
			if want {
				return 1
			}
			return -1
		}
		return 0
	})
}

// ---------- fields ----------

type fieldAccess struct {
	fn    *ssa.Function
	addr  *ssa.FieldAddr // nil for value Field
	instr ssa.Instruction
	write bool
	base  ssa.Value
}

// fieldAccesses enumerates reads and writes of struct field (typ q-name, field)
// across the given functions.
func (c *Ctx) fieldAccesses(q, field string, fns []*ssa.Function) []fieldAccess {
	var out []fieldAccess
	for _, f := range fns {
		eachInstr(f, func(i ssa.Instruction) {
			switch x := i.(type) {
			case *ssa.FieldAddr:
				st := deref(x.X.Type())
				if typeQName(st) != q {
					return
				}
				s, ok := st.Underlying().(*types.Struct)
				if !ok || s.Field(x.Field).Name() != field {
					return
				}
				refs := x.Referrers()
				if refs == nil {
					return
				}
				for _, r := range *refs {
					switch y := r.(type) {
					case *ssa.Store:
						if y.Addr == x {
							out = append(out, fieldAccess{f, x, y, true, x.X})
						} else {
							out = append(out, fieldAccess{f, x, y, false, x.X}) // address escapes as a value
						}
					case *ssa.UnOp:
						out = append(out, fieldAccess{f, x, y, false, x.X})
					default:
						// address passed to a call (e.g. atomic, mutex method) or other use
						out = append(out, fieldAccess{f, x, r, false, x.X})
					}
				}
			case *ssa.Field:
				st := x.X.Type()
				if typeQName(st) != q {
					return
				}
				s, ok := st.Underlying().(*types.Struct)
				if !ok || s.Field(x.Field).Name() != field {
					return
				}
				out = append(out, fieldAccess{f, nil, x, false, x.X})
			}
		})
	}
	return out
}

func (c *Ctx) liveFuncs() []*ssa.Function {
	var out []*ssa.Function
	for _, f := range c.Funcs {
		if !c.TestOnly[f] {
			out = append(out, f)
		}
	}
	return out
}

func (c *Ctx) pkgFuncs(pkg string) []*ssa.Function {
	var out []*ssa.Function
	for _, f := range c.Funcs {
		if c.TestOnly[f] {
			continue
		}
		r := f
		for r.Parent() != nil {
			r = r.Parent()
		}
		if r.Pkg != nil && rel(r.Pkg.Pkg.Path()) == pkg {
			out = append(out, f)
		}
	}
	return out
}

// callSitesOf lists all call sites (call/go/defer) of callee id in live functions.
func (c *Ctx) callSitesOf(match func(string, ssa.CallInstruction) bool, fns []*ssa.Function) []callSite {
	var out []callSite
	for _, f := range fns {
		for _, ci := range callsIn(f, match) {
			out = append(out, callSite{f, ci})
		}
	}
	return out
}

// funcValueRefs lists non-call references to function fn (method values, func values).
func (c *Ctx) funcValueRefs(target *ssa.Function, fns []*ssa.Function) []callSite {
	var out []callSite
	for _, f := range fns {
		eachInstr(f, func(i ssa.Instruction) {
			var ops []*ssa.Value
			ops = i.Operands(ops)
			for k, op := range ops {
				if *op == nil {
					continue
				}
				if fv, ok := (*op).(*ssa.Function); ok && (fv == target || fv.Origin() == target) {
					if ci, isCall := asCall(i); isCall && k == 0 && ci.Common().Value == fv {
						continue // the callee position of a static call
					}
					out = append(out, callSite{f, i})
				}
			}
		})
	}
	return out
}

// ---------- misc ----------

func constString(v ssa.Value) (string, bool) {
	c, ok := stripConv(v).(*ssa.Const)
	if !ok || c.Value == nil || c.Value.Kind() != constant.String {
		return "", false
	}
	return constant.StringVal(c.Value), true
}

func constInt(v ssa.Value) (int64, bool) {
	c, ok := stripConv(v).(*ssa.Const)
	if !ok || c.Value == nil || c.Value.Kind() != constant.Int {
		return 0, false
	}
	n, ok := constant.Int64Val(c.Value)
	return n, ok
}

func sortedKeys[M ~map[string]V, V any](m M) []string {
	var out []string
	for k := range m {
		out = append(out, k)
	}
	sort.Strings(out)
	return out
}

// enclosingRoot returns the outermost named function containing f.
func enclosingRoot(f *ssa.Function) *ssa.Function {
	for f.Parent() != nil {
		f = f.Parent()
	}
	return f
}

// dominatesInstr: a executes before b on every path from entry (same function).
func dominatesInstr(a, b ssa.Instruction) bool {
	if a.Block() == b.Block() {
		for _, i := range a.Block().Instrs {
			if i == a {
				return true
			}
			if i == b {
				return false
			}
		}
	}
	return a.Block().Dominates(b.Block())
}

// realReturns lists the Return instructions of f, skipping the synthetic recover block.
func realReturns(f *ssa.Function) []*ssa.Return {
	var out []*ssa.Return
	for _, b := range f.Blocks {
		if b == f.Recover {
			continue
		}
		for _, i := range b.Instrs {
			if r, ok := i.(*ssa.Return); ok {
				out = append(out, r)
			}
		}
	}
	return out
}

// reachingVals resolves a load from a local cell to the values stored by the
// stores that can reach it (defer-spilled named results, captured locals).
// Other values are returned as themselves.
func reachingVals(v ssa.Value) []ssa.Value {
	return reachingValsD(v, 0)
}

func reachingValsD(v ssa.Value, depth int) []ssa.Value {
	v = stripConv(v)
	ld, ok := v.(*ssa.UnOp)
	if !ok || ld.Op != token.MUL || depth > 4 {
		return []ssa.Value{v}
	}
	a, ok := ld.X.(*ssa.Alloc)
	if !ok {
		return []ssa.Value{v}
	}
	f := ld.Parent()
	var stores []*ssa.Store
	eachInstr(f, func(i ssa.Instruction) {
		if s, ok := i.(*ssa.Store); ok && s.Addr == a {
			stores = append(stores, s)
		}
	})
	var out []ssa.Value
	for _, s := range stores {
		k := newCuts()
		for _, o := range stores {
			if o != s {
				k.addInstr(o)
			}
		}
		if got, _ := reach(f, s, isInstr(ld), k); got != nil {
			out = append(out, reachingValsD(s.Val, depth+1)...)
		}
	}
	k := newCuts()
	for _, s := range stores {
		k.addInstr(s)
	}
	if got, _ := reach(f, nil, isInstr(ld), k); got != nil {
		out = append(out, ssa.NewConst(nil, a.Type().(*types.Pointer).Elem())) // zero value
	}
	return out
}

// retVals: the possible values of result i of return r.
func retVals(r *ssa.Return, i int) []ssa.Value {
	if i >= len(r.Results) {
		return nil
	}
	return reachingVals(r.Results[i])
}

// ---------- path-sensitive reachability ----------

// condKey canonicalises a branch condition so that two tests of the same SSA
// operands get the same key (SSA values are immutable within one loop iteration).
func condKey(v ssa.Value) (key string, negated bool) {
	for {
		if u, ok := v.(*ssa.UnOp); ok && u.Op == token.NOT {
			v = u.X
			negated = !negated
			continue
		}
		break
	}
	opnd := func(x ssa.Value) string {
		x = stripConv(x)
		if c, ok := x.(*ssa.Const); ok {
			if c.Value == nil {
				return "nil"
			}
			return "k:" + c.Value.ExactString()
		}
		return x.Name() + "@" + fmt.Sprintf("%p", x)
	}
	if b, ok := v.(*ssa.BinOp); ok {
		switch b.Op {
		case token.EQL:
			a, c := opnd(b.X), opnd(b.Y)
			if a > c {
				a, c = c, a
			}
			return "==|" + a + "|" + c, negated
		case token.NEQ:
			a, c := opnd(b.X), opnd(b.Y)
			if a > c {
				a, c = c, a
			}
			return "==|" + a + "|" + c, !negated
		case token.LSS:
			return "<|" + opnd(b.X) + "|" + opnd(b.Y), negated
		case token.GEQ:
			return "<|" + opnd(b.X) + "|" + opnd(b.Y), !negated
		case token.GTR:
			return "<|" + opnd(b.Y) + "|" + opnd(b.X), negated
		case token.LEQ:
			return "<|" + opnd(b.Y) + "|" + opnd(b.X), !negated
		}
	}
	return "v|" + opnd(v), negated
}

// nilKey is the condKey of "v == nil".
func nilKey(v ssa.Value) string {
	v = stripConv(v)
	a, c := "nil", v.Name()+"@"+fmt.Sprintf("%p", v)
	if a > c {
		a, c = c, a
	}
	return "==|" + a + "|" + c
}

// reachPS is reach() with branch-condition consistency: along one path two
// tests of the same condition take the same outcome (assumptions are dropped on
// loop back edges). implied maps a condition key+outcome to further facts that
// hold then (e.g. err == nil ⇒ v != nil for results of one call).
func reachPS(f *ssa.Function, from ssa.Instruction, to func(ssa.Instruction) bool, cut *cuts, implied map[string]map[string]bool) (ssa.Instruction, []int) {
	if len(f.Blocks) == 0 {
		return nil, nil
	}
	if cut == nil {
		cut = newCuts()
	}
	type state struct {
		b     *ssa.BasicBlock
		idx   int
		facts map[string]bool
		path  []int
	}
	enc := func(b int, facts map[string]bool) string {
		ks := make([]string, 0, len(facts))
		for k, v := range facts {
			if v {
				ks = append(ks, k+"=T")
			} else {
				ks = append(ks, k+"=F")
			}
		}
		sort.Strings(ks)
		return fmt.Sprintf("%d|%s", b, strings.Join(ks, ";"))
	}
	seen := map[string]bool{}
	var stack []state
	if from == nil {
		stack = append(stack, state{f.Blocks[0], 0, map[string]bool{}, []int{0}})
	} else {
		b := from.Block()
		idx := 0
		for i, ins := range b.Instrs {
			if ins == from {
				idx = i + 1
			}
		}
		stack = append(stack, state{b, idx, map[string]bool{}, []int{b.Index}})
	}
	budget := 200000
	for len(stack) > 0 && budget > 0 {
		budget--
		st := stack[len(stack)-1]
		stack = stack[:len(stack)-1]
		blocked := false
		for i := st.idx; i < len(st.b.Instrs); i++ {
			ins := st.b.Instrs[i]
			if to(ins) {
				return ins, st.path
			}
			if cut.instrs[ins] {
				blocked = true
				break
			}
		}
		if blocked {
			continue
		}
		var key string
		var neg, isIf bool
		if iff, ok := st.b.Instrs[len(st.b.Instrs)-1].(*ssa.If); ok {
			key, neg = condKey(iff.Cond)
			isIf = true
		}
		for j, s := range st.b.Succs {
			if cut.edges[edge{st.b.Index, j}] {
				continue
			}
			facts := st.facts
			if isIf {
				outcome := (j == 0) != neg // truth of the canonical condition on this edge
				if have, ok := st.facts[key]; ok && have != outcome {
					continue // contradicts an earlier test on this path
				}
				facts = make(map[string]bool, len(st.facts)+2)
				for k, v := range st.facts {
					facts[k] = v
				}
				facts[key] = outcome
				tag := key + "=F"
				if outcome {
					tag = key + "=T"
				}
				for k, v := range implied[tag] {
					if have, ok := facts[k]; ok && have != v {
						facts = nil
						break
					}
					facts[k] = v
				}
				if facts == nil {
					continue
				}
			}
			if s.Dominates(st.b) { // loop back edge: SSA values are redefined
				facts = map[string]bool{}
			}
			e := enc(s.Index, facts)
			if seen[e] {
				continue
			}
			seen[e] = true
			np := append(append([]int{}, st.path...), s.Index)
			stack = append(stack, state{s, 0, facts, np})
		}
	}
	if budget == 0 {
		// fall back to the path-insensitive answer (may report, never misses)
		return reach(f, from, to, cut)
	}
	return nil, nil
}

// resultImplications: for a call returning (T, error): err == nil ⇒ T != nil (the repository's constructor convention).
func resultImplications(call ssa.CallInstruction) map[string]map[string]bool {
	out := map[string]map[string]bool{}
	errs := errResults(call)
	v := resultN(call, 0)
	if len(errs) == 0 || v == nil {
		return out
	}
	switch v.Type().Underlying().(type) {
	case *types.Pointer, *types.Interface:
	default:
		return out
	}
	for _, e := range errs {
		out[nilKey(e)+"=T"] = map[string]bool{nilKey(v): false}
	}
	return out
}
