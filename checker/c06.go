package main

import (
	"fmt"
	"go/token"
	"go/types"
	"strings"

	"golang.org/x/tools/go/ssa"
)

func init() {
	register("C06", "Structural premises of byte-exact remote reads: fetchRegions succeeds only when every requested chunk was seen; a chunk is marked fetched, and the fetched-region set extended, only after its bytes were completely copied and committed (under the region-set mutex; no other writer of the set); response bytes go to a caller's buffer only for chunks that caller requested and under the chunk's own key; cache keys are derived from the very region whose bytes are read or written; chunk walks run only behind the alignment check and ReadAt reports bytes only after preparation and fetch both succeeded; the fetcher is used through a snapshot taken under its mutex; the HTTP status table of the fetcher is closed. Region arithmetic, multipart demultiplexing and single-flight semantics are not decided.", runC06)
}

func runC06(c *Ctx) {
	const rp = "fs/remote"
	const bl = rp + ".blob"

	// ---------- C06.a ----------
	c.clause("C06.a", "T1", "fetchRegions returns nil only when no requested chunk is left unfetched; cacheChunkData marks a chunk fetched only after CopyN and Commit succeeded", 3)
	if f := c.mustFn(rp, "(*blob).fetchRegions"); f != nil {
		// the unfetched list: slice appended on the !b edge of ranging over `fetched`
		none := condEdges(f, func(cond ssa.Value) int {
			return nilTest(cond, func(x ssa.Value) bool {
				return appendBuiltSlice(x, 0)
			})
		})
		emptyReq := condEdges(f, func(cond ssa.Value) int {
			b, ok := cond.(*ssa.BinOp)
			if !ok || b.Op != token.EQL {
				return 0
			}
			if lc, ok := stripConv(b.X).(*ssa.Call); ok {
				if bi, ok := lc.Call.Value.(*ssa.Builtin); ok && bi.Name() == "len" && isParamish(lc.Call.Args[0]) {
					if n, ok := constInt(b.Y); ok && n == 0 {
						return 1
					}
				}
			}
			return 0
		})
		n := 0
		for _, r := range realReturns(f) {
			if !returnsNilError(r) {
				continue
			}
			n++
			okp, path := mustPass(f, r, newCuts().addEdges(none).addEdges(emptyReq))
			c.verdict(c.fnKey(f)+":all-chunks-seen", r.Pos(), okp && len(none) > 0, "success only when the unfetched list is empty (or nothing was requested)", "fetchRegions can succeed although a requested chunk never arrived (the caller's buffer keeps stale bytes): "+c.pathStr(f, path))
		}
		if n == 0 {
			c.bad(c.fnKey(f)+":returns", f.Pos(), "no success return")
		}
		// every requested region starts as not fetched
		init := false
		eachInstr(f, func(i ssa.Instruction) {
			if mu, ok := i.(*ssa.MapUpdate); ok && isParamish(mu.Map) && isConstBool(mu.Value, false) {
				init = true
			}
		})
		c.verdict(c.fnKey(f)+":init-unfetched", f.Pos(), init, "every requested region is first marked not fetched", "requested regions are not initialised as unfetched")
	}
	cc := c.mustFn(rp, "(*blob).cacheChunkData")
	if cc != nil {
		commits := callsIn(cc, func(id string, ci ssa.CallInstruction) bool {
			return ci.Common().IsInvoke() && ci.Common().Method.Name() == "Commit"
		})
		copies := callsIn(cc, idIs("io.CopyN", "io.Copy"))
		var se []edge
		for _, x := range commits {
			se = append(se, successEdges(cc, x)...)
		}
		var ce []edge
		for _, x := range copies {
			ce = append(ce, successEdges(cc, x)...)
		}
		eachInstr(cc, func(i ssa.Instruction) {
			mu, ok := i.(*ssa.MapUpdate)
			if !ok || !isConstBool(mu.Value, true) {
				return
			}
			ok1, _ := mustPass(cc, mu, newCuts().addEdges(se))
			ok2, _ := mustPass(cc, mu, newCuts().addEdges(ce))
			c.verdict(c.fnKey(cc)+":fetched=true", mu.Pos(), ok1 && ok2 && len(se) > 0 && len(ce) > 0 && isParamish(mu.Key), "chunk marked fetched only after the full copy and the commit succeeded, under its own key", "a chunk is marked fetched although its copy or commit may have failed")
		})
		// copy length = chunk.size()
		for _, x := range copies {
			if calleeID(x) == "io.CopyN" {
				sz, ok := stripConv(x.Common().Args[2]).(*ssa.Call)
				c.verdict(c.fnKey(cc)+":copy-length", x.Pos(), ok && calleeID(sz) == rp+".(region).size" && isParamish(sz.Call.Args[0]), "exactly chunk.size() bytes are copied", "copied length is not the chunk's size")
			}
		}
	}

	// ---------- C06.b ----------
	c.clause("C06.b", "T1+T3+T4", "fetchedRegionSet.add only after Commit succeeded and under fetchedRegionSetMu; regionSet.rs is written only by regionSet.add; FetchedSize reads under the mutex", 5)
	c.guardedBy(bl, "fetchedRegionSet", "fetchedRegionSetMu", true)
	for _, s := range c.callSitesOf(idIs(rp+".(*regionSet).add"), c.pkgFuncs(rp)) {
		f := s.caller
		recv := s.instr.(ssa.CallInstruction).Common().Args[0]
		fa, isField := recv.(*ssa.FieldAddr)
		if !isField || fieldName(fa) != "fetchedRegionSet" {
			continue // local region sets (request squashing)
		}
		commits := callsIn(f, func(id string, ci ssa.CallInstruction) bool {
			return ci.Common().IsInvoke() && ci.Common().Method.Name() == "Commit"
		})
		var se []edge
		for _, x := range commits {
			se = append(se, successEdges(f, x)...)
		}
		okp, path := mustPass(f, s.instr, newCuts().addEdges(se))
		held := c.locksAt(s.instr)[addrKey(fa.X)+".fetchedRegionSetMu"] == lockW
		c.verdict(c.fnKey(f)+":add-after-commit", s.instr.Pos(), okp && held && len(se) > 0, "region recorded only after its bytes were committed, under the mutex", "fetched size grows for bytes that are not (yet) stored locally: "+c.pathStr(f, path))
	}
	for _, a := range c.fieldAccesses(rp+".regionSet", "rs", c.pkgFuncs(rp)) {
		if !a.write {
			continue
		}
		c.verdict(c.fnKey(a.fn)+":rs-write", a.instr.Pos(), c.fnKey(a.fn) == rp+".(*regionSet).add", "region list written only by add", "region list written outside regionSet.add (sortedness/disjointness no longer maintained in one place)")
	}

	// ---------- C06.d ----------
	c.clause("C06.d", "T1", "chunk walks call back only behind the alignment check; ReadAt reports bytes only after preparation and fetch succeeded", 3)
	if f := c.mustFn(rp, "(*blob).walkChunks"); f != nil {
		aligned := condEdges(f, func(cond ssa.Value) int {
			b, ok := cond.(*ssa.BinOp)
			if !ok || (b.Op != token.NEQ && b.Op != token.EQL) {
				return 0
			}
			rem, ok := stripConv(b.X).(*ssa.BinOp)
			if !ok || rem.Op != token.REM {
				return 0
			}
			if n, ok := constInt(b.Y); !ok || n != 0 {
				return 0
			}
			if b.Op == token.EQL {
				return 1
			}
			return -1
		})
		for _, ci := range callsIn(f, func(id string, ci ssa.CallInstruction) bool { return isParam(ci.Common().Value) }) {
			okp, _ := mustPass(f, ci, newCuts().addEdges(aligned))
			c.verdict(c.fnKey(f)+":aligned", ci.Pos(), okp && len(aligned) > 0, "callback only for chunk-aligned regions", "chunks are walked without the alignment check: cache keys no longer denote whole chunks")
			// errors of the callback stop the walk
			se := successEdges(f, ci)
			c.verdict(c.fnKey(f)+":callback-error", ci.Pos(), len(se) > 0, "callback errors are propagated", "callback errors are dropped")
		}
	}
	if f := c.mustFn(rp, "(*blob).ReadAt"); f != nil {
		var se []edge
		need := callsIn(f, idIs(rp+".(*blob).prepareChunksForRead", rp+".(*blob).fetchRange"))
		good := len(need) == 2
		for _, r := range realReturns(f) {
			vs := retVals(r, 0)
			pos := false
			for _, v := range vs {
				if n, ok := constInt(v); !ok || n != 0 {
					pos = true
				}
			}
			if !pos {
				continue
			}
			for _, x := range need {
				se = successEdges(f, x)
				if okp, _ := mustPass(f, r, newCuts().addEdges(se)); !okp || len(se) == 0 {
					good = false
				}
			}
		}
		c.verdict(c.fnKey(f)+":count-after-success", f.Pos(), good, "a positive byte count is returned only after preparation and fetch both succeeded", "ReadAt can report bytes although fetching them failed")
		// fetchRange receives the map that prepareChunksForRead filled
		if len(need) == 2 {
			c.verdict(c.fnKey(f)+":same-map", f.Pos(), sameValue(need[0].Common().Args[5], need[1].Common().Args[1]) || sameValue(need[1].Common().Args[5], need[0].Common().Args[1]), "the regions prepared are the regions fetched", "fetchRange is given another region map than the one prepared")
		}
	}

	// ---------- C06.e ----------
	c.clause("C06.e", "T4", "blob.fetcher accessed only under fetcherMu; closed flags under their mutexes", 4)
	c.guardedBy(bl, "fetcher", "fetcherMu", true)
	c.guardedBy(bl, "closed", "closedMu", true)
	c.guardedBy(bl, "lastCheck", "lastCheckMu", true)

	// ---------- C06.f ----------
	c.clause("C06.f", "T1+T9", "response bytes are teed into a caller's writer only for a chunk that caller requested, using that chunk's own writer; cached copies go to the writer of the same chunk", 2)
	if cc != nil {
		for _, mw := range callsIn(cc, idIs("io.MultiWriter")) {
			// one element is allData[chunk]; guarded by _, ok := fetched[chunk]
			parts := varargs(mw.Common().Args[0])
			var lk *ssa.Lookup
			for _, p := range parts {
				if l, ok := stripConv(p).(*ssa.Lookup); ok {
					lk = l
				}
			}
			good := lk != nil && isParamish(lk.Index)
			reqE := condEdges(cc, func(cond ssa.Value) int {
				if e, ok := cond.(*ssa.Extract); ok && e.Index == 1 {
					if l2, ok := e.Tuple.(*ssa.Lookup); ok && l2.CommaOk && isParamish(l2.Index) && lk != nil && sameValue(l2.Index, lk.Index) {
						return 1
					}
				}
				return 0
			})
			// equivalently: the looked-up writer itself tested non-nil
			if lk != nil {
				reqE = append(reqE, nonNilEdges(cc, lk)...)
				for _, p := range parts {
					reqE = append(reqE, nonNilEdges(cc, p)...)
				}
			}
			okp, _ := mustPass(cc, mw, newCuts().addEdges(reqE))
			c.verdict(c.fnKey(cc)+":tee-requested-only", mw.Pos(), good && okp && len(reqE) > 0, "bytes of chunk X go to allData[X] only if this fetch requested X", "response bytes are written into a buffer that did not request that chunk (or another chunk's buffer)")
		}
	}
	for _, f := range c.pkgFuncs(rp) {
		if c.fnKey(enclosingRoot(f)) != rp+".(*blob).copyFetchedChunks" || f.Parent() == nil {
			continue
		}
		for _, cp := range callsIn(f, idIs("io.CopyN")) {
			lk, ok := stripConv(cp.Common().Args[0]).(*ssa.Lookup)
			gets := callsIn(f, func(id string, ci ssa.CallInstruction) bool { return ci.Common().IsInvoke() && ci.Common().Method.Name() == "Get" })
			good := ok && isParamish(lk.Index) && len(gets) == 1
			if good {
				// Get key = genID(same chunk); copied size = chunk.size()
				if g, ok := stripConv(gets[0].Common().Args[0]).(*ssa.Call); ok && g.Call.IsInvoke() && g.Call.Method.Name() == "genID" {
					good = sameValue(g.Call.Args[0], lk.Index)
				} else {
					good = false
				}
				if sz, ok := stripConv(cp.Common().Args[2]).(*ssa.Call); !ok || calleeID(sz) != rp+".(region).size" || !sameValue(sz.Call.Args[0], lk.Index) {
					good = false
				}
			}
			c.verdict(c.fnKey(f)+":copy-own-chunk", cp.Pos(), good, "cached bytes of chunk X are copied, chunk.size() long, into allData[X]", "shared-fetch fallback copies another chunk's cached bytes or a wrong length into the caller's buffer")
		}
	}

	// ---------- C06.h ----------
	c.clause("C06.h", "T9", "every blob-cache key is genID of the region parameter of the function that reads/writes that region's bytes", 4)
	for _, f := range c.pkgFuncs(rp) {
		for _, ci := range callsIn(f, func(id string, ci ssa.CallInstruction) bool {
			if !ci.Common().IsInvoke() {
				return false
			}
			m := ci.Common().Method.Name()
			return (m == "Get" || m == "Add") && typeQName(ci.Common().Value.Type()) == "cache.BlobCache"
		}) {
			key := c.fnKey(f) + ":cache-key"
			g, ok := stripConv(ci.Common().Args[0]).(*ssa.Call)
			if !ok {
				for _, rv := range reachingVals(ci.Common().Args[0]) {
					if gg, ok2 := stripConv(rv).(*ssa.Call); ok2 {
						g, ok = gg, true
					}
				}
			}
			good := ok && g.Call.IsInvoke() && g.Call.Method.Name() == "genID" && isParamish(g.Call.Args[0])
			c.verdict(key, ci.Pos(), good, "key = genID(<this function's region>)", "cache key is not derived from the region this function handles: a hit can return another chunk's bytes")
		}
	}
	if f := c.mustFn(rp, "(*httpFetcher).genID"); f != nil {
		// the key covers blobURL, begin and end
		src := map[string]bool{}
		for _, ci := range callsIn(f, idIs("fmt.Appendf", "fmt.Sprintf")) {
			for _, a := range varargs(ci.Common().Args[len(ci.Common().Args)-1]) {
				fieldsRead(a, rp+".region", 0, src)
				fieldsRead(a, rp+".httpFetcher", 0, src)
			}
		}
		c.verdict(c.fnKey(f)+":key-fields", f.Pos(), src["b"] && src["e"] && src["blobURL"], "key hashes blob URL, begin and end", fmt.Sprintf("cache key does not cover blob URL, begin and end (has %v)", sortedKeys(src)))
	}

	runC06extra(c)

	// ---------- C06.i ----------
	c.clause("C06.i", "T5", "the fetcher's HTTP status table: 200 whole body, 206 part(s), 403/400 one retry, everything else is an error", 1)
	if f := c.mustFn(rp, "(*httpFetcher).fetch"); f != nil {
		codes := map[int64]bool{}
		eachInstr(f, func(i ssa.Instruction) {
			b, ok := i.(*ssa.BinOp)
			if !ok || b.Op != token.EQL {
				return
			}
			if fa, ok := isFieldLoadAny(b.X, "StatusCode"); ok && fa != nil {
				if n, ok := constInt(b.Y); ok {
					codes[n] = true
				}
			}
		})
		want := map[int64]bool{200: true, 206: true, 403: true, 400: true}
		same := len(codes) == len(want)
		for k := range want {
			if !codes[k] {
				same = false
			}
		}
		// the fall-through returns an error
		errFall := false
		for _, r := range realReturns(f) {
			if !returnsNilError(r) {
				for _, v := range retVals(r, 1) {
					if call, ok := stripConv(v).(*ssa.Call); ok && calleeID(call) == "fmt.Errorf" {
						if s, ok := constString(call.Call.Args[0]); ok && strings.Contains(s, "unexpected status") {
							errFall = true
						}
					}
				}
			}
		}
		var cs []string
		for k := range codes {
			cs = append(cs, fmt.Sprint(k))
		}
		c.verdict(c.fnKey(f)+":status-table", f.Pos(), same && errFall, "statuses handled: 200, 206, 403, 400; others are errors", "HTTP status handling changed: {"+strings.Join(cs, ",")+"}")
		// 200 ⇒ region {0, size-1} from Content-Length; single 206 ⇒ region from Content-Range
	}
	c.assume("singleflight.Group runs one fetch per key; io.CopyN returns an error on short input; mime/multipart yields parts with their own headers")
}

// unusedErrCalls lists value-mode calls in fns whose error result is never looked at
// (no referrer of the call value / no Extract of the error component). Deferred and `go` calls are not listed.
func unusedErrCalls(fns []*ssa.Function) []*ssa.Call {
	var out []*ssa.Call
	for _, f := range fns {
		eachInstr(f, func(i ssa.Instruction) {
			call, ok := i.(*ssa.Call)
			if !ok {
				return
			}
			sig := call.Call.Signature()
			n := sig.Results().Len()
			if n == 0 || !isErrorType(sig.Results().At(n-1).Type()) {
				return
			}
			used := false
			for _, r := range *call.Referrers() {
				switch x := r.(type) {
				case *ssa.DebugRef:
				case *ssa.Extract:
					if x.Index == n-1 {
						for _, rr := range *x.Referrers() {
							if _, dbg := rr.(*ssa.DebugRef); !dbg {
								used = true
							}
						}
					}
				default:
					if n == 1 {
						used = true
					}
				}
			}
			if !used {
				out = append(out, call)
			}
		})
	}
	return out
}

func runC06extra(c *Ctx) {
	const rp = "fs/remote"
	scope := append(c.pkgFuncs(rp), c.pkgFuncs("cache")...)

	// ---------- C06.j ----------
	c.clause("C06.j", "T11", "in fs/remote and cache the error of a first-party or data-moving call is never dropped; only cleanup calls (Abort, Close) may ignore theirs", 5)
	dataMoving := map[string]bool{"io.CopyN": true, "io.ReadFull": true, "io.ReadAtLeast": true, "io.(ReaderAt).ReadAt": true, "io.(Reader).Read": true, "io.(Writer).Write": true, "io.(WriterAt).WriteAt": true}
	isCleanup := func(call *ssa.Call) bool {
		var name string
		if call.Call.IsInvoke() {
			name = call.Call.Method.Name()
		} else if f := staticFn(call); f != nil {
			name = f.Name()
		}
		return name == "Abort" || name == "Close"
	}
	dropped := map[*ssa.Call]bool{}
	for _, call := range unusedErrCalls(scope) {
		dropped[call] = true
	}
	for _, f := range scope {
		eachInstr(f, func(i ssa.Instruction) {
			call, ok := i.(*ssa.Call)
			if !ok {
				return
			}
			sig := call.Call.Signature()
			n := sig.Results().Len()
			if n == 0 || !isErrorType(sig.Results().At(n-1).Type()) {
				return
			}
			id := calleeID(call)
			fp := false
			if o := calleeObj(call); o != nil && o.Pkg() != nil && isFirstParty(o.Pkg().Path()) {
				fp = true
			}
			if !fp && !dataMoving[id] {
				return
			}
			key := c.fnKey(f) + ":err-of:" + id
			if !dropped[call] {
				c.okTrivial(key, call.Pos(), "error result is consumed")
				return
			}
			c.verdict(key, call.Pos(), isCleanup(call), "cleanup call; its error is intentionally ignored", "the error of "+id+" is dropped (assigned to a variable nobody reads, or not assigned): a failed fetch/copy is reported as success")
		})
	}

	// ---------- C06.k ----------
	c.clause("C06.k", "T9", "no append into a prefix of a slice whose tail is still read afterwards (in-place insert/delete on the region list and request lists must not clobber elements they later copy)", 0)
	for _, f := range scope {
		eachInstr(f, func(i ssa.Instruction) {
			ap, ok := i.(*ssa.Call)
			if !ok {
				return
			}
			if b, ok := ap.Call.Value.(*ssa.Builtin); !ok || b.Name() != "append" {
				return
			}
			pre, ok := stripConv(ap.Call.Args[0]).(*ssa.Slice)
			if !ok || pre.High == nil {
				return
			}
			if _, isSlice := pre.X.Type().Underlying().(*types.Slice); !isSlice {
				return // reslice of an array pointer / string
			}
			baseKey := sliceVarKey(pre.X)
			// cuts: stores that replace the slice variable
			cut := newCuts()
			if p, ok := loadOf(stripConv(pre.X)); ok {
				k := addrKey(p)
				eachInstr(f, func(j ssa.Instruction) {
					if st, ok := j.(*ssa.Store); ok && k != "" && addrKey(st.Addr) == k {
						cut.instrs[st] = true
					}
				})
			}
			good := true
			var where ssa.Instruction
			eachInstr(f, func(j ssa.Instruction) {
				tail, ok := j.(*ssa.Slice)
				if !ok || tail.Low == nil || tail == pre {
					return
				}
				if stripConv(tail.X) != stripConv(pre.X) && (baseKey == "" || sliceVarKey(tail.X) != baseKey) {
					return
				}
				for _, u := range *tail.Referrers() {
					if _, dbg := u.(*ssa.DebugRef); dbg || u == ssa.Instruction(ap) {
						continue
					}
					if hit, _ := reach(f, ap, isInstr(u), cut); hit != nil {
						good = false
						where = u
					}
				}
			})
			msg := "an element is appended into a prefix of the slice and the overwritten tail is read afterwards"
			if where != nil {
				msg += " (at " + c.pos(where.Pos()) + "): the following element is lost and the new one duplicated"
			}
			c.verdict(c.fnKey(f)+":prefix-append", ap.Pos(), good, "tail of the slice is consumed by this append itself or before it", msg)
		})
	}

	clauseLRUPin(c, "C06.l")
	clauseCacheReleaseDiscipline(c, "C06.p")
	clauseStreamPosition(c, "C06.m")
	clauseKeyInjective(c, "C06.n", [][2]string{{"fs/remote", "(*httpFetcher).genID"}})
	clauseRangeLabelAndCompleteHit(c, "C06.o")
}

// sliceVarKey names the variable a slice value was loaded from ("" when it is not a load).
func sliceVarKey(v ssa.Value) string {
	if p, ok := loadOf(stripConv(v)); ok {
		return addrKey(p)
	}
	return ""
}

// pinnedValueEscapes: a view of v (type assertion, Bytes(), bytes.NewReader, interface conversion) is stored into an
// object that f returns, or returned itself.
func pinnedValueEscapes(v ssa.Value, f *ssa.Function) bool {
	seen := map[ssa.Value]bool{}
	var work []ssa.Value
	push := func(x ssa.Value) {
		if x != nil && !seen[x] {
			seen[x] = true
			work = append(work, x)
		}
	}
	push(v)
	views := map[string]bool{"bytes.(*Buffer).Bytes": true, "bytes.NewReader": true, "bytes.NewBuffer": true, "io.NewSectionReader": true}
	for len(work) > 0 {
		x := work[0]
		work = work[1:]
		refs := x.Referrers()
		if refs == nil {
			continue
		}
		for _, r := range *refs {
			switch y := r.(type) {
			case *ssa.Return:
				return true
			case *ssa.TypeAssert:
				push(y)
			case *ssa.MakeInterface:
				push(y)
			case *ssa.ChangeInterface:
				push(y)
			case *ssa.ChangeType:
				push(y)
			case *ssa.Slice:
				push(y)
			case *ssa.Extract:
				push(y)
			case *ssa.UnOp:
				// load of a spilled result variable (functions with defers return through locals)
				if a, ok := x.(*ssa.Alloc); ok && !a.Heap && y.Op == token.MUL {
					push(y)
				}
			case *ssa.Call:
				if views[calleeID(y)] {
					push(y)
				}
			case *ssa.Store:
				if y.Val == x {
					// the object whose field receives the view
					switch a := y.Addr.(type) {
					case *ssa.FieldAddr:
						push(a.X)
					case *ssa.Alloc:
						push(a)
					}
				}
			}
		}
	}
	return false
}

func typeQNameOfRecvField(call *ssa.Call) string {
	if len(call.Call.Args) > 0 {
		if p, ok := loadOf(stripConv(call.Call.Args[0])); ok {
			if fa, ok := p.(*ssa.FieldAddr); ok {
				return fieldName(fa)
			}
		}
	}
	return "lru"
}

// appendBuiltSlice: v is a slice accumulated by append in a loop (a phi with an append edge), directly or as the result of
// a first-party helper all of whose returns are such slices.
func appendBuiltSlice(v ssa.Value, depth int) bool {
	v = stripConv(v)
	if depth > 2 {
		return false
	}
	switch x := v.(type) {
	case *ssa.Phi:
		for _, e := range x.Edges {
			if call, ok := stripConv(e).(*ssa.Call); ok {
				if b, ok := call.Call.Value.(*ssa.Builtin); ok && b.Name() == "append" {
					return true
				}
			}
		}
	case *ssa.Call:
		f := staticFn(x)
		if f == nil || f.Pkg == nil || !isFirstParty(f.Pkg.Pkg.Path()) || len(f.Blocks) == 0 {
			return false
		}
		n := 0
		for _, r := range realReturns(f) {
			for _, rv := range retVals(r, 0) {
				n++
				if !appendBuiltSlice(rv, depth+1) {
					return false
				}
			}
		}
		return n > 0
	}
	return false
}
