package main

import (
	"fmt"
	"go/token"
	"go/types"
	"sort"
	"strings"

	"golang.org/x/tools/go/ssa"
)

func init() {
	register("C19", "Structural premises of 'conversion emits descriptors for exactly the blobs written': no converter closure that containerd runs for several layers in parallel writes captured state outside a common lock; in each of the three layer converters the descriptor digest is Digest() of the content writer that received the copy and was committed with the copied size, the TOC annotation and the uncompressed label come from the blob/writer whose bytes were copied; the lossless converter commits only after comparing DiffID and size; the zstd media-type table covers all layer classes; the TOC-manifest annotation key is written and read as one literal. Content-store semantics and byte-level hashing are not decided.", runC19)
}

func isConvertFuncSig(sig *types.Signature) bool {
	if sig.Params().Len() != 3 || sig.Results().Len() != 2 {
		return false
	}
	if typeQName(sig.Params().At(2).Type()) != "github.com/opencontainers/image-spec/specs-go/v1.Descriptor" {
		return false
	}
	if typeQName(sig.Params().At(1).Type()) != "github.com/containerd/containerd/v2/core/content.Store" {
		return false
	}
	return typeQName(sig.Results().At(0).Type()) == "github.com/opencontainers/image-spec/specs-go/v1.Descriptor" && isErrorType(sig.Results().At(1).Type())
}

func runC19(c *Ctx) {
	var convFns []*ssa.Function
	for _, f := range c.liveFuncs() {
		root := enclosingRoot(f)
		if root.Pkg == nil || !strings.HasPrefix(rel(root.Pkg.Pkg.Path()), "nativeconverter") {
			continue
		}
		if f.Parent() != nil && isConvertFuncSig(f.Signature) {
			convFns = append(convFns, f)
		}
	}

	// ---------- C19.a ----------
	c.clause("C19.a", "T8", "func literals of type converter.ConvertFunc (run for all layers of a manifest in parallel) write captured variables/maps only under a lock that also guards every other access to that variable", 6)
	for _, f := range convFns {
		// captured cells written here
		written := map[ssa.Value][]ssa.Instruction{}
		eachInstr(f, func(i ssa.Instruction) {
			switch x := i.(type) {
			case *ssa.Store:
				if fv, ok := x.Addr.(*ssa.FreeVar); ok {
					if r := cellRoot(fv); r != nil {
						written[r] = append(written[r], i)
					}
				}
			case *ssa.MapUpdate:
				if p, ok := loadOf(stripConv(x.Map)); ok {
					if fv, ok := p.(*ssa.FreeVar); ok {
						if r := cellRoot(fv); r != nil {
							written[r] = append(written[r], i)
						}
					}
				}
				if fv, ok := stripConv(x.Map).(*ssa.FreeVar); ok {
					written[fv] = append(written[fv], i) // map captured by value (never reassigned)
				}
			case *ssa.Call:
				if b, ok := x.Call.Value.(*ssa.Builtin); ok && b.Name() == "delete" {
					if p, ok := loadOf(stripConv(x.Call.Args[0])); ok {
						if fv, ok := p.(*ssa.FreeVar); ok {
							if r := cellRoot(fv); r != nil {
								written[r] = append(written[r], i)
							}
						}
					}
				}
			}
		})
		// free variables captured by value that are maps and updated
		nfv := 0
		for _, fv := range f.FreeVars {
			nfv++
			_ = fv
		}
		if len(written) == 0 {
			c.ok(c.fnKey(f)+":captured-writes", f.Pos(), fmt.Sprintf("no write to captured state (%d captured variables, read-only)", nfv))
			continue
		}
		for cell, ws := range written {
			name := addrKey(cell)
			if fv, ok := cell.(*ssa.FreeVar); ok {
				name = fv.Name()
			}
			key := c.fnKey(f) + ":captured-write:" + name
			// all accesses to this cell in all literals of the root (outside the declaring function's own body)
			var accs []ssa.Instruction
			decl := cell.Parent()
			for _, g := range withAnon(enclosingRoot(f)) {
				if g == decl {
					continue
				}
				eachInstr(g, func(i ssa.Instruction) {
					var ops []*ssa.Value
					for _, op := range i.Operands(ops) {
						if *op == nil {
							continue
						}
						if fv, ok := (*op).(*ssa.FreeVar); ok && (cellRoot(fv) == cell || ssa.Value(fv) == cell) {
							accs = append(accs, i)
						}
					}
				})
			}
			// for loads of the cell, the uses of the loaded map (lookup/range/update) are the real accesses
			var real []ssa.Instruction
			for _, a := range accs {
				if ld, ok := a.(*ssa.UnOp); ok && ld.Op == token.MUL && ld.Referrers() != nil {
					if _, isMap := ld.Type().Underlying().(*types.Map); isMap {
						real = append(real, *ld.Referrers()...)
						continue
					}
				}
				real = append(real, a)
			}
			var common lockset
			for i, a := range real {
				h := c.locksAt(a)
				if i == 0 {
					common = h.clone()
				} else {
					common = meet(common, h)
				}
			}
			if len(common) > 0 {
				c.ok(key, ws[0].Pos(), fmt.Sprintf("all %d accesses hold %s", len(real), strings.Join(sortedKeys(common), ",")))
			} else {
				c.bad(key, ws[0].Pos(), "captured "+name+" is written by a ConvertFunc literal without a lock common to all its accesses: layers of one manifest are converted in parallel, so this is a concurrent map write / lost update and descriptors can describe another layer's blob")
			}
		}
	}

	// per-layer state must be created per invocation
	c.clause("C19.a2", "T8", "stateful compression objects (external-TOC compression buffering a TOC, zstd:chunked compressor with its metadata map) used by a ConvertFunc literal are created inside that invocation, never captured", 2)
	stateful := map[string]bool{"estargz/externaltoc.GzipCompression": true, "estargz/externaltoc.GzipCompressor": true, "estargz/zstdchunked.Compressor": true, "nativeconverter/zstdchunked.zstdCompression": true}
	nState := 0
	for _, f := range convFns {
		usesState := false
		captured := ""
		eachInstr(f, func(i ssa.Instruction) {
			var ops []*ssa.Value
			for _, op := range i.Operands(ops) {
				if *op == nil {
					continue
				}
				v := *op
				t := v.Type()
				if stateful[typeQName(t)] {
					usesState = true
				}
				// captured: a FreeVar of (pointer to) such a type or a load from a captured cell of such a type / of an interface holding it
				if fv, ok := v.(*ssa.FreeVar); ok {
					et := deref(fv.Type())
					if stateful[typeQName(fv.Type())] || stateful[typeQName(et)] {
						captured = fv.Name()
					}
					// a captured ConvertFunc built outside (closing over shared state) that is invoked here
					if sig, ok := deref(fv.Type()).Underlying().(*types.Signature); ok && isConvertFuncSig(sig) {
						if ci, ok := i.(ssa.CallInstruction); ok {
							_ = ci
						}
						captured = fv.Name() + " (a ConvertFunc built once outside the per-layer invocation)"
					}
				}
			}
		})
		if !usesState && captured == "" {
			continue
		}
		nState++
		c.verdict(c.fnKey(f)+":per-layer-state", f.Pos(), captured == "", "compression state is created per invocation", "per-layer compression state "+captured+" is captured from the enclosing function and shared by all layers converted in parallel: one layer's TOC/metadata is attributed to another layer")
	}
	if nState < 2 {
		c.bad("nativeconverter:per-layer-state-sites", token.NoPos, fmt.Sprintf("%d converter literals with per-layer compression state found (2 on the pinned tree)", nState))
	}

	// ---------- C19.b ----------
	c.clause("C19.b", "T9", "descriptor provenance in every layer converter: Digest is Digest() of the committed writer that received the copy; Size and the Commit size are the copied count; TOC annotation and uncompressed label come from the blob/writer whose bytes were copied", 12)
	const desc = "github.com/opencontainers/image-spec/specs-go/v1.Descriptor"
	const cw = "github.com/containerd/containerd/v2/core/content.(Writer)."
	nConv := 0
	type losslessVerdict struct {
		key string
		at  ssa.Instruction
		ok  bool
	}
	var losslessRes []losslessVerdict
	for _, f := range convFns {
		// layer converters: those that open a content writer
		opens := callsIn(f, idIs("github.com/containerd/containerd/v2/core/content.OpenWriter"))
		if len(opens) == 0 {
			continue
		}
		nConv++
		w := resultN(opens[0], 0)
		commits := callsIn(f, idIs(cw+"Commit"))
		digests := callsIn(f, idIs(cw+"Digest"))
		fk := c.fnKey(f)
		if len(commits) != 1 || len(digests) != 1 || w == nil {
			c.bad(fk+":writer", f.Pos(), fmt.Sprintf("expected one OpenWriter/Commit/Digest, found %d/%d/%d", len(opens), len(commits), len(digests)))
			continue
		}
		com, dg := commits[0], digests[0]
		sameW := func(v ssa.Value) bool { return sameValue(v, w) }
		// copy: io.Copy(dst, src) with dst = w, or a writer wrapping w via io.MultiWriter; or estargz writer over such
		var copyCall ssa.CallInstruction
		var src ssa.Value
		var countSize ssa.Value // countW.Size() alternative
		for _, ci := range callsIn(f, idIs("io.Copy")) {
			if wrapsWriter(ci.Common().Args[0], sameW, 0) {
				copyCall = ci
				src = ci.Common().Args[1]
			}
		}
		var ew ssa.Value // estargz.Writer in the lossless converter
		ewSet := map[ssa.Value]bool{}
		if copyCall == nil {
			for _, ci := range callsIn(f, idIs("estargz.NewWriterWithCompressor", "estargz.NewWriter")) {
				if wrapsWriter(ci.Common().Args[0], sameW, 0) {
					if ew == nil {
						ew = ci.Value()
					}
					ewSet[ci.Value()] = true
				}
			}
		}
		isEW := func(v ssa.Value) bool {
			srcs := valueSources(v, f, 0)
			for _, x := range srcs {
				if !ewSet[x] {
					return false
				}
			}
			return len(srcs) > 0
		}
		// digest receiver and commit receiver
		okW := sameW(dg.Common().Value) && sameW(com.Common().Value)
		c.verdict(fk+":digest-of-committed-writer", dg.Pos(), okW && (copyCall != nil || ew != nil), "Digest() and Commit() on the writer that receives the converted bytes", "descriptor digest is not taken from the writer the blob was written to and committed")
		// Digest after Commit
		okp, _ := mustPass(f, dg, newCuts().addInstr(com))
		c.verdict(fk+":digest-after-commit", dg.Pos(), okp, "Digest() read after Commit", "Digest() can be read before Commit")
		// stores to newDesc fields
		var digestSt, sizeSt *ssa.Store
		eachInstr(f, func(i ssa.Instruction) {
			if s, ok := i.(*ssa.Store); ok {
				if fa, ok := s.Addr.(*ssa.FieldAddr); ok && typeQName(fa.X.Type()) == desc {
					switch fieldName(fa) {
					case "Digest":
						digestSt = s
					case "Size":
						sizeSt = s
					}
				}
			}
		})
		if digestSt == nil || sizeSt == nil {
			c.bad(fk+":newDesc", f.Pos(), "new descriptor's Digest/Size are not set")
			continue
		}
		c.verdict(fk+":newDesc.Digest", digestSt.Pos(), stripConv(digestSt.Val) == dg.Value(), "newDesc.Digest = w.Digest()", "newDesc.Digest is not w.Digest()")
		// size: result 0 of the copy, or Size() of a CountWriter that sits in the same MultiWriter as w
		sizeOK := false
		commitSize := com.Common().Args[1]
		if copyCall != nil {
			n := resultN(copyCall, 0)
			sizeOK = n != nil && sameValue(sizeSt.Val, n) && sameValue(commitSize, n)
		} else if ew != nil {
			if sc, ok := stripConv(sizeSt.Val).(*ssa.Call); ok && calleeID(sc) == "util/ioutils.(*CountWriter).Size" {
				cwv := sc.Call.Args[0]
				inSame := false
				for _, mw := range callsIn(f, idIs("io.MultiWriter")) {
					if wrapsWriter(mw.Value(), sameW, 0) && wrapsWriter(mw.Value(), func(v ssa.Value) bool { return sameValue(v, cwv) }, 0) {
						inSame = true
					}
				}
				sizeOK = inSame && sameValue(commitSize, sizeSt.Val)
				countSize = sc
				// the count is read after the estargz writer was closed
				closes := callsIn(f, idIs("estargz.(*Writer).Close"))
				if len(closes) == 1 {
					okp, _ := mustPass(f, sc, newCuts().addEdges(successEdges(f, closes[0])))
					sizeOK = sizeOK && okp
				} else {
					sizeOK = false
				}
			}
		}
		_ = countSize
		c.verdict(fk+":newDesc.Size", sizeSt.Pos(), sizeOK, "newDesc.Size and Commit size are the byte count of the copy into w", "descriptor size / commit size is not the number of bytes written to the committed writer")
		// the blob is fully read and closed before its digests are used
		var blob ssa.Value = src
		tocOK, diffOK := false, false
		var tocAt, diffAt ssa.Instruction
		eachInstr(f, func(i ssa.Instruction) {
			mu, ok := i.(*ssa.MapUpdate)
			if !ok {
				return
			}
			k, isC := constString(mu.Key)
			if !isC {
				return
			}
			val := stripConv(mu.Value)
			sc, isCall := val.(*ssa.Call)
			switch k {
			case c.constVal("estargz", "TOCJSONDigestAnnotation"):
				tocAt = i
				if !isCall {
					// tocDgst := blob.TOCDigest().String() stored in a local first
					return
				}
				inner := innerCallRecv(sc)
				if blob != nil {
					if ic, ok := inner.(*ssa.Call); ok && ic.Call.IsInvoke() && ic.Call.Method.Name() == "TOCDigest" || ok && calleeID(ic) == "estargz.(*Blob).TOCDigest" {
						recv := ic.Call.Value
						if !ic.Call.IsInvoke() {
							recv = ic.Call.Args[0]
						}
						tocOK = sameValue(recv, blob) || wrapsReader(blob, recv)
					}
				} else if ew != nil {
					if e, ok := inner.(*ssa.Extract); ok && e.Index == 0 {
						if cl, ok := e.Tuple.(*ssa.Call); ok && calleeID(cl) == "estargz.(*Writer).Close" {
							tocOK = isEW(cl.Call.Args[0])
						}
					}
				}
			case c.constVal("github.com/containerd/containerd/v2/core/images/converter/uncompress", "LabelUncompressed"), "containerd.io/uncompressed":
				diffAt = i
				if !isCall {
					return
				}
				inner := innerCallRecv(sc)
				if blob != nil {
					if ic, ok := inner.(*ssa.Call); ok && calleeID(ic) == "estargz.(*Blob).DiffID" {
						diffOK = sameValue(ic.Call.Args[0], blob) || wrapsReader(blob, ic.Call.Args[0])
					}
				} else if ew != nil {
					// field diffID of the info received from the channel of the pipe writer that is part of mw
					diffOK = losslessInfoFrom(f, inner, sameW)
				}
			}
		})
		if tocAt == nil {
			c.bad(fk+":toc-annotation", f.Pos(), "converted descriptor carries no TOC digest annotation")
		} else {
			c.verdict(fk+":toc-annotation", tocAt.Pos(), tocOK, "TOC digest annotation comes from the blob/writer whose bytes were copied", "TOC digest annotation does not come from the blob that was written")
		}
		if diffAt == nil {
			c.bad(fk+":uncompressed-label", f.Pos(), "uncompressed label not updated")
		} else {
			c.verdict(fk+":uncompressed-label", diffAt.Pos(), diffOK, "uncompressed label comes from the written blob's DiffID", "uncompressed label does not come from the written blob")
			// nothing overwrites the label map between the update and Commit
			lm := diffAt.(*ssa.MapUpdate).Map
			over := false
			eachInstr(f, func(i ssa.Instruction) {
				if i == diffAt {
					return
				}
				hit := false
				switch x := i.(type) {
				case *ssa.MapUpdate:
					if sameValue(x.Map, lm) {
						if k, ok := constString(x.Key); !ok || k == c.constVal("github.com/containerd/containerd/v2/core/images/converter/uncompress", "LabelUncompressed") || k == "containerd.io/uncompressed" {
							hit = true
						}
					}
				case *ssa.Call:
					if calleeID(x) == "maps.Copy" && sameValue(x.Call.Args[0], lm) {
						hit = true
					}
				}
				if hit && instrBetween(diffAt, com, i) {
					over = true
				}
			})
			c.verdict(fk+":uncompressed-label-final", diffAt.Pos(), !over, "the label is not overwritten before Commit", "the uncompressed label written from the new blob can be overwritten (e.g. by the source blob's labels) before Commit")
		}
		if blob != nil {
			// blob.Close() success before DiffID/TOCDigest are read and before Commit
			bk := addrKey(blob)
			closes := callsIn(f, func(id string, ci ssa.CallInstruction) bool {
				o := calleeObj(ci)
				if o == nil || o.Name() != "Close" {
					return false
				}
				if _, isDefer := ci.(*ssa.Defer); isDefer {
					return false
				}
				var recv ssa.Value
				if ci.Common().IsInvoke() {
					recv = ci.Common().Value
				} else if len(ci.Common().Args) > 0 {
					recv = ci.Common().Args[0]
				}
				rk := addrKey(recv)
				return bk != "" && (rk == bk || strings.HasPrefix(rk, bk+"."))
			})
			good := len(closes) >= 1
			if good {
				se := successEdges(f, closes[0])
				okp, _ := mustPass(f, com, newCuts().addEdges(se))
				good = okp && len(se) > 0
			}
			c.verdict(fk+":blob-closed-before-commit", com.Pos(), good, "blob fully read and closed without error before Commit", "Commit can happen although closing the built blob failed (TOC digest / DiffID not final)")
		}
		// the returned descriptor is returned only after Commit
		for _, r := range realReturns(f) {
			if vs := retVals(r, 0); len(vs) == 1 && !isNilConst(vs[0]) {
				okp, path := mustPass(f, r, newCuts().addInstr(com))
				c.verdict(fk+":return-after-commit", r.Pos(), okp, "descriptor returned only after Commit", "a descriptor is returned on a path without Commit: "+c.pathStr(f, path))
			}
		}

		// ---------- C19.c (lossless only) ----------
		if ew != nil {
			neq := condEdges(f, func(cond ssa.Value) int {
				b, ok := cond.(*ssa.BinOp)
				if !ok || b.Op != token.NEQ {
					return 0
				}
				if infoField(b.X) != "" && infoField(b.X) == infoField(b.Y) {
					return -1
				}
				return 0
			})
			fields := map[string]bool{}
			for _, e := range neq {
				iff := f.Blocks[e.from].Instrs[len(f.Blocks[e.from].Instrs)-1].(*ssa.If)
				if b, ok := iff.Cond.(*ssa.BinOp); ok {
					fields[infoField(b.X)] = true
				}
			}
			okAll := fields["diffID"] && fields["size"]
			if okAll {
				for _, e := range neq {
					if okp, _ := mustPass(f, com, newCuts().addEdges([]edge{e})); !okp {
						okAll = false
					}
				}
			}
			losslessRes = append(losslessRes, losslessVerdict{fk + ":lossless-check", com, okAll})
		}
	}
	c.clause("C19.c", "T1", "the lossless converter commits only after DiffID and uncompressed size of input and output compared equal", 1)
	for _, lv := range losslessRes {
		c.verdict(lv.key, lv.at.Pos(), lv.ok, "Commit dominated by the equal edges of both comparisons", "lossless converter can commit without comparing DiffID and size of input and output")
	}
	if nConv < 3 {
		c.clause("C19.b.count", "T9", "three layer converters", 0)
		c.unk("layer-converters", token.NoPos, fmt.Sprintf("only %d layer converters found (3 on the pinned tree)", nConv))
	}

	// ---------- C19.d ----------
	c.clause("C19.d", "T5", "zstd media-type table covers plain/gzip/zstd of both layer classes and errors otherwise; gzip converters add a suffix only for uncompressed types", 2)
	if f := c.mustFn("nativeconverter/zstdchunked", "convertMediaTypeToZstd"); f != nil {
		cases := switchStringCases(f)
		want := map[string]string{
			"application/vnd.oci.image.layer.v1.tar":                        "application/vnd.oci.image.layer.v1.tar+zstd",
			"application/vnd.oci.image.layer.v1.tar+gzip":                   "application/vnd.oci.image.layer.v1.tar+zstd",
			"application/vnd.oci.image.layer.v1.tar+zstd":                   "application/vnd.oci.image.layer.v1.tar+zstd",
			"application/vnd.oci.image.layer.nondistributable.v1.tar":      "application/vnd.oci.image.layer.nondistributable.v1.tar+zstd",
			"application/vnd.oci.image.layer.nondistributable.v1.tar+gzip": "application/vnd.oci.image.layer.nondistributable.v1.tar+zstd",
			"application/vnd.oci.image.layer.nondistributable.v1.tar+zstd": "application/vnd.oci.image.layer.nondistributable.v1.tar+zstd",
		}
		var probs []string
		for k, v := range want {
			if got, ok := cases[k]; !ok {
				probs = append(probs, "no case for "+k)
			} else if got != v {
				probs = append(probs, k+" maps to "+got)
			}
		}
		for k := range cases {
			if _, ok := want[k]; !ok {
				probs = append(probs, "unexpected case "+k)
			}
		}
		sort.Strings(probs)
		// default returns an error
		defErr := false
		for _, r := range realReturns(f) {
			if vs := retVals(r, 1); len(vs) == 1 && !isNilConst(vs[0]) {
				defErr = true
			}
		}
		c.verdict(c.fnKey(f)+":table", f.Pos(), len(probs) == 0 && defErr, "6 media types map to the zstd type of their class; others are errors", "media-type table wrong: "+strings.Join(probs, "; "))
	}
	for _, f := range convFns {
		// suffix appends guarded by IsUncompressedType
		eachInstr(f, func(i ssa.Instruction) {
			b, ok := i.(*ssa.BinOp)
			if !ok || b.Op != token.ADD {
				return
			}
			s, ok := constString(b.Y)
			if !ok || (s != "+gzip" && s != ".gzip") {
				return
			}
			guard := condEdges(f, func(cond ssa.Value) int {
				if cl, ok := cond.(*ssa.Call); ok && strings.HasSuffix(calleeID(cl), "uncompress.IsUncompressedType") {
					return 1
				}
				return 0
			})
			okp, _ := mustPass(f, b, newCuts().addEdges(guard))
			dockerEdge := condEdges(f, func(cond ssa.Value) int {
				if cl, ok := cond.(*ssa.Call); ok && strings.HasSuffix(calleeID(cl), "images.IsDockerType") {
					if s == ".gzip" {
						return 1
					}
					return -1
				}
				return 0
			})
			okd, _ := mustPass(f, b, newCuts().addEdges(dockerEdge))
			c.verdict(c.fnKey(f)+":suffix"+s, b.Pos(), okp && okd && len(guard) > 0, "gzip suffix only for uncompressed media types, docker/OCI spelling by class", "gzip suffix appended to an already compressed or wrong-class media type")
		})
	}

	// ---------- C19.e ----------
	c.clause("C19.e", "T5", "the layer-digest annotation key of the TOC manifest is written by finalize and read by the fetcher as one literal; both derive the TOC image reference with the same function", 2)
	{
		written := map[string]bool{}
		read := map[string]bool{}
		for _, f := range c.pkgFuncs("nativeconverter/estargz/externaltoc") {
			eachInstr(f, func(i ssa.Instruction) {
				switch x := i.(type) {
				case *ssa.MapUpdate:
					if k, ok := constString(x.Key); ok && strings.Contains(k, "/") {
						if mk, ok := stripConv(x.Map).(*ssa.MakeMap); ok {
							// composite literal used as Descriptor.Annotations
							for _, r := range *mk.Referrers() {
								if st, ok := r.(*ssa.Store); ok {
									if fa, ok := st.Addr.(*ssa.FieldAddr); ok && fieldName(fa) == "Annotations" {
										written[k] = true
									}
								}
							}
						}
					}
				case *ssa.Lookup:
					if k, ok := constString(x.Index); ok {
						if _, ok := isFieldLoadAny(x.X, "Annotations"); ok {
							read[k] = true
						} else if fl, ok := stripConv(x.X).(*ssa.Field); ok && fl.X.Type().Underlying().(*types.Struct).Field(fl.Field).Name() == "Annotations" {
							read[k] = true
						}
					}
				}
			})
		}
		wk, rk := strings.Join(sortedKeys(written), ","), strings.Join(sortedKeys(read), ",")
		c.verdict("nativeconverter/estargz/externaltoc:layer-digest-annotation", token.NoPos, wk == rk && len(written) == 1, "written and read key: "+wk, "TOC manifest annotation keys differ: written {"+wk+"} read {"+rk+"}")
		n := len(c.callSitesOf(idIs("nativeconverter/estargz/externaltoc.getTOCReference"), c.pkgFuncs("nativeconverter/estargz/externaltoc")))
		c.verdict("nativeconverter/estargz/externaltoc:toc-reference", token.NoPos, n >= 2, "finalize and fetchTOCBlob both use getTOCReference", "TOC image reference derived differently on the write and read side")
	}
	clauseReuseOnlyVerifiedLayer(c, "C19.f")
	clauseHelperFailureSurfaces(c, "C19.g")
	clauseMediaTypeBySharedPredicate(c, "C19.h")
	clauseTOCDigestOfWrittenBytes(c, "C19.i")
	clauseCompressorPerCall(c, "C19.j")
	c.assume("containerd's converter invokes one ConvertFunc value for all layers of a manifest concurrently (core/images/converter convertManifest uses an errgroup)")
	c.assume("content.Writer.Digest() is the digest of the bytes written; estargz.Blob.TOCDigest/DiffID are final after Close")
}

// wrapsWriter: v is the writer satisfying is, or io.MultiWriter(...) containing it (through varargs slices), or a conversion.
func wrapsWriter(v ssa.Value, is func(ssa.Value) bool, depth int) bool {
	if depth > 5 || v == nil {
		return false
	}
	if is(v) {
		return true
	}
	v = stripConv(v)
	if is(v) {
		return true
	}
	if ph, ok := v.(*ssa.Phi); ok {
		for _, e := range ph.Edges {
			if wrapsWriter(e, is, depth+1) {
				return true
			}
		}
		return false
	}
	if call, ok := v.(*ssa.Call); ok && calleeID(call) == "io.MultiWriter" {
		for _, a := range call.Call.Args {
			if sl, ok := a.(*ssa.Slice); ok {
				if al, ok := sl.X.(*ssa.Alloc); ok {
					for _, r := range *al.Referrers() {
						if ia, ok := r.(*ssa.IndexAddr); ok {
							for _, rr := range *ia.Referrers() {
								if st, ok := rr.(*ssa.Store); ok && wrapsWriter(st.Val, is, depth+1) {
									return true
								}
							}
						}
					}
				}
			}
		}
	}
	for _, rv := range reachingVals(v) {
		if rv != v && wrapsWriter(rv, is, depth+1) {
			return true
		}
	}
	return false
}

// wrapsReader: src (io.Reader interface value) is a conversion of blob.
func wrapsReader(src, blob ssa.Value) bool {
	return stripConv(src) == stripConv(blob) || sameValue(src, blob)
}

// innerCallRecv: for x.String() returns x.
func innerCallRecv(sc *ssa.Call) ssa.Value {
	if sc.Call.IsInvoke() {
		return stripConv(sc.Call.Value)
	}
	if len(sc.Call.Args) > 0 {
		return stripConv(sc.Call.Args[0])
	}
	return nil
}

func infoField(v ssa.Value) string {
	v = stripConv(v)
	if call, ok := v.(*ssa.Call); ok && len(call.Call.Args) > 0 {
		v = stripConv(call.Call.Args[0]) // .String()
	}
	if fl, ok := v.(*ssa.Field); ok && typeQName(fl.X.Type()) == "nativeconverter/estargz/externaltoc.uncompressedInfo" {
		return fl.X.Type().Underlying().(*types.Struct).Field(fl.Field).Name()
	}
	if fa, ok := isFieldLoadAny(v, "diffID"); ok && typeQName(fa.X.Type()) == "nativeconverter/estargz/externaltoc.uncompressedInfo" {
		return "diffID"
	}
	if fa, ok := isFieldLoadAny(v, "size"); ok && typeQName(fa.X.Type()) == "nativeconverter/estargz/externaltoc.uncompressedInfo" {
		return "size"
	}
	return ""
}

// losslessInfoFrom: v is field diffID of the value received from the channel returned (together with the pipe writer placed in the
// MultiWriter that wraps w) by one calcUncompression call.
func losslessInfoFrom(f *ssa.Function, v ssa.Value, sameW func(ssa.Value) bool) bool {
	var holder ssa.Value
	if fl, ok := stripConv(v).(*ssa.Field); ok {
		holder = fl.X
	} else if fa, ok := isFieldLoadAny(v, "diffID"); ok {
		// local struct variable: resolve its single store
		if a, ok := fa.X.(*ssa.Alloc); ok {
			for _, r := range *a.Referrers() {
				if st, ok := r.(*ssa.Store); ok && st.Addr == a {
					if holder != nil {
						return false
					}
					holder = st.Val
				}
			}
		}
	}
	if holder == nil {
		return false
	}
	recv, ok := stripConv(holder).(*ssa.UnOp)
	if !ok || recv.Op != token.ARROW {
		return false
	}
	che, ok := stripConv(recv.X).(*ssa.Extract)
	if !ok || che.Index != 1 {
		return false
	}
	call, ok := che.Tuple.(*ssa.Call)
	if !ok {
		return false
	}
	// the pipe writer (result 0 of the same call) must be in a MultiWriter with w
	pw := resultN(call, 0)
	for _, mw := range callsIn(f, idIs("io.MultiWriter")) {
		if wrapsWriter(mw.Value(), sameW, 0) && wrapsWriter(mw.Value(), func(x ssa.Value) bool { return stripConv(x) == pw }, 0) {
			return true
		}
	}
	return false
}

// constVal returns the string value of package-level constant name in first-party or imported package pkg.
func (c *Ctx) constVal(pkg, name string) string {
	var tp *types.Package
	if p, ok := c.Pkgs[pkg]; ok {
		tp = p.Types
	} else {
		for _, p := range c.AllPkgs {
			if imp, ok := p.Imports[pkg]; ok {
				tp = imp.Types
				break
			}
		}
	}
	if tp == nil {
		return "\x00unresolved:" + pkg + "." + name
	}
	if k, ok := tp.Scope().Lookup(name).(*types.Const); ok {
		s := k.Val().ExactString()
		if len(s) >= 2 && s[0] == '"' {
			return s[1 : len(s)-1]
		}
		return s
	}
	return "\x00unresolved:" + pkg + "." + name
}

// switchStringCases maps each string constant compared (==) against the switch tag to the constant string
// returned on that edge (result 0).
func switchStringCases(f *ssa.Function) map[string]string {
	out := map[string]string{}
	for _, b := range f.Blocks {
		if len(b.Instrs) == 0 {
			continue
		}
		iff, ok := b.Instrs[len(b.Instrs)-1].(*ssa.If)
		if !ok {
			continue
		}
		bo, ok := iff.Cond.(*ssa.BinOp)
		if !ok || bo.Op != token.EQL {
			continue
		}
		k, ok := constString(bo.Y)
		if !ok {
			continue
		}
		// follow the true edge (through jumps) to a return
		t := b.Succs[0]
		for hops := 0; hops < 4; hops++ {
			if len(t.Instrs) > 0 {
				if r, ok := t.Instrs[len(t.Instrs)-1].(*ssa.Return); ok {
					if s, ok := constString(r.Results[0]); ok {
						out[k] = s
					} else {
						out[k] = "<non-constant>"
					}
					break
				}
				if _, ok := t.Instrs[len(t.Instrs)-1].(*ssa.Jump); ok {
					t = t.Succs[0]
					continue
				}
			}
			break
		}
	}
	return out
}
