package main

import (
	"fmt"
	"go/constant"
	"go/token"
	"go/types"
	"sort"
	"strings"

	"golang.org/x/tools/go/ssa"
)

func init() {
	register("C07", "Table and gating agreement of the overlayfs translation in fs/layer/node.go: listing and lookup hide the same names (landmarks only at the root, every .wh.-prefixed name) modulo a reviewed exception table; whiteout device entries are synthesised only when no real entry of that name exists and lookup creates a whiteout inode only when the plain name is absent; the opaque xattr table covers every configured mode and both xattr handlers answer it only for opaque directories; inode numbers 1 and 2 are reserved and ids are offset by 3 with a wrap guard; the state file reports digest, size and a freshly read fetched size. Overlay composition semantics and listing/lookup agreement for arbitrary names are not decided.", runC07)
	register("C02", "Table agreement behind 'the lazily served view equals the tar': the entry types the writer can emit are exactly those the reader maps to file modes, and the FUSE mode conversion has a case for every mode the reader can produce; every field of metadata.Attr is consumed by the FUSE attribute/xattr/readlink conversion; every chunk-cache key in fs/reader is genID of the id, offset and size that belong to one chunk (one ChunkEntryForOffset result, one chunkData, or the pre-reader callback's own parameters), and the whole-file key covers the sum of the enumerated chunk sizes. Byte equality of reads, chunk search arithmetic and short reads at EOF are not decided.", runC02)
}

// namePredicates extracts from function f (and nested literals) the constants compared with the string parameter `name`
// (==) and the prefixes tested with strings.HasPrefix(name, P); each with whether the test sits behind an isRoot-like bool.
type namePreds struct {
	equals   map[string]bool
	prefixes map[string]bool
	rootOnly map[string]bool
}

func collectNamePreds(c *Ctx, f *ssa.Function, isName func(ssa.Value) bool) namePreds {
	np := namePreds{map[string]bool{}, map[string]bool{}, map[string]bool{}}
	rootEdges := condEdges(f, func(cond ssa.Value) int {
		// isRoot: result of n.isRootNode() (possibly captured)
		for _, v := range append(reachingCellVals(cond), cond) {
			if call, ok := stripConv(v).(*ssa.Call); ok && strings.HasSuffix(calleeID(call), ".isRootNode") {
				return 1
			}
		}
		return 0
	})
	eachInstr(f, func(i ssa.Instruction) {
		switch x := i.(type) {
		case *ssa.BinOp:
			if x.Op != token.EQL && x.Op != token.NEQ {
				return
			}
			var k ssa.Value
			if isName(x.X) {
				k = x.Y
			} else if isName(x.Y) {
				k = x.X
			} else {
				return
			}
			if s, ok := constString(k); ok {
				np.equals[s] = true
				if len(rootEdges) > 0 {
					if okp, _ := mustPass(f, x, newCuts().addEdges(rootEdges)); okp {
						np.rootOnly[s] = true
					}
				}
			}
		case *ssa.Call:
			if calleeID(x) == "strings.HasPrefix" && isName(x.Call.Args[0]) {
				if s, ok := constString(x.Call.Args[1]); ok {
					np.prefixes[s] = true
				}
			}
		}
	})
	return np
}

func runC07(c *Ctx) {
	const lp = "fs/layer"
	pfl, npfl := c.constVal("estargz", "PrefetchLandmark"), c.constVal("estargz", "NoPrefetchLandmark")
	whp := c.constVal(lp, "whiteoutPrefix")
	opqDir := c.constVal(lp, "whiteoutOpaqueDir")
	stateDir := c.constVal(lp, "stateDirName")

	// ---------- C07.a ----------
	c.clause("C07.a", "T5", "listing and lookup hide the same names: landmarks (root only) and every whiteout-prefixed name; exceptions: '.', '..' and the opaque marker (listing only), the state directory (lookup only)", 6)
	rd := c.mustFn(lp, "(*node).readdir")
	lk := c.mustFn(lp, "(*node).Lookup")
	if rd != nil && lk != nil {
		var rdLit *ssa.Function
		for _, lit := range rd.AnonFuncs {
			for _, u := range literalUses(lit) {
				if ci, ok := u.(*ssa.Call); ok && ci.Call.IsInvoke() && ci.Call.Method.Name() == "ForeachChild" {
					rdLit = lit
				}
			}
		}
		if rdLit == nil {
			c.bad(c.fnKey(rd)+":ForeachChild", rd.Pos(), "readdir no longer enumerates children through ForeachChild")
		} else {
			a := collectNamePreds(c, rdLit, func(v ssa.Value) bool { p, ok := stripConv(v).(*ssa.Parameter); return ok && p == rdLit.Params[0] })
			b := collectNamePreds(c, lk, func(v ssa.Value) bool {
				return isParamish(v) && (addrKey(v) == "name" || func() bool { p, ok := stripConv(v).(*ssa.Parameter); return ok && p == lk.Params[2] }())
			})
			except := map[string]string{".": "listing only (re-added explicitly)", "..": "listing only (re-added explicitly)", opqDir: "listing only (covered by the prefix in lookup)", stateDir: "lookup only (deliberately hidden directory)"}
			all := map[string]bool{}
			for k := range a.equals {
				all[k] = true
			}
			for k := range b.equals {
				all[k] = true
			}
			for _, k := range sortedKeys(all) {
				key := "hidden-name:" + k
				if why, ok := except[k]; ok {
					c.okTrivial(key, rd.Pos(), "reviewed exception: "+why)
					continue
				}
				c.verdict(key, rd.Pos(), a.equals[k] && b.equals[k], "hidden from both listing and lookup", fmt.Sprintf("name %q is hidden by only one of listing (%v) and lookup (%v)", k, a.equals[k], b.equals[k]))
			}
			for _, lm := range []string{pfl, npfl} {
				c.verdict("landmark:"+lm, rd.Pos(), a.equals[lm] && b.equals[lm] && a.rootOnly[lm] && b.rootOnly[lm], "landmark hidden in listing and lookup, only at the layer root", "landmark "+lm+" is not hidden consistently (both handlers, root only)")
			}
			pa, pb := strings.Join(sortedKeys(a.prefixes), ","), strings.Join(sortedKeys(b.prefixes), ",")
			c.verdict("hidden-prefix", rd.Pos(), pa == pb && a.prefixes[whp], "both hide names with prefix "+whp, "listing hides prefixes {"+pa+"} but lookup hides {"+pb+"}")
			// the state dir is answered only at the root
			c.verdict("state-dir-root-only", lk.Pos(), b.equals[stateDir] && b.rootOnly[stateDir], "state directory only under the layer root", "state directory is reachable below non-root directories or not at all")
		}
	}
	// builder side uses the same landmark constants (cross-module identity is by value)
	c.verdict("landmark-constants", token.NoPos, pfl != "" && npfl != "" && pfl != npfl && !strings.HasPrefix(pfl, "\x00"), "landmark names resolve to two distinct constants of package estargz", "landmark constants do not resolve")

	// ---------- C07.b ----------
	c.clause("C07.b", "T1", "a whiteout device entry is listed only when no real entry has that name; lookup creates a whiteout inode only when the plain name is absent and the prefixed name exists", 2)
	if rd != nil {
		n := 0
		eachInstr(rd, func(i ssa.Instruction) {
			st, ok := i.(*ssa.Store)
			if !ok {
				return
			}
			fa, ok := st.Addr.(*ssa.FieldAddr)
			if !ok || fieldName(fa) != "Mode" || typeQName(fa.X.Type()) != "github.com/hanwen/go-fuse/v2/fuse.DirEntry" {
				return
			}
			if k, ok := constInt(st.Val); !ok || k != 0x2000 { // S_IFCHR
				return
			}
			n++
			absent := condEdges(rd, func(cond ssa.Value) int {
				if l, ok := stripConv(cond).(*ssa.Lookup); ok && addrKey(l.X) == "normalEnts" {
					return -1
				}
				return 0
			})
			okp, _ := mustPass(rd, st, newCuts().addEdges(absent))
			c.verdict(c.fnKey(rd)+":whiteout-if-no-real-entry", st.Pos(), okp && len(absent) > 0, "char-device entry only on the !normalEnts[name] edge", "a whiteout device is listed although a real entry of that name exists in the same directory")
		})
		if n == 0 {
			c.bad(c.fnKey(rd)+":whiteout-synthesis", rd.Pos(), "listing no longer synthesises whiteout devices")
		}
	}
	if lk != nil {
		gets := callsIn(lk, func(id string, ci ssa.CallInstruction) bool { return ci.Common().IsInvoke() && ci.Common().Method.Name() == "GetChild" })
		var plain, prefixed ssa.CallInstruction
		for _, g := range gets {
			if isParamish(g.Common().Args[1]) {
				plain = g
			} else {
				prefixed = g
			}
		}
		good := plain != nil && prefixed != nil
		var wpos token.Pos
		if good {
			fe := nonNilEdges(lk, errResults(plain)[0])
			se := successEdges(lk, prefixed)
			eachInstr(lk, func(i ssa.Instruction) {
				if al, ok := i.(*ssa.Alloc); ok && typeQName(al.Type()) == lp+".whiteout" {
					wpos = al.Pos()
					o1, _ := mustPass(lk, al, newCuts().addEdges(fe))
					o2, _ := mustPass(lk, al, newCuts().addEdges(se))
					if !o1 || !o2 || len(fe) == 0 || len(se) == 0 {
						good = false
					}
				}
			})
			// prefixed name = whiteoutPrefix + name
			pOK := false
			if sp, ok := stripConv(prefixed.Common().Args[1]).(*ssa.Call); ok && calleeID(sp) == "fmt.Sprintf" {
				va := varargs(sp.Call.Args[1])
				if len(va) == 2 {
					s0, ok0 := constString(va[0])
					pOK = ok0 && s0 == whp && isParamish(stripConv(va[1]))
				}
			}
			if bo, ok := stripConv(prefixed.Common().Args[1]).(*ssa.BinOp); ok && bo.Op == token.ADD {
				s0, ok0 := constString(bo.X)
				pOK = ok0 && s0 == whp && isParamish(bo.Y)
			}
			good = good && pOK && wpos.IsValid()
		}
		c.verdict(c.fnKey(lk)+":whiteout-inode", wpos, good, "whiteout inode only when GetChild(name) failed and GetChild(.wh.+name) succeeded", "lookup shows a whiteout although the plain entry exists, or for a name without whiteout marker")
	}

	// ---------- C07.c ----------
	c.clause("C07.c", "T5+T1", "opaqueXattrs has an entry for every OverlayOpaqueType; Getxattr/Listxattr answer the opaque xattr only for directories containing the opaque marker; the service picks user xattrs iff the kernel needs them", 5)
	{
		// constants of type OverlayOpaqueType
		var consts []string
		if p := c.Pkgs[lp]; p != nil {
			sc := p.Types.Scope()
			for _, nm := range sc.Names() {
				if k, ok := sc.Lookup(nm).(*types.Const); ok && typeQName(k.Type()) == lp+".OverlayOpaqueType" {
					consts = append(consts, k.Val().ExactString())
				}
			}
		}
		keys := map[string]int{}
		if ini := c.SSA[lp].Func("init"); ini != nil {
			eachInstr(ini, func(i ssa.Instruction) {
				if mu, ok := i.(*ssa.MapUpdate); ok {
					if mk, ok := mu.Map.(*ssa.MakeMap); ok && strings.Contains(mk.Type().String(), "OverlayOpaqueType") {
						if k, ok := mu.Key.(*ssa.Const); ok && k.Value != nil && k.Value.Kind() == constant.Int {
							// count the names listed
							n := 0
							if sl, ok := mu.Value.(*ssa.Slice); ok {
								if al, ok := sl.X.(*ssa.Alloc); ok {
									if arr, ok := deref(al.Type()).Underlying().(*types.Array); ok {
										n = int(arr.Len())
									}
								}
							}
							keys[k.Value.ExactString()] = n
						}
					}
				}
			})
		}
		sort.Strings(consts)
		good := len(consts) >= 3
		for _, k := range consts {
			if keys[k] == 0 {
				good = false
			}
		}
		c.verdict("opaqueXattrs-table", token.NoPos, good && len(keys) == len(consts), fmt.Sprintf("every one of the %d opaque modes has xattr names", len(consts)), fmt.Sprintf("opaque xattr table %v does not cover modes %v", keys, consts))
	}
	if f := c.mustFn(lp, "(*node).isOpaque"); f != nil {
		good := false
		for _, g := range callsIn(f, func(id string, ci ssa.CallInstruction) bool { return ci.Common().IsInvoke() && ci.Common().Method.Name() == "GetChild" }) {
			if s, ok := constString(g.Common().Args[1]); ok && s == opqDir {
				if _, ok := isFieldLoad(g.Common().Args[0], lp+".node", "id"); ok {
					// true only on success
					se := successEdges(f, g)
					all := len(se) > 0
					for _, r := range realReturns(f) {
						for _, v := range retVals(r, 0) {
							if isConstBool(v, true) {
								if okp, _ := mustPass(f, r, newCuts().addEdges(se)); !okp {
									all = false
								}
							}
						}
					}
					good = all
				}
			}
		}
		c.verdict(c.fnKey(f), f.Pos(), good, "opaque iff this directory has the opaque marker child", "isOpaque does not test this directory's opaque marker")
	}
	for _, nm := range []string{"(*node).Getxattr", "(*node).Listxattr"} {
		f := c.mustFn(lp, nm)
		if f == nil {
			continue
		}
		opqCalls := callsIn(f, idIs(lp+".(*node).isOpaque"))
		var te []edge
		for _, o := range opqCalls {
			te = append(te, boolEdges(f, o.Value(), true)...)
		}
		// uses of fs.opaqueXattrs: loop reads
		var uses []ssa.Instruction
		for _, a := range c.fieldAccesses(lp+".fs", "opaqueXattrs", []*ssa.Function{f}) {
			uses = append(uses, a.instr)
		}
		good := len(opqCalls) == 1 && len(uses) > 0 && len(te) > 0
		if good {
			if nm == "(*node).Listxattr" {
				for _, u := range uses {
					if okp, _ := mustPass(f, u, newCuts().addEdges(te)); !okp {
						good = false
					}
				}
			} else {
				// the opaque value is copied only on the opq-true edge
				for _, cp := range callsIn(f, idIs("builtin.copy")) {
					if s, ok := constString(cp.Common().Args[1]); ok && s == c.constVal(lp, "opaqueXattrValue") {
						if okp, _ := mustPass(f, cp, newCuts().addEdges(te)); !okp {
							good = false
						}
					}
				}
			}
		}
		c.verdict(c.fnKey(f)+":opaque-gated", f.Pos(), good, "opaque xattr answered only when isOpaque()", "opaque xattr is answered for non-opaque directories, or never")
	}
	if f := c.mustFn("service", "NewFileSystem"); f != nil {
		good := false
		eachInstr(f, func(i ssa.Instruction) {
			ph, ok := i.(*ssa.Phi)
			if !ok || typeQName(ph.Type()) != lp+".OverlayOpaqueType" {
				return
			}
			// phi [Trusted, User] where the User edge comes through the userxattr-true edge
			vals := map[string]bool{}
			for _, e := range ph.Edges {
				if k, ok := e.(*ssa.Const); ok && k.Value != nil {
					vals[k.Value.ExactString()] = true
				}
			}
			good = vals[fmt.Sprint(c.constInt(lp, "OverlayOpaqueTrusted"))] && vals[fmt.Sprint(c.constInt(lp, "OverlayOpaqueUser"))]
		})
		need := callsIn(f, func(id string, _ ssa.CallInstruction) bool { return strings.HasSuffix(id, "overlayutils.NeedsUserXAttr") })
		c.verdict(c.fnKey(f)+":opaque-mode", f.Pos(), good && len(need) == 1, "user xattr mode iff NeedsUserXAttr, trusted otherwise", "opaque xattr mode is not selected from the kernel capability")
	}

	// ---------- C07.d ----------
	c.clause("C07.d", "T5", "inodes 1 and 2 are reserved for the state directory and file; ids map to baseInode<<32 | 3+id with a wrap guard", 3)
	for nm, want := range map[string]int64{"(*fs).inodeOfState": 1, "(*fs).inodeOfStatFile": 2} {
		if f := c.mustFn(lp, nm); f != nil {
			good := false
			eachInstr(f, func(i ssa.Instruction) {
				if b, ok := i.(*ssa.BinOp); ok && b.Op == token.OR {
					if n, ok := constInt(b.Y); ok && n == want {
						good = true
					}
				}
			})
			c.verdict(c.fnKey(f), f.Pos(), good, fmt.Sprintf("reserved inode %d", want), "reserved inode number changed")
		}
	}
	if f := c.mustFn(lp, "(*fs).inodeOfID"); f != nil {
		off := int64(-1)
		guard := false
		eachInstr(f, func(i ssa.Instruction) {
			if b, ok := i.(*ssa.BinOp); ok {
				if b.Op == token.ADD {
					if n, ok := constInt(b.X); ok {
						off = n
					}
					if n, ok := constInt(b.Y); ok {
						off = n
					}
				}
				if b.Op == token.GTR && isParam(b.X) {
					if n, ok := constInt(b.Y); ok && n >= (1<<32)-1-3-1 {
						guard = true
					}
				}
			}
		})
		c.verdict(c.fnKey(f), f.Pos(), off >= 3 && guard, fmt.Sprintf("ids offset by %d past the reserved inodes, wrap rejected", off), "id→inode mapping can collide with the reserved inodes or wrap around")
	}

	// ---------- C07.e ----------
	c.clause("C07.e", "T5", "the state JSON carries digest, size and fetchedSize; fetchedSize is refreshed from the blob before marshalling", 2)
	if nt := c.namedType(lp + ".statJSON"); nt != nil {
		st := nt.Underlying().(*types.Struct)
		tags := map[string]bool{}
		for i := 0; i < st.NumFields(); i++ {
			t := st.Tag(i)
			if j := strings.Index(t, `json:"`); j >= 0 {
				name := t[j+6:]
				name = name[:strings.IndexAny(name, `",`)]
				tags[name] = true
			}
		}
		c.verdict("statJSON-fields", token.NoPos, tags["digest"] && tags["size"] && tags["fetchedSize"], "digest, size, fetchedSize present", fmt.Sprintf("state JSON lacks required fields: %v", sortedKeys(tags)))
	}
	if f := c.mustFn(lp, "(*statFile).updateStatUnlocked"); f != nil {
		var fetched ssa.Instruction
		for _, a := range c.fieldAccesses(lp+".statJSON", "FetchedSize", []*ssa.Function{f}) {
			if a.write {
				if call, ok := stripConv(a.instr.(*ssa.Store).Val).(*ssa.Call); ok && call.Call.IsInvoke() && call.Call.Method.Name() == "FetchedSize" {
					fetched = a.instr
				}
			}
		}
		ms := callsIn(f, idIs("encoding/json.Marshal"))
		good := fetched != nil && len(ms) == 1
		if good {
			good, _ = mustPass(f, ms[0], newCuts().addInstr(fetched))
		}
		c.verdict(c.fnKey(f), f.Pos(), good, "FetchedSize re-read from the blob before every marshal", "state file reports a stale fetched size")
	}
	runC07extra(c, rd, whp, opqDir)
	clauseExistingDirReused(c, "C07.j")
	clauseWhiteoutInodeFromMarker(c, "C07.k")
	clauseLookupMemoryNodeAttrs(c, "C07.l")
	clauseLayerRootIsMetadataRoot(c, "C07.m")
	c.assume("overlayfs interprets a 0/0 character device as a whiteout and the configured xattr as opaque marker")
}

func runC02(c *Ctx) {
	const rp = "fs/reader"
	const lp = "fs/layer"

	// ---------- C02.b ----------
	c.clause("C02.b", "T5", "entry types emitted by the writer ⊆ types the reader maps; FUSE mode conversion covers every os.ModeType combination the reader produces", 2)
	emitted := map[string]bool{}
	if f := c.mustFn("estargz", "(*Writer).appendTar"); f != nil {
		eachInstr(f, func(i ssa.Instruction) {
			st, ok := i.(*ssa.Store)
			if !ok {
				return
			}
			if fa, ok := st.Addr.(*ssa.FieldAddr); ok && typeQName(fa.X.Type()) == "estargz.TOCEntry" && fieldName(fa) == "Type" {
				if s, ok := constString(st.Val); ok {
					emitted[s] = true
				}
			}
		})
		// also chunk entries
		eachInstr(f, func(i ssa.Instruction) {
			if st, ok := i.(*ssa.Store); ok {
				if fa, ok := st.Addr.(*ssa.FieldAddr); ok && fieldName(fa) == "Type" {
					if s, ok := constString(st.Val); ok {
						emitted[s] = true
					}
				}
			}
		})
	}
	mapped := map[string]bool{"reg": true, "hardlink": true, "chunk": true, "toc": true} // types without a mode bit
	modeBits := map[string]bool{}
	if f := c.mustFn("estargz", "(fileInfo).Mode"); f != nil {
		// Mode itself and the same-package helpers it computes the type bits with
		fset := []*ssa.Function{f}
		for _, ci := range callsIn(f, func(string, ssa.CallInstruction) bool { return true }) {
			if t := staticFn(ci); t != nil && t.Pkg == f.Pkg && len(t.Blocks) > 0 && t != f {
				fset = append(fset, t)
			}
		}
		for _, g := range fset {
			eachInstr(g, func(i ssa.Instruction) {
				if b, ok := i.(*ssa.BinOp); ok && b.Op == token.EQL {
					if s, ok := constString(b.Y); ok {
						mapped[s] = true
					}
				}
				if b, ok := i.(*ssa.BinOp); ok && b.Op == token.OR {
					if n, ok := constInt(b.Y); ok {
						modeBits[fmt.Sprintf("%#x", uint32(n))] = true
					}
				}
				if r, ok := i.(*ssa.Return); ok && g != f && len(r.Results) == 1 && strings.HasSuffix(r.Results[0].Type().String(), "FileMode") {
					if n, ok := constInt(r.Results[0]); ok && n != 0 {
						modeBits[fmt.Sprintf("%#x", uint32(n))] = true
					}
				}
			})
		}
	}
	var missing []string
	for t := range emitted {
		if !mapped[t] {
			missing = append(missing, t)
		}
	}
	sort.Strings(missing)
	c.verdict("entry-types", token.NoPos, len(missing) == 0 && len(emitted) >= 7, fmt.Sprintf("writer emits %v, all understood by the reader", sortedKeys(emitted)), "the writer emits entry types the reader does not map to a file mode: "+strings.Join(missing, ","))
	if f := c.mustFn(lp, "fileModeToSystemMode"); f != nil {
		cases := map[string]bool{}
		eachInstr(f, func(i ssa.Instruction) {
			if b, ok := i.(*ssa.BinOp); ok && b.Op == token.EQL {
				if n, ok := constInt(b.Y); ok {
					cases[fmt.Sprintf("%#x", uint32(n))] = true
				}
			}
		})
		var miss []string
		for mb := range modeBits {
			if !cases[mb] {
				miss = append(miss, mb)
			}
		}
		sort.Strings(miss)
		c.verdict(c.fnKey(f)+":mode-cases", f.Pos(), len(miss) == 0 && len(modeBits) >= 5, fmt.Sprintf("all %d reader mode-type combinations have a FUSE case", len(modeBits)), "a file type produced by the reader falls into the regular-file default of the FUSE conversion: "+strings.Join(miss, ","))
	}
	// device numbers: char/block types set DevMajor/DevMinor in the writer and entryToAttr consumes them
	// ---------- C02.c ----------
	c.clause("C02.c", "T5", "every field of metadata.Attr is consumed by the FUSE conversion (entryToAttr, Getxattr/Listxattr, Readlink)", 10)
	used := map[string]bool{}
	for _, nm := range []string{"entryToAttr", "(*node).Getxattr", "(*node).Listxattr", "(*node).Readlink"} {
		if f := c.mustFn(lp, nm); f != nil {
			eachInstr(f, func(i ssa.Instruction) {
				switch x := i.(type) {
				case *ssa.Field:
					if typeQName(x.X.Type()) == "metadata.Attr" {
						used[x.X.Type().Underlying().(*types.Struct).Field(x.Field).Name()] = true
					}
				case *ssa.FieldAddr:
					if typeQName(x.X.Type()) == "metadata.Attr" {
						used[fieldName(x)] = true
					}
				}
			})
		}
	}
	for _, fld := range structFields(c, "metadata.Attr") {
		c.verdict("Attr."+fld+"→FUSE", token.NoPos, used[fld], "served to the kernel", "Attr."+fld+" is never served (the lazily mounted view drops this attribute)")
	}

	clauseLRUPin(c, "C02.d")
	clauseCacheReleaseDiscipline(c, "C02.l")
	clauseCloneNotClosed(c, "C02.m")
	clauseStreamPosition(c, "C02.e")
	clausePrivateCaches(c, "C02.f")
	clauseSortedChunks(c, "C02.g")
	clausePreReadAccounting(c, "C02.i")
	clauseLookupMemoryNodeAttrs(c, "C02.j")
	clauseResetCoversDecodedFields(c, "C02.k")
	clauseKeyInjective(c, "C02.h", [][2]string{{"fs/reader", "genID"}, {"fs/remote", "(*httpFetcher).genID"}})

	// ---------- C02.a ----------
	c.clause("C02.a", "T9", "every chunk-cache key in fs/reader is genID(id, offset, size) of one chunk: one ChunkEntryForOffset result, one chunkData, or the pre-reader callback's own parameters; the whole-file key is genID(id, 0, Σ sizes)", 7)
	for _, f := range c.pkgFuncs(rp) {
		for _, g := range callsIn(f, idIs(rp+".genID")) {
			key := c.fnKey(f) + ":genID"
			a := g.Common().Args
			id, off, size := stripConv(a[0]), stripConv(a[1]), stripConv(a[2])
			why := ""
			// id: the callback's nid parameter inside a literal, else the file's id field
			idOK := false
			if f.Parent() != nil {
				if p, ok := id.(*ssa.Parameter); ok && p == f.Params[0] {
					idOK = true
				}
				if _, ok := isFieldLoad(id, rp+".file", "id"); ok { // eg.Go literals in prefetch use sf.id
					idOK = true
				}
				if isParamish(id) {
					idOK = true
				}
			} else {
				_, isF := isFieldLoad(id, rp+".file", "id")
				idOK = isF || isParamish(id)
			}
			pairOK := false
			oe, ok1 := off.(*ssa.Extract)
			se, ok2 := size.(*ssa.Extract)
			switch {
			case ok1 && ok2 && oe.Tuple == se.Tuple && oe.Index == 0 && se.Index == 1:
				if call, ok := oe.Tuple.(*ssa.Call); ok && call.Call.IsInvoke() && call.Call.Method.Name() == "ChunkEntryForOffset" {
					pairOK = true
				}
			case isParamish(off) && isParamish(size):
				pairOK = true // callback parameters / function parameters of one chunk
			default:
				fo, okA := fieldOfValue(off)
				fs, okB := fieldOfValue(size)
				if okA && okB && fo.base == fs.base && fo.name == "offset" && fs.name == "size" {
					pairOK = true
				}
				if n, ok := constInt(off); ok && n == 0 {
					// whole-file key: size is the accumulated total of the enumeration
					if ph, ok := size.(*ssa.Phi); ok {
						for _, e := range ph.Edges {
							if b, ok := stripConv(e).(*ssa.BinOp); ok && b.Op == token.ADD {
								pairOK = true
							}
						}
					}
					if isParamish(size) {
						pairOK = true
					}
				}
			}
			if !idOK {
				why = "the id is not the id that belongs to this chunk"
			}
			if !pairOK {
				why = "offset and size do not come from one chunk description"
			}
			c.verdict(key, g.Pos(), idOK && pairOK, "key built from one chunk's (id, offset, size)", "chunk-cache key mixes values of different chunks ("+why+"): a later hit serves another chunk's bytes")
		}
	}
	// the pre-reader callback caches under nid (the neighbour file's id), not the opened file's id
	if f := c.mustFn(rp, "(*reader).OpenFile"); f != nil && len(f.AnonFuncs) >= 1 {
		lit := f.AnonFuncs[0]
		good := false
		for _, g := range callsIn(lit, idIs(rp+".genID")) {
			if p, ok := stripConv(g.Common().Args[0]).(*ssa.Parameter); ok && p == lit.Params[0] {
				good = true
			}
		}
		c.verdict(c.fnKey(lit)+":neighbour-id", lit.Pos(), good, "pre-read chunks are cached under their own file's id", "pre-read chunks of neighbouring files are cached under the opened file's id")
	}
	c.assume("metadata.File.ChunkEntryForOffset describes the chunk containing the offset (both stores; see C05)")
}

func runC07extra(c *Ctx, rd *ssa.Function, whp, opqDir string) {
	const lp = "fs/layer"

	// ---------- C07.f ----------
	c.clause("C07.f", "T9", "the name of a synthesised whiteout device, and the name tested against the real entries, is the marker's name with exactly the whiteout prefix removed", 2)
	if rd != nil {
		// range key of the whiteouts map
		isKey := func(v ssa.Value) bool {
			ex, ok := stripConv(v).(*ssa.Extract)
			if !ok || ex.Index != 1 {
				return false
			}
			nx, ok := ex.Tuple.(*ssa.Next)
			if !ok {
				return false
			}
			rg, ok := nx.Iter.(*ssa.Range)
			return ok && addrKey(rg.X) == "whiteouts"
		}
		isStrip := func(v ssa.Value) bool {
			v = stripConv(v)
			switch x := v.(type) {
			case *ssa.Slice:
				if !isKey(x.X) || x.High != nil || x.Low == nil {
					return false
				}
				k, ok := constInt(x.Low)
				return ok && int(k) == len(whp)
			case *ssa.Call:
				id := calleeID(x)
				if id == "strings.TrimPrefix" && isKey(x.Call.Args[0]) {
					s, ok := constString(x.Call.Args[1])
					return ok && s == whp
				}
			case *ssa.Extract:
				if call, ok := x.Tuple.(*ssa.Call); ok && calleeID(call) == "strings.CutPrefix" && x.Index == 0 && isKey(call.Call.Args[0]) {
					s, ok := constString(call.Call.Args[1])
					return ok && s == whp
				}
			}
			return false
		}
		eachInstr(rd, func(i ssa.Instruction) {
			switch x := i.(type) {
			case *ssa.Lookup:
				if addrKey(x.X) == "normalEnts" {
					c.verdict(c.fnKey(rd)+":replaced-test-name", x.Pos(), isStrip(x.Index), "tested name = marker name minus the prefix", "the name tested against the real entries is not the whiteout marker's name with exactly the prefix "+whp+" removed")
				}
			case *ssa.Store:
				fa, ok := x.Addr.(*ssa.FieldAddr)
				if !ok || fieldName(fa) != "Mode" || typeQName(fa.X.Type()) != "github.com/hanwen/go-fuse/v2/fuse.DirEntry" {
					return
				}
				if k, ok := constInt(x.Val); !ok || k != 0x2000 {
					return
				}
				found := false
				for _, r := range *fa.X.Referrers() {
					nfa, ok := r.(*ssa.FieldAddr)
					if !ok || fieldName(nfa) != "Name" {
						continue
					}
					for _, rr := range *nfa.Referrers() {
						if st, ok := rr.(*ssa.Store); ok && st.Addr == ssa.Value(nfa) {
							found = true
							c.verdict(c.fnKey(rd)+":whiteout-device-name", st.Pos(), isStrip(st.Val), "device name = marker name minus the prefix", "the whiteout device is not named after the marker with exactly the prefix "+whp+" removed (e.g. a character-set trim mangles names starting with '.', 'w' or 'h')")
						}
					}
				}
				if !found {
					c.unk(c.fnKey(rd)+":whiteout-device-name", x.Pos(), "name of the synthesised whiteout device not found")
				}
			}
		})
	}

	// ---------- C07.g ----------
	c.clause("C07.g", "T1", "isOpaque answers from the metadata store: true only on the success edge of GetChild(id, opaque marker), false only on its failure edge", 2)
	if f := c.mustFn(lp, "(*node).isOpaque"); f != nil {
		gets := callsIn(f, func(id string, ci ssa.CallInstruction) bool {
			if !ci.Common().IsInvoke() || ci.Common().Method.Name() != "GetChild" {
				return false
			}
			s, ok := constString(ci.Common().Args[1])
			return ok && s == opqDir
		})
		var se, fe []edge
		for _, g := range gets {
			se = append(se, successEdges(f, g)...)
			for _, e := range errResults(g) {
				fe = append(fe, nonNilEdges(f, e)...)
			}
		}
		for _, r := range realReturns(f) {
			for _, v := range retVals(r, 0) {
				switch {
				case isConstBool(v, true):
					okp, path := mustPass(f, r, newCuts().addEdges(se))
					c.verdict(c.fnKey(f)+":true", r.Pos(), okp && len(se) > 0, "true only after the marker was found", "isOpaque can answer true without having found the opaque marker: "+c.pathStr(f, path))
				case isConstBool(v, false):
					okp, path := mustPass(f, r, newCuts().addEdges(fe))
					c.verdict(c.fnKey(f)+":false", r.Pos(), okp && len(fe) > 0, "false only after the lookup of the marker failed", "isOpaque can answer false without having looked the marker up: "+c.pathStr(f, path))
				default:
					// a memoised answer: every writer of the field stores the result of the marker lookup
					good := false
					if fa, ok := loadOfField(v); ok {
						good = true
						n := 0
						for _, a := range c.fieldAccesses(typeQName(deref(fa.X.Type())), fieldName(fa), c.pkgFuncs(lp)) {
							if !a.write {
								continue
							}
							n++
							st, ok := a.instr.(*ssa.Store)
							if !ok || !opaqueLookupResult(st.Val, opqDir) {
								good = false
							}
						}
						good = good && n > 0
					}
					c.verdict(c.fnKey(f)+":memoised", r.Pos(), good, "memoised answer written only from the marker lookup", "isOpaque returns a remembered value that is not the result of looking up the opaque marker (e.g. derived from the listing, which never contains the marker)")
				}
			}
		}
	}

	// ---------- C07.h ----------
	c.clause("C07.h", "T9", "the state file's bytes and size are those of a state regenerated in the same call (fetched size and error are current)", 2)
	for _, fn := range []string{"(*statFile).Read", "(*statFile).attr"} {
		f := c.mustFn(lp, fn)
		if f == nil {
			continue
		}
		fresh := func(v ssa.Value) bool {
			vals := append([]ssa.Value{v}, reachingVals(v)...)
			vals = append(vals, phiLeaves(v)...)
			okAll := false
			for _, x := range vals {
				x = stripConv(x)
				if _, isPhi := x.(*ssa.Phi); isPhi {
					continue
				}
				if p, isLoad := loadOf(x); isLoad {
					if al, ok := p.(*ssa.Alloc); ok && !al.Heap && len(reachingVals(x)) > 0 {
						continue // a local spilled to the stack: its reaching values are examined
					}
					return false
				}
				ex, ok := x.(*ssa.Extract)
				if !ok {
					return false
				}
				call, ok := ex.Tuple.(*ssa.Call)
				if !ok || calleeID(call) != lp+".(*statFile).updateStatUnlocked" || call.Parent() != f {
					return false
				}
				okAll = true
			}
			return okAll
		}
		n := 0
		eachInstr(f, func(i ssa.Instruction) {
			call, ok := i.(*ssa.Call)
			if !ok {
				return
			}
			if calleeID(call) == "bytes.NewReader" {
				n++
				c.verdict(c.fnKey(f)+":served-bytes", call.Pos(), fresh(call.Call.Args[0]), "bytes come from updateStatUnlocked of this call", "the state file serves bytes that were not regenerated in this call: fetched size and error can be stale")
			}
			if b, ok := call.Call.Value.(*ssa.Builtin); ok && b.Name() == "len" && strings.HasSuffix(call.Call.Args[0].Type().String(), "[]byte") {
				n++
				c.verdict(c.fnKey(f)+":reported-size", call.Pos(), fresh(call.Call.Args[0]), "size is the length of the state regenerated in this call", "the state file's size is not that of a state regenerated in this call")
			}
		})
		if n == 0 {
			c.unk(c.fnKey(f)+":state-bytes", f.Pos(), "no use of the regenerated state found")
		}
	}

	// ---------- C07.i ----------
	c.clause("C07.i", "T4", "the listing memo is published atomically: entsCached becomes true only in the critical section of entsMu that also stores the complete listing", 1)
	for _, a := range c.fieldAccesses(lp+".node", "entsCached", c.pkgFuncs(lp)) {
		if !a.write {
			continue
		}
		st, ok := a.instr.(*ssa.Store)
		if !ok {
			c.unk(c.fnKey(a.fn)+":entsCached-write", a.instr.Pos(), "unrecognised write")
			continue
		}
		if isConstBool(st.Val, false) {
			c.okTrivial(c.fnKey(a.fn)+":entsCached=false", st.Pos(), "invalidating the memo is always safe")
			continue
		}
		good := false
		lk := addrKey(a.base) + ".entsMu"
		held := c.locksAt(st)[lk] == lockW
		for _, e := range c.fieldAccesses(lp+".node", "ents", []*ssa.Function{a.fn}) {
			if e.write && addrKey(e.base) == addrKey(a.base) && sameRegion(c, a.fn, e.instr, st, lk) {
				good = true
			}
		}
		c.verdict(c.fnKey(a.fn)+":entsCached=true", st.Pos(), good && held, "flag and listing stored in one critical section", "entsCached is set in a critical section that does not store the listing: a concurrent Readdir/Lookup sees the memo as valid while it is still empty and answers ENOENT for existing names")
	}
}

func loadOfField(v ssa.Value) (*ssa.FieldAddr, bool) {
	p, ok := loadOf(stripConv(v))
	if !ok {
		return nil, false
	}
	fa, ok := p.(*ssa.FieldAddr)
	return fa, ok
}

// opaqueLookupResult: v is `err == nil` of a GetChild(…, opaque marker) call, or the result of (*node).isOpaque.
func opaqueLookupResult(v ssa.Value, opqDir string) bool {
	v = stripConv(v)
	if call, ok := v.(*ssa.Call); ok {
		return strings.HasSuffix(calleeID(call), ".(*node).isOpaque")
	}
	b, ok := v.(*ssa.BinOp)
	if !ok || b.Op != token.EQL || !isNilConst(b.Y) {
		return false
	}
	ex, ok := stripConv(b.X).(*ssa.Extract)
	if !ok {
		return false
	}
	call, ok := ex.Tuple.(*ssa.Call)
	if !ok || !call.Call.IsInvoke() || call.Call.Method.Name() != "GetChild" {
		return false
	}
	s, ok := constString(call.Call.Args[1])
	return ok && s == opqDir
}
