package main

import (
	"go/token"
	"strings"

	"golang.org/x/tools/go/ssa"
)

// Clauses that are structural premises of more than one property. Each is emitted under the clause id of the
// property being decided, so that every property's check stands on its own.

// paramCell: v is a parameter of some enclosing function, directly or through the captured cell that holds it.
func paramCell(v ssa.Value) bool {
	v = stripConv(v)
	if isParamish(v) {
		return true
	}
	if p, ok := loadOf(v); ok {
		if a, ok := cellRoot(p).(*ssa.Alloc); ok && a != nil {
			n, par := 0, 0
			for _, st := range storesToCell(enclosingRoot(a.Parent()), a) {
				n++
				if _, ok := st.Val.(*ssa.Parameter); ok {
					par++
				}
			}
			return n == 1 && par == 1
		}
	}
	return false
}

// clauseStreamPosition: fs/remote.(*bytesWriter).Write keeps the stream position: whatever part of p lands in the
// destination window, the position advances by len(p) on every return.
func clauseStreamPosition(c *Ctx, id string) {
	c.clause(id, "T2", "bytesWriter.Write advances its stream position by len(p) on every return, also when p lies outside the destination window", 1)
	f := c.mustFn("fs/remote", "(*bytesWriter).Write")
	if f == nil {
		return
	}
	isAdvance := func(st *ssa.Store) bool {
		fa, ok := st.Addr.(*ssa.FieldAddr)
		if !ok || fieldName(fa) != "current" {
			return false
		}
		b, ok := stripConv(st.Val).(*ssa.BinOp)
		if !ok || b.Op != token.ADD {
			return false
		}
		cur, ln := false, false
		for _, op := range []ssa.Value{b.X, b.Y} {
			op = stripConv(op)
			if _, ok := isFieldLoadAny(op, "current"); ok {
				cur = true
				continue
			}
			vals := append([]ssa.Value{op}, reachingVals(op)...)
			for _, v := range vals {
				if call, ok := stripConv(v).(*ssa.Call); ok {
					if bi, ok := call.Call.Value.(*ssa.Builtin); ok && bi.Name() == "len" && paramCell(call.Call.Args[0]) {
						ln = true
					}
				}
			}
		}
		return cur && ln
	}
	good, n := false, 0
	for _, g := range withAnon(f) {
		eachInstr(g, func(i ssa.Instruction) {
			st, ok := i.(*ssa.Store)
			if !ok || !isAdvance(st) {
				return
			}
			n++
			if g == f {
				// every return passes the store
				all := true
				for _, r := range realReturns(f) {
					if okp, _ := mustPass(f, r, newCuts().addInstr(st)); !okp {
						all = false
					}
				}
				if all {
					good = true
				}
				return
			}
			// in a literal: it must be deferred before any return of Write, and advance on all its own paths
			eachInstr(f, func(j ssa.Instruction) {
				d, ok := j.(*ssa.Defer)
				if !ok {
					return
				}
				mc, ok := d.Call.Value.(*ssa.MakeClosure)
				if !ok || mc.Fn != ssa.Value(g) {
					return
				}
				all := true
				for _, r := range realReturns(f) {
					if okp, _ := mustPass(f, r, newCuts().addInstr(d)); !okp {
						all = false
					}
				}
				for _, r := range realReturns(g) {
					if okp, _ := mustPass(g, r, newCuts().addInstr(st)); !okp {
						all = false
					}
				}
				if all {
					good = true
				}
			})
		})
	}
	if n == 0 {
		c.bad(c.fnKey(f)+":position", f.Pos(), "no statement advances bytesWriter.current by len(p)")
		return
	}
	c.verdict(c.fnKey(f)+":position", f.Pos(), good, "current += len(p) happens on every return path", "a return path of Write leaves the stream position unchanged: the following part of the response is copied to the wrong offset of the caller's buffer")
}

// clauseLRUPin: a buffer or file obtained from the LRU and handed to the caller inside a reader stays pinned until that
// reader is closed.
func clauseLRUPin(c *Ctx, id string) {
	c.clause(id, "T2", "a buffer or file pinned in the LRU stays pinned while a reader handed to the caller still reads it: done() is released by the returned reader's close function, not by the function that hands the reader out", 2)
	for _, f := range c.pkgFuncs("cache") {
		for _, g := range callsIn(f, idIs("util/cacheutil.(*LRUCache).Get", "util/cacheutil.(*LRUCache).Add")) {
			gc, ok := g.(*ssa.Call)
			if !ok {
				continue
			}
			var val, done ssa.Value
			for _, r := range *gc.Referrers() {
				if ex, ok := r.(*ssa.Extract); ok {
					switch ex.Index {
					case 0:
						val = ex
					case 1:
						done = ex
					}
				}
			}
			if val == nil || !pinnedValueEscapes(val, f) {
				continue // value not handed out of this function
			}
			key := c.fnKey(f) + ":pin:" + typeQNameOfRecvField(gc)
			if done == nil {
				c.bad(key, gc.Pos(), "the release function of a handed-out LRU entry is discarded")
				continue
			}
			good, captured := true, false
			for _, r := range *done.Referrers() {
				switch x := r.(type) {
				case *ssa.DebugRef:
				case *ssa.MakeClosure:
					captured = true
				case *ssa.Store:
					// spilled into a cell captured by a closure; the handing-out function itself must not call it
					captured = true
					if cell, ok := x.Addr.(*ssa.Alloc); ok {
						for _, cr := range *cell.Referrers() {
							ld, ok := cr.(*ssa.UnOp)
							if !ok {
								continue
							}
							for _, lr := range *ld.Referrers() {
								if ci, ok := lr.(ssa.CallInstruction); ok && ci.Common().Value == ssa.Value(ld) {
									good = false
								}
							}
						}
					}
				case *ssa.Call, *ssa.Defer, *ssa.Go:
					if x.(ssa.CallInstruction).Common().Value == done {
						good = false
					}
				}
			}
			c.verdict(key, gc.Pos(), good && captured, "done() is only captured by the reader's close function", "the LRU reference is released when the reader is handed out: the buffer can be evicted, returned to the pool and overwritten while the reader still reads it")
		}
	}
}

// clausePrivateCaches: every directory cache gets its own memory LRU, fd LRU, buffer pool and directory. Chunk-cache keys
// (fs/reader.genID: node id, offset, size) carry no layer identity, so two layers sharing any of these would alias.
func clausePrivateCaches(c *Ctx, id string) {
	c.clause(id, "T9", "each directory cache is built from LRUs, a buffer pool and a directory created by the same invocation (never package-level or shared objects): chunk keys carry no layer identity", 4)
	sites := c.callSitesOf(idIs("cache.NewDirectoryCache"), c.liveFuncs())
	for _, s := range sites {
		call := s.instr.(ssa.CallInstruction)
		f := s.caller
		// directory
		dirOK := false
		for _, v := range append([]ssa.Value{call.Common().Args[0]}, reachingVals(call.Common().Args[0])...) {
			if ex, ok := stripConv(v).(*ssa.Extract); ok {
				if cc, ok := ex.Tuple.(*ssa.Call); ok && calleeID(cc) == "os.MkdirTemp" {
					dirOK = true
				}
			}
		}
		c.verdict(c.fnKey(f)+":private-dir", call.Pos(), dirOK, "directory comes from os.MkdirTemp in this invocation", "the cache directory is not a fresh temporary directory of this invocation: two layers' chunk files (same node id/offset/size keys) can collide")
		// config fields
		cfg := stripConv(call.Common().Args[1])
		p, ok := loadOf(cfg)
		al, isAlloc := p.(*ssa.Alloc)
		if !ok || !isAlloc {
			c.unk(c.fnKey(f)+":private-config", call.Pos(), "DirectoryCacheConfig is not a composite literal of this function")
			continue
		}
		for _, r := range *al.Referrers() {
			fa, ok := r.(*ssa.FieldAddr)
			if !ok {
				continue
			}
			name := fieldName(fa)
			if name != "DataCache" && name != "FdCache" && name != "BufPool" {
				continue
			}
			for _, rr := range *fa.Referrers() {
				st, ok := rr.(*ssa.Store)
				if !ok || st.Addr != ssa.Value(fa) {
					continue
				}
				fresh := true
				var vals []ssa.Value
				for _, v := range append([]ssa.Value{st.Val}, reachingVals(st.Val)...) {
					vals = append(vals, reachingCellVals(v)...)
				}
				for _, v := range vals {
					v = stripConv(v)
					switch x := v.(type) {
					case *ssa.Call:
						if calleeID(x) != "util/cacheutil.NewLRUCache" {
							fresh = false
						}
					case *ssa.Alloc:
						// &sync.Pool{...} of this invocation
					case *ssa.Const:
						// nil: NewDirectoryCache creates its own
					default:
						fresh = false
					}
				}
				c.verdict(c.fnKey(f)+":private-"+name, st.Pos(), fresh, name+" is created by this invocation", name+" is not created by this invocation (package-level or shared object): directory caches of different layers share entries although their keys carry no layer identity")
			}
		}
	}
}

// clauseSortedChunks: the bolt store sorts chunks by offset before deriving sizes from neighbours.
func clauseSortedChunks(c *Ctx, id string) {
	const dbp = "cmd/containerd-stargz-grpc/db"
	c.clause(id, "T1", "chunks read back from the (varint-keyed, not order-preserving) extra bucket are sorted by chunk offset before sizes are derived from neighbours", 1)
	if f := c.mustFn(dbp, "readChunks"); f != nil {
		fe := callsIn(f, func(id string, _ ssa.CallInstruction) bool { return strings.HasSuffix(id, "bbolt.(*Bucket).ForEach") })
		sorts := callsIn(f, idIs("sort.Slice", "sort.SliceStable", "slices.SortFunc"))
		var sizeStores []ssa.Instruction
		eachInstr(f, func(i ssa.Instruction) {
			if st, ok := i.(*ssa.Store); ok {
				if fa, ok := st.Addr.(*ssa.FieldAddr); ok && typeQName(fa.X.Type()) == dbp+".chunkEntry" && fieldName(fa) == "chunkSize" {
					sizeStores = append(sizeStores, i)
				}
			}
		})
		good := len(fe) > 0 && len(sizeStores) > 0
		for _, x := range fe {
			for _, st := range sizeStores {
				if got, _ := reach(f, x, isInstr(st), newCuts().addCalls(sorts)); got != nil {
					good = false
				}
			}
		}
		c.verdict(c.fnKey(f)+":sorted-before-sizes", f.Pos(), good, "sort by chunk offset between the bucket scan and the size derivation", "chunk sizes are derived from neighbours in bucket-iteration order, which is not chunk-offset order for varint keys: chunk boundaries differ from the memory store")
	}
}

// clauseMarkImpliesAdd: tarFile.dump(picked) skips every name in the picked set, so an entry marked picked that does not
// reach the prioritized area is lost from the output.
func clauseMarkImpliesAdd(c *Ctx, id string) {
	const esp = "estargz"
	c.clause(id, "T2", "moveRec: every path that marks a name picked also adds that entry to the prioritized area (or unmarks it) before returning, error returns included: the remaining-entries dump skips picked names", 2)
	f := c.mustFn(esp, "moveRec")
	if f == nil {
		return
	}
	adds := callsIn(f, idIs(esp+".(*tarFile).add"))
	cut := newCuts().addCalls(adds)
	eachInstr(f, func(i ssa.Instruction) {
		// delete(picked, name)
		if call, ok := i.(*ssa.Call); ok {
			if b, ok := call.Call.Value.(*ssa.Builtin); ok && b.Name() == "delete" && isParamish(call.Call.Args[0]) {
				cut.instrs[call] = true
			}
		}
	})
	n := 0
	eachInstr(f, func(i ssa.Instruction) {
		mu, ok := i.(*ssa.MapUpdate)
		if !ok || !isParamish(mu.Map) || !strings.Contains(mu.Map.Type().String(), "struct{}") {
			return
		}
		n++
		before := false
		for _, a := range adds {
			if dominatesInstr(a, mu) {
				before = true
			}
		}
		if before {
			c.ok(c.fnKey(f)+":mark-implies-add", mu.Pos(), "the entry was added before it is marked")
			return
		}
		hit, path := reach(f, mu, isReturn, cut)
		c.verdict(c.fnKey(f)+":mark-implies-add", mu.Pos(), hit == nil, "every return after the mark passes out.add or delete(picked, name)", "an entry is marked picked but a return is reachable without adding it: it is skipped by the remaining-entries dump and vanishes from the blob: "+c.pathStr(f, path))
	})
	if n == 0 {
		c.bad(c.fnKey(f)+":marks", f.Pos(), "moveRec marks nothing as picked")
	}
}

// phiLeaves: the non-phi values that can flow into v through phis (loop-carried variables).
func phiLeaves(v ssa.Value) []ssa.Value {
	seen := map[ssa.Value]bool{}
	var out []ssa.Value
	var walk func(ssa.Value)
	walk = func(x ssa.Value) {
		x = stripConv(x)
		if seen[x] {
			return
		}
		seen[x] = true
		if ph, ok := x.(*ssa.Phi); ok {
			for _, e := range ph.Edges {
				walk(e)
			}
			return
		}
		out = append(out, x)
	}
	walk(v)
	return out
}

// strictSame: a and b denote the same run-time value: the same SSA value, or two loads of one variable with no store to
// it executable between them (in either order).
func strictSame(a, b ssa.Value) bool {
	a, b = stripConv(a), stripConv(b)
	if a == b {
		return true
	}
	la, ok1 := a.(*ssa.UnOp)
	lb, ok2 := b.(*ssa.UnOp)
	if !ok1 || !ok2 || la.Op != token.MUL || lb.Op != token.MUL || la.Parent() != lb.Parent() {
		return false
	}
	ra, rb := cellRoot(la.X), cellRoot(lb.X)
	if ra == nil || ra != rb {
		return false
	}
	for _, st := range storesToCell(enclosingRoot(la.Parent()), ra) {
		if st.Parent() != la.Parent() {
			continue
		}
		if instrBetween(la, lb, st) || instrBetween(lb, la, st) {
			return false
		}
	}
	return true
}
