package main

import (
	"go/token"
	"go/types"
	"strings"

	"golang.org/x/tools/go/ssa"
)

// Clauses that are structural premises of more than one property. Each is emitted under the clause id of the
// property being decided, so that every property's check stands on its own.

// paramCell: v is a parameter of some enclosing function, directly or through the captured cell that holds it.
func paramCell(v ssa.Value) bool {
	v = stripConv(v)
	if isParamish(v) {
		return true
	}
	if p, ok := loadOf(v); ok {
		if a, ok := cellRoot(p).(*ssa.Alloc); ok && a != nil {
			n, par := 0, 0
			for _, st := range storesToCell(enclosingRoot(a.Parent()), a) {
				n++
				if _, ok := st.Val.(*ssa.Parameter); ok {
					par++
				}
			}
			return n == 1 && par == 1
		}
	}
	return false
}

// clauseStreamPosition: fs/remote.(*bytesWriter).Write keeps the stream position: whatever part of p lands in the
// destination window, the position advances by len(p) on every return.
func clauseStreamPosition(c *Ctx, id string) {
	c.clause(id, "T2", "bytesWriter.Write advances its stream position by len(p) on every return, also when p lies outside the destination window", 1)
	f := c.mustFn("fs/remote", "(*bytesWriter).Write")
	if f == nil {
		return
	}
	isAdvance := func(st *ssa.Store) bool {
		fa, ok := st.Addr.(*ssa.FieldAddr)
		if !ok || fieldName(fa) != "current" {
			return false
		}
		b, ok := stripConv(st.Val).(*ssa.BinOp)
		if !ok || b.Op != token.ADD {
			return false
		}
		cur, ln := false, false
		for _, op := range []ssa.Value{b.X, b.Y} {
			op = stripConv(op)
			if _, ok := isFieldLoadAny(op, "current"); ok {
				cur = true
				continue
			}
			vals := append([]ssa.Value{op}, reachingVals(op)...)
			for _, v := range vals {
				if call, ok := stripConv(v).(*ssa.Call); ok {
					if bi, ok := call.Call.Value.(*ssa.Builtin); ok && bi.Name() == "len" && paramCell(call.Call.Args[0]) {
						ln = true
					}
				}
			}
		}
		return cur && ln
	}
	good, n := false, 0
	for _, g := range withAnon(f) {
		eachInstr(g, func(i ssa.Instruction) {
			st, ok := i.(*ssa.Store)
			if !ok || !isAdvance(st) {
				return
			}
			n++
			if g == f {
				// every return passes the store
				all := true
				for _, r := range realReturns(f) {
					if okp, _ := mustPass(f, r, newCuts().addInstr(st)); !okp {
						all = false
					}
				}
				if all {
					good = true
				}
				return
			}
			// in a literal: it must be deferred before any return of Write, and advance on all its own paths
			eachInstr(f, func(j ssa.Instruction) {
				d, ok := j.(*ssa.Defer)
				if !ok {
					return
				}
				mc, ok := d.Call.Value.(*ssa.MakeClosure)
				if !ok || mc.Fn != ssa.Value(g) {
					return
				}
				all := true
				for _, r := range realReturns(f) {
					if okp, _ := mustPass(f, r, newCuts().addInstr(d)); !okp {
						all = false
					}
				}
				for _, r := range realReturns(g) {
					if okp, _ := mustPass(g, r, newCuts().addInstr(st)); !okp {
						all = false
					}
				}
				if all {
					good = true
				}
			})
		})
	}
	if n == 0 {
		c.bad(c.fnKey(f)+":position", f.Pos(), "no statement advances bytesWriter.current by len(p)")
		return
	}
	c.verdict(c.fnKey(f)+":position", f.Pos(), good, "current += len(p) happens on every return path", "a return path of Write leaves the stream position unchanged: the following part of the response is copied to the wrong offset of the caller's buffer")
}

// clauseLRUPin: a buffer or file obtained from the LRU and handed to the caller inside a reader stays pinned until that
// reader is closed.
func clauseLRUPin(c *Ctx, id string) {
	c.clause(id, "T2", "a buffer or file pinned in the LRU stays pinned while a reader handed to the caller still reads it: done() is released by the returned reader's close function, not by the function that hands the reader out", 2)
	for _, f := range c.pkgFuncs("cache") {
		for _, g := range callsIn(f, idIs("util/cacheutil.(*LRUCache).Get", "util/cacheutil.(*LRUCache).Add")) {
			gc, ok := g.(*ssa.Call)
			if !ok {
				continue
			}
			var val, done ssa.Value
			for _, r := range *gc.Referrers() {
				if ex, ok := r.(*ssa.Extract); ok {
					switch ex.Index {
					case 0:
						val = ex
					case 1:
						done = ex
					}
				}
			}
			if val == nil || !pinnedValueEscapes(val, f) {
				continue // value not handed out of this function
			}
			key := c.fnKey(f) + ":pin:" + typeQNameOfRecvField(gc)
			if done == nil {
				c.bad(key, gc.Pos(), "the release function of a handed-out LRU entry is discarded")
				continue
			}
			good, captured := true, false
			for _, r := range *done.Referrers() {
				switch x := r.(type) {
				case *ssa.DebugRef:
				case *ssa.MakeClosure:
					captured = true
				case *ssa.Store:
					// spilled into a cell captured by a closure; the handing-out function itself must not call it
					captured = true
					if cell, ok := x.Addr.(*ssa.Alloc); ok {
						for _, cr := range *cell.Referrers() {
							ld, ok := cr.(*ssa.UnOp)
							if !ok {
								continue
							}
							for _, lr := range *ld.Referrers() {
								if ci, ok := lr.(ssa.CallInstruction); ok && ci.Common().Value == ssa.Value(ld) {
									good = false
								}
							}
						}
					}
				case *ssa.Call, *ssa.Defer, *ssa.Go:
					if x.(ssa.CallInstruction).Common().Value == done {
						good = false
					}
				}
			}
			c.verdict(key, gc.Pos(), good && captured, "done() is only captured by the reader's close function", "the LRU reference is released when the reader is handed out: the buffer can be evicted, returned to the pool and overwritten while the reader still reads it")
		}
	}
}

// clausePrivateCaches: every directory cache gets its own memory LRU, fd LRU, buffer pool and directory. Chunk-cache keys
// (fs/reader.genID: node id, offset, size) carry no layer identity, so two layers sharing any of these would alias.
func clausePrivateCaches(c *Ctx, id string) {
	c.clause(id, "T9", "each directory cache is built from LRUs, a buffer pool and a directory created by the same invocation (never package-level or shared objects): chunk keys carry no layer identity", 4)
	sites := c.callSitesOf(idIs("cache.NewDirectoryCache"), c.liveFuncs())
	for _, s := range sites {
		call := s.instr.(ssa.CallInstruction)
		f := s.caller
		// directory
		dirOK := false
		for _, v := range append([]ssa.Value{call.Common().Args[0]}, reachingVals(call.Common().Args[0])...) {
			if ex, ok := stripConv(v).(*ssa.Extract); ok {
				if cc, ok := ex.Tuple.(*ssa.Call); ok && calleeID(cc) == "os.MkdirTemp" {
					dirOK = true
				}
			}
		}
		c.verdict(c.fnKey(f)+":private-dir", call.Pos(), dirOK, "directory comes from os.MkdirTemp in this invocation", "the cache directory is not a fresh temporary directory of this invocation: two layers' chunk files (same node id/offset/size keys) can collide")
		// config fields
		cfg := stripConv(call.Common().Args[1])
		p, ok := loadOf(cfg)
		al, isAlloc := p.(*ssa.Alloc)
		if !ok || !isAlloc {
			c.unk(c.fnKey(f)+":private-config", call.Pos(), "DirectoryCacheConfig is not a composite literal of this function")
			continue
		}
		for _, r := range *al.Referrers() {
			fa, ok := r.(*ssa.FieldAddr)
			if !ok {
				continue
			}
			name := fieldName(fa)
			if name != "DataCache" && name != "FdCache" && name != "BufPool" {
				continue
			}
			for _, rr := range *fa.Referrers() {
				st, ok := rr.(*ssa.Store)
				if !ok || st.Addr != ssa.Value(fa) {
					continue
				}
				fresh := true
				var vals []ssa.Value
				for _, v := range append([]ssa.Value{st.Val}, reachingVals(st.Val)...) {
					vals = append(vals, reachingCellVals(v)...)
				}
				for _, v := range vals {
					v = stripConv(v)
					switch x := v.(type) {
					case *ssa.Call:
						if calleeID(x) != "util/cacheutil.NewLRUCache" {
							fresh = false
						}
					case *ssa.Alloc:
						// &sync.Pool{...} of this invocation
					case *ssa.Const:
						// nil: NewDirectoryCache creates its own
					default:
						fresh = false
					}
				}
				c.verdict(c.fnKey(f)+":private-"+name, st.Pos(), fresh, name+" is created by this invocation", name+" is not created by this invocation (package-level or shared object): directory caches of different layers share entries although their keys carry no layer identity")
			}
		}
	}
}

// clauseSortedChunks: the bolt store sorts chunks by offset before deriving sizes from neighbours.
func clauseSortedChunks(c *Ctx, id string) {
	const dbp = "cmd/containerd-stargz-grpc/db"
	c.clause(id, "T1", "chunks read back from the (varint-keyed, not order-preserving) extra bucket are sorted by chunk offset before sizes are derived from neighbours", 1)
	if f := c.mustFn(dbp, "readChunks"); f != nil {
		fe := callsIn(f, func(id string, _ ssa.CallInstruction) bool { return strings.HasSuffix(id, "bbolt.(*Bucket).ForEach") })
		sorts := callsIn(f, idIs("sort.Slice", "sort.SliceStable", "slices.SortFunc"))
		var sizeStores []ssa.Instruction
		eachInstr(f, func(i ssa.Instruction) {
			if st, ok := i.(*ssa.Store); ok {
				if fa, ok := st.Addr.(*ssa.FieldAddr); ok && typeQName(fa.X.Type()) == dbp+".chunkEntry" && fieldName(fa) == "chunkSize" {
					sizeStores = append(sizeStores, i)
				}
			}
		})
		good := len(fe) > 0 && len(sizeStores) > 0
		for _, x := range fe {
			for _, st := range sizeStores {
				if got, _ := reach(f, x, isInstr(st), newCuts().addCalls(sorts)); got != nil {
					good = false
				}
			}
		}
		c.verdict(c.fnKey(f)+":sorted-before-sizes", f.Pos(), good, "sort by chunk offset between the bucket scan and the size derivation", "chunk sizes are derived from neighbours in bucket-iteration order, which is not chunk-offset order for varint keys: chunk boundaries differ from the memory store")
	}
}

// clauseMarkImpliesAdd: tarFile.dump(picked) skips every name in the picked set, so an entry marked picked that does not
// reach the prioritized area is lost from the output.
func clauseMarkImpliesAdd(c *Ctx, id string) {
	const esp = "estargz"
	c.clause(id, "T2", "moveRec: every path that marks a name picked also adds that entry to the prioritized area (or unmarks it) before returning, error returns included: the remaining-entries dump skips picked names", 2)
	f := c.mustFn(esp, "moveRec")
	if f == nil {
		return
	}
	adds := callsIn(f, idIs(esp+".(*tarFile).add"))
	cut := newCuts().addCalls(adds)
	eachInstr(f, func(i ssa.Instruction) {
		// delete(picked, name)
		if call, ok := i.(*ssa.Call); ok {
			if b, ok := call.Call.Value.(*ssa.Builtin); ok && b.Name() == "delete" && isParamish(call.Call.Args[0]) {
				cut.instrs[call] = true
			}
		}
	})
	n := 0
	eachInstr(f, func(i ssa.Instruction) {
		mu, ok := i.(*ssa.MapUpdate)
		if !ok || !isParamish(mu.Map) || !strings.Contains(mu.Map.Type().String(), "struct{}") {
			return
		}
		n++
		before := false
		for _, a := range adds {
			if dominatesInstr(a, mu) {
				before = true
			}
		}
		if before {
			c.ok(c.fnKey(f)+":mark-implies-add", mu.Pos(), "the entry was added before it is marked")
			return
		}
		hit, path := reach(f, mu, isReturn, cut)
		c.verdict(c.fnKey(f)+":mark-implies-add", mu.Pos(), hit == nil, "every return after the mark passes out.add or delete(picked, name)", "an entry is marked picked but a return is reachable without adding it: it is skipped by the remaining-entries dump and vanishes from the blob: "+c.pathStr(f, path))
	})
	if n == 0 {
		c.bad(c.fnKey(f)+":marks", f.Pos(), "moveRec marks nothing as picked")
	}
}

// phiLeaves: the non-phi values that can flow into v through phis (loop-carried variables).
func phiLeaves(v ssa.Value) []ssa.Value {
	seen := map[ssa.Value]bool{}
	var out []ssa.Value
	var walk func(ssa.Value)
	walk = func(x ssa.Value) {
		x = stripConv(x)
		if seen[x] {
			return
		}
		seen[x] = true
		if ph, ok := x.(*ssa.Phi); ok {
			for _, e := range ph.Edges {
				walk(e)
			}
			return
		}
		out = append(out, x)
	}
	walk(v)
	return out
}

// strictSame: a and b denote the same run-time value: the same SSA value, or two loads of one variable with no store to
// it executable between them (in either order).
func strictSame(a, b ssa.Value) bool {
	a, b = stripConv(a), stripConv(b)
	if a == b {
		return true
	}
	la, ok1 := a.(*ssa.UnOp)
	lb, ok2 := b.(*ssa.UnOp)
	if !ok1 || !ok2 || la.Op != token.MUL || lb.Op != token.MUL || la.Parent() != lb.Parent() {
		return false
	}
	ra, rb := cellRoot(la.X), cellRoot(lb.X)
	if ra == nil || ra != rb {
		return false
	}
	for _, st := range storesToCell(enclosingRoot(la.Parent()), ra) {
		if st.Parent() != la.Parent() {
			continue
		}
		if instrBetween(la, lb, st) || instrBetween(lb, la, st) {
			return false
		}
	}
	return true
}

// ownerRoot: the named function a piece of code belongs to for who-may-write/call rules: the enclosing declared function
// of a literal, and — for an unexported helper that is referenced from exactly one place in live first-party code of the
// same package — the owner of that place (so extracting a block or a closure into a helper does not change ownership).
func (c *Ctx) ownerRoot(f *ssa.Function) *ssa.Function {
	for depth := 0; depth < 4; depth++ {
		f = enclosingRoot(f)
		obj, ok := f.Object().(*types.Func)
		if !ok || obj.Exported() || f.Pkg == nil {
			return f
		}
		c.buildCallers()
		sites := c.callersOf[f]
		if len(sites) != 1 || sites[0].caller.Pkg != f.Pkg {
			return f
		}
		// no other reference as a value
		if len(c.funcValueRefs(f, c.pkgFuncs(rel(f.Pkg.Pkg.Path())))) > 0 {
			return f
		}
		f = sites[0].caller
	}
	return enclosingRoot(f)
}

// goActual maps a parameter of the function started by `go f(args)` to the actual argument at the go statement.
func goActual(g *ssa.Go, lit *ssa.Function, v ssa.Value) ssa.Value {
	par, ok := stripConv(v).(*ssa.Parameter)
	if !ok || lit == nil {
		return v
	}
	for k, lp := range lit.Params {
		if lp == par && k < len(g.Call.Args) {
			return g.Call.Args[k]
		}
	}
	return v
}

// ---- values returned by first-party helpers ----

// paramActual remembers, for the helpers entered by calleeSources, the actual argument bound to each parameter at the
// call site that was followed (a helper reached from two different call sites keeps the first binding and is marked
// ambiguous, after which resolveParam refuses to resolve it).
var (
	paramActual    = map[*ssa.Parameter]ssa.Value{}
	paramAmbiguous = map[*ssa.Parameter]bool{}
)

// calleeSources: when v is (a component of) the result of a static call to a first-party function with a body, the
// values that function can return in that position; parameters of the helper are bound to the call's arguments.
func calleeSources(v ssa.Value) ([]ssa.Value, bool) {
	v = stripConv(v)
	idx := 0
	var call *ssa.Call
	switch x := v.(type) {
	case *ssa.Call:
		call = x
	case *ssa.Extract:
		cc, ok := x.Tuple.(*ssa.Call)
		if !ok {
			return nil, false
		}
		call, idx = cc, x.Index
	default:
		return nil, false
	}
	f := staticFn(call)
	if f == nil || f.Pkg == nil || !isFirstParty(f.Pkg.Pkg.Path()) || len(f.Blocks) == 0 {
		return nil, false
	}
	for k, p := range f.Params {
		if k < len(call.Call.Args) {
			if old, ok := paramActual[p]; ok && old != call.Call.Args[k] {
				paramAmbiguous[p] = true
			}
			paramActual[p] = call.Call.Args[k]
		}
	}
	var out []ssa.Value
	for _, r := range realReturns(f) {
		out = append(out, retVals(r, idx)...)
	}
	return out, len(out) > 0
}

// resolveParam: the actual argument behind a helper's parameter, when calleeSources entered that helper from one site.
func resolveParam(v ssa.Value) ssa.Value {
	for depth := 0; depth < 3; depth++ {
		p, ok := stripConv(v).(*ssa.Parameter)
		if !ok || paramAmbiguous[p] {
			return v
		}
		a, ok := paramActual[p]
		if !ok {
			return v
		}
		v = a
	}
	return v
}

// valueSourcesIP: valueSources that also looks through the results of first-party helpers (see calleeSources).
func valueSourcesIP(v ssa.Value, root *ssa.Function, depth int) []ssa.Value {
	var out []ssa.Value
	for _, x := range valueSources(v, root, depth) {
		if cs, ok := calleeSources(x); ok && depth < 3 {
			for _, e := range cs {
				out = append(out, valueSourcesIP(e, root, depth+1)...)
			}
			continue
		}
		out = append(out, x)
	}
	return out
}

// withHelpers: f, its literals, and the unexported same-package helpers owned by f (see ownerRoot), with their literals.
func (c *Ctx) withHelpers(f *ssa.Function) []*ssa.Function {
	seen := map[*ssa.Function]bool{}
	var out []*ssa.Function
	var add func(g *ssa.Function, depth int)
	add = func(g *ssa.Function, depth int) {
		for _, x := range withAnon(g) {
			if seen[x] {
				continue
			}
			seen[x] = true
			out = append(out, x)
			if depth >= 3 {
				continue
			}
			eachInstr(x, func(i ssa.Instruction) {
				ci, ok := asCall(i)
				if !ok {
					return
				}
				t := staticFn(ci)
				if t == nil || t.Pkg != f.Pkg || len(t.Blocks) == 0 || seen[t] {
					return
				}
				if t != enclosingRoot(f) && c.ownedBy(t, enclosingRoot(f)) {
					add(t, depth+1)
				}
			})
		}
	}
	add(f, 0)
	return out
}

// ownedBy: walking up from helper t through single-reference unexported helpers reaches root.
func (c *Ctx) ownedBy(t, root *ssa.Function) bool {
	g := t
	for depth := 0; depth < 4; depth++ {
		g = enclosingRoot(g)
		if g == root {
			return true
		}
		obj, ok := g.Object().(*types.Func)
		if !ok || obj.Exported() || g.Pkg == nil {
			return false
		}
		c.buildCallers()
		sites := c.callersOf[g]
		if len(sites) != 1 || sites[0].caller.Pkg != g.Pkg {
			return false
		}
		if len(c.funcValueRefs(g, c.pkgFuncs(rel(g.Pkg.Pkg.Path())))) > 0 {
			return false
		}
		g = sites[0].caller
	}
	return false
}

// clauseKeyInjective: a cache-key function hashes its components in a form that separates them, so that two different
// component tuples cannot produce the same key text ("2"+"10" vs "21"+"0").
func clauseKeyInjective(c *Ctx, id string, fns [][2]string) {
	c.clause(id, "T5", "cache keys are hashed from all of their components with a separator between any two numeric components (distinct chunks cannot share a key)", len(fns))
	for _, x := range fns {
		f := c.mustFn(x[0], x[1])
		if f == nil {
			continue
		}
		key := c.fnKey(f) + ":key-separated"
		var hashed ssa.Value
		for _, ci := range callsIn(f, func(id string, _ ssa.CallInstruction) bool {
			return strings.HasPrefix(id, "crypto/sha256.Sum") || strings.HasPrefix(id, "crypto/sha512.Sum") || id == "github.com/opencontainers/go-digest.FromBytes" || id == "github.com/opencontainers/go-digest.FromString"
		}) {
			hashed = ci.Common().Args[0]
		}
		if hashed == nil {
			c.unk(key, f.Pos(), "the key is not a hash of a formatted component list")
			continue
		}
		items, ok := formattedItems(hashed, 0)
		if !ok {
			c.unk(key, f.Pos(), "cannot read how the hashed bytes are assembled")
			continue
		}
		// items: "V" for a formatted value, "L" for a non-empty literal
		good, nv := true, 0
		prev := ""
		for _, it := range items {
			if it == "V" {
				nv++
				if prev == "V" {
					good = false
				}
			}
			prev = it
		}
		want := len(f.Params)
		if f.Signature.Recv() != nil {
			want = 0 // counted from the uses below
		}
		c.verdict(key, f.Pos(), good && nv >= 2 && nv >= want, "components are separated by literals", "two components of the cache key are concatenated without a separator: different (id, offset, size) tuples can hash to the same key and a cache hit returns another chunk's bytes")
	}
}

// formattedItems flattens the construction of a byte/string value into value ("V") and literal ("L") items.
func formattedItems(v ssa.Value, depth int) ([]string, bool) {
	v = stripConv(v)
	if depth > 8 {
		return nil, false
	}
	if s, ok := constString(v); ok {
		if s == "" {
			return nil, true
		}
		return []string{"L"}, true
	}
	switch x := v.(type) {
	case *ssa.Const:
		return nil, true // nil slice
	case *ssa.Slice:
		// buf[:0] of a fresh array
		if x.High != nil {
			if n, ok := constInt(x.High); ok && n == 0 {
				return nil, true
			}
		}
		return formattedItems(x.X, depth+1)
	case *ssa.BinOp:
		if x.Op != token.ADD {
			return nil, false
		}
		a, ok1 := formattedItems(x.X, depth+1)
		b, ok2 := formattedItems(x.Y, depth+1)
		return append(a, b...), ok1 && ok2
	case *ssa.Call:
		id := calleeID(x)
		switch {
		case id == "fmt.Sprintf" || id == "fmt.Appendf":
			fi := 0
			var pre []string
			if id == "fmt.Appendf" {
				fi = 1
				p, ok := formattedItems(x.Call.Args[0], depth+1)
				if !ok {
					return nil, false
				}
				pre = p
			}
			format, ok := constString(x.Call.Args[fi])
			if !ok {
				return nil, false
			}
			out := pre
			lit := false
			for i := 0; i < len(format); i++ {
				if format[i] == '%' && i+1 < len(format) {
					if format[i+1] == '%' {
						lit = true
						i++
						continue
					}
					if lit {
						out = append(out, "L")
						lit = false
					}
					// skip flags/width up to the verb
					j := i + 1
					for j < len(format) && strings.ContainsRune("+-# 0123456789.", rune(format[j])) {
						j++
					}
					out = append(out, "V")
					i = j
					continue
				}
				lit = true
			}
			if lit {
				out = append(out, "L")
			}
			return out, true
		case strings.HasPrefix(id, "strconv.Append"):
			a, ok := formattedItems(x.Call.Args[0], depth+1)
			return append(a, "V"), ok
		case strings.HasPrefix(id, "strconv.Format") || id == "strconv.Itoa":
			return []string{"V"}, true
		}
		if b, ok := x.Call.Value.(*ssa.Builtin); ok && b.Name() == "append" {
			a, ok1 := formattedItems(x.Call.Args[0], depth+1)
			if len(x.Call.Args) < 2 {
				return a, ok1
			}
			// appended elements: a constant string/byte slice counts as a literal, anything else as a value
			it := "V"
			if s, ok := constString(x.Call.Args[1]); ok && s != "" {
				it = "L"
			} else if va := varargs(x.Call.Args[1]); len(va) > 0 {
				allConst := true
				for _, e := range va {
					if _, ok := stripConv(e).(*ssa.Const); !ok {
						allConst = false
					}
				}
				if allConst {
					it = "L"
				}
			}
			return append(a, it), ok1
		}
		return nil, false
	case *ssa.Alloc:
		return nil, true // fresh buffer
	case *ssa.UnOp:
		if rv := reachingVals(v); len(rv) == 1 && rv[0] != v {
			return formattedItems(rv[0], depth+1)
		}
		return []string{"V"}, true
	case *ssa.Parameter, *ssa.Field, *ssa.FieldAddr, *ssa.Extract:
		return []string{"V"}, true
	}
	return nil, false
}

// clausePreReadAccounting: estargz.(*fileReader).ReadAt hands neighbouring chunks of a shared stream to the pre-read
// callback; the stream position it keeps must advance by what the callback really consumed (a callback may return
// without draining, e.g. when the chunk is already cached).
func clausePreReadAccounting(c *Ctx, id string) {
	c.clause(id, "T9", "after a neighbouring chunk was offered to the pre-read callback the stream position advances by the bytes actually consumed (counting wrapper), or the rest of the chunk is drained first", 1)
	f := c.mustFn("estargz", "(*fileReader).ReadAt")
	if f == nil {
		return
	}
	var pre *ssa.Call
	eachInstr(f, func(i ssa.Instruction) {
		if call, ok := i.(*ssa.Call); ok {
			if _, ok := isFieldLoadAny(call.Call.Value, "preRead"); ok {
				pre = call
			}
		}
	})
	if pre == nil {
		c.unk(c.fnKey(f)+":pre-read", f.Pos(), "pre-read callback is no longer invoked here")
		return
	}
	rd := stripConv(pre.Call.Args[len(pre.Call.Args)-1])
	if mi, ok := rd.(*ssa.MakeInterface); ok {
		rd = stripConv(mi.X)
	}
	// the first addition to the position after the callback
	good, n := false, 0
	eachInstr(f, func(i ssa.Instruction) {
		b, ok := i.(*ssa.BinOp)
		if !ok || b.Op != token.ADD || !dominatesInstr(pre, b) {
			return
		}
		carried := false
		for _, r := range *b.Referrers() {
			if _, ok := r.(*ssa.Phi); ok {
				carried = true
			}
		}
		if !carried {
			return
		}
		n++
		add := stripConv(b.Y)
		// (a) the counter of the wrapper that was handed to the callback
		if fa, ok := loadOfField(add); ok && stripConv(fa.X) == rd {
			good = true
			return
		}
		// (b) the chunk size, after draining what the callback left
		if _, ok := isFieldLoadAny(add, "ChunkSize"); ok {
			for _, d := range callsIn(f, idIs("io.Copy", "io.CopyN")) {
				if g, ok := loadOf(stripConv(d.Common().Args[0])); ok {
					if gl, ok := g.(*ssa.Global); !ok || gl.Name() != "Discard" {
						continue
					}
				} else if mi, ok := stripConv(d.Common().Args[0]).(*ssa.MakeInterface); ok {
					_ = mi
				}
				src := stripConv(d.Common().Args[1])
				if mi, ok := src.(*ssa.MakeInterface); ok {
					src = stripConv(mi.X)
				}
				if (src == rd || sameValue(src, pre.Call.Args[len(pre.Call.Args)-1])) && dominatesInstr(pre, d) && dominatesInstr(d, b) {
					good = true
				}
			}
		}
	})
	c.verdict(c.fnKey(f)+":position-after-pre-read", pre.Pos(), good && n > 0, "position advances by the consumed byte count", "after the pre-read callback the position advances by the chunk size although the callback may not have consumed the chunk: the following chunks (and the requested one) are read from the wrong offset of the stream")
}

// clauseDirLinkCount: TOCEntry.addChild counts the ".." link of every sub-directory it is given.
func clauseDirLinkCount(c *Ctx, id string) {
	c.clause(id, "T1", "addChild counts a '..' link for every child of type dir: the increment can be bypassed only on the 'not a directory' edge (the bolt store's setChild counts the same way)", 1)
	f := c.mustFn("estargz", "(*TOCEntry).addChild")
	if f == nil {
		return
	}
	var incs []ssa.Instruction
	eachInstr(f, func(i ssa.Instruction) {
		if st, ok := i.(*ssa.Store); ok {
			if fa, ok := st.Addr.(*ssa.FieldAddr); ok && fieldName(fa) == "NumLink" {
				incs = append(incs, i)
			}
		}
	})
	notDir := condEdges(f, func(cond ssa.Value) int {
		b, ok := cond.(*ssa.BinOp)
		if !ok || (b.Op != token.EQL && b.Op != token.NEQ) {
			return 0
		}
		for _, pair := range [][2]ssa.Value{{b.X, b.Y}, {b.Y, b.X}} {
			if _, ok := isFieldLoadAny(pair[0], "Type"); ok {
				if s, ok := constString(pair[1]); ok && s == "dir" {
					if b.Op == token.EQL {
						return -1
					}
					return 1
				}
			}
		}
		return 0
	})
	if len(incs) == 0 || len(notDir) == 0 {
		c.bad(c.fnKey(f)+":dir-link", f.Pos(), "addChild no longer counts the '..' link of sub-directories")
		return
	}
	hit, path := reach(f, nil, isReturn, newCuts().addInstr(incs...).addEdges(notDir))
	c.verdict(c.fnKey(f)+":dir-link", f.Pos(), hit == nil, "every directory child increments the parent's link count", "a directory child can be registered without counting its '..' link (e.g. when the name is registered twice): the memory store reports another nlink than the bolt store: "+c.pathStr(f, path))
}

// clauseMountRegistrationRolledBack: (*filesystem).Mount registers the layer under the mountpoint before the FUSE server is
// up; when a later step fails, the layer reference is dropped (l.Done()), so the registration must be dropped as well:
// Check(mountpoint) answers from that table.
func clauseMountRegistrationRolledBack(c *Ctx, id string) {
	c.clause(id, "T2", "every error exit of filesystem.Mount after fs.layer[mountpoint] was set removes that entry again (directly or by a deferred function acting only on failure): Check must not find a layer for a mountpoint whose mount failed", 1)
	f := c.mustFn("fs", "(*filesystem).Mount")
	if f == nil {
		return
	}
	isLayerMap := func(v ssa.Value) bool {
		_, ok := isFieldLoadAny(v, "layer")
		return ok
	}
	var reg ssa.Instruction
	eachInstr(f, func(i ssa.Instruction) {
		if mu, ok := i.(*ssa.MapUpdate); ok && isLayerMap(mu.Map) {
			reg = i
		}
	})
	if reg == nil {
		c.unk(c.fnKey(f)+":registration", f.Pos(), "Mount no longer registers the layer in fs.layer")
		return
	}
	isDelete := func(i ssa.Instruction) bool {
		call, ok := i.(*ssa.Call)
		if !ok {
			return false
		}
		b, ok := call.Call.Value.(*ssa.Builtin)
		return ok && b.Name() == "delete" && isLayerMap(call.Call.Args[0])
	}
	// a deferred literal that deletes the entry only when the named error result is set
	var rollbacks []ssa.Instruction
	eachInstr(f, func(i ssa.Instruction) {
		d, ok := i.(*ssa.Defer)
		if !ok {
			return
		}
		mc, ok := d.Call.Value.(*ssa.MakeClosure)
		if !ok {
			return
		}
		lit := mc.Fn.(*ssa.Function)
		failed := condEdges(lit, func(cond ssa.Value) int {
			b, ok := cond.(*ssa.BinOp)
			if !ok || (b.Op != token.NEQ && b.Op != token.EQL) || !isNilConst(b.Y) {
				return 0
			}
			p, ok := loadOf(stripConv(b.X))
			if !ok {
				return 0
			}
			fv, ok := p.(*ssa.FreeVar)
			if !ok || !isErrorType(deref(fv.Type())) {
				return 0
			}
			if b.Op == token.NEQ {
				return 1
			}
			return -1
		})
		okDel := false
		eachInstr(lit, func(j ssa.Instruction) {
			if isDelete(j) {
				if o, _ := mustPass(lit, j, newCuts().addEdges(failed)); o && len(failed) > 0 {
					okDel = true
				}
			}
		})
		if okDel {
			rollbacks = append(rollbacks, d)
		}
	})
	var direct []ssa.Instruction
	eachInstr(f, func(i ssa.Instruction) {
		if isDelete(i) {
			direct = append(direct, i)
		}
	})
	good := true
	detail := ""
	n := 0
	for _, r := range realReturns(f) {
		if returnsNilError(r) {
			continue
		}
		if hit, _ := reach(f, reg, isInstr(r), nil); hit == nil {
			continue
		}
		n++
		// covered by a rollback defer registered on every path to this return, or by a direct delete after the registration
		covered := false
		for _, d := range rollbacks {
			if dominatesInstr(d, r) {
				covered = true
			}
		}
		if !covered {
			if hit, path := reach(f, reg, isInstr(r), newCuts().addInstr(direct...)); hit == nil {
				covered = true
			} else {
				detail = c.pathStr(f, path)
			}
		}
		if !covered {
			good = false
		}
	}
	c.verdict(c.fnKey(f)+":registration-rolled-back", reg.Pos(), good && n > 0, "failed mounts leave no entry in fs.layer", "Mount can fail after registering the layer (FUSE server or WaitMount error) and leaves fs.layer[mountpoint] pointing at a layer whose reference was already dropped: Check(mountpoint) then reports an unmounted directory as available: "+detail)
}
