package main

import (
	"fmt"
	"go/token"
	"go/types"
	"strings"

	"golang.org/x/tools/go/ssa"
)

// Clauses that are structural premises of more than one property. Each is emitted under the clause id of the
// property being decided, so that every property's check stands on its own.

// paramCell: v is a parameter of some enclosing function, directly or through the captured cell that holds it.
func paramCell(v ssa.Value) bool {
	v = stripConv(v)
	if isParamish(v) {
		return true
	}
	if p, ok := loadOf(v); ok {
		if a, ok := cellRoot(p).(*ssa.Alloc); ok && a != nil {
			n, par := 0, 0
			for _, st := range storesToCell(enclosingRoot(a.Parent()), a) {
				n++
				if _, ok := st.Val.(*ssa.Parameter); ok {
					par++
				}
			}
			return n == 1 && par == 1
		}
	}
	return false
}

// clauseStreamPosition: fs/remote.(*bytesWriter).Write keeps the stream position: whatever part of p lands in the
// destination window, the position advances by len(p) on every return.
func clauseStreamPosition(c *Ctx, id string) {
	c.clause(id, "T2", "bytesWriter.Write advances its stream position by len(p) on every return, also when p lies outside the destination window", 1)
	f := c.mustFn("fs/remote", "(*bytesWriter).Write")
	if f == nil {
		return
	}
	isAdvance := func(st *ssa.Store) bool {
		fa, ok := st.Addr.(*ssa.FieldAddr)
		if !ok || fieldName(fa) != "current" {
			return false
		}
		b, ok := stripConv(st.Val).(*ssa.BinOp)
		if !ok || b.Op != token.ADD {
			return false
		}
		cur, ln := false, false
		for _, op := range []ssa.Value{b.X, b.Y} {
			op = stripConv(op)
			if _, ok := isFieldLoadAny(op, "current"); ok {
				cur = true
				continue
			}
			vals := append([]ssa.Value{op}, reachingVals(op)...)
			for _, v := range vals {
				if call, ok := stripConv(v).(*ssa.Call); ok {
					if bi, ok := call.Call.Value.(*ssa.Builtin); ok && bi.Name() == "len" && paramCell(call.Call.Args[0]) {
						ln = true
					}
				}
			}
		}
		return cur && ln
	}
	good, n := false, 0
	for _, g := range withAnon(f) {
		eachInstr(g, func(i ssa.Instruction) {
			st, ok := i.(*ssa.Store)
			if !ok || !isAdvance(st) {
				return
			}
			n++
			if g == f {
				// every return passes the store
				all := true
				for _, r := range realReturns(f) {
					if okp, _ := mustPass(f, r, newCuts().addInstr(st)); !okp {
						all = false
					}
				}
				if all {
					good = true
				}
				return
			}
			// in a literal: it must be deferred before any return of Write, and advance on all its own paths
			eachInstr(f, func(j ssa.Instruction) {
				d, ok := j.(*ssa.Defer)
				if !ok {
					return
				}
				mc, ok := d.Call.Value.(*ssa.MakeClosure)
				if !ok || mc.Fn != ssa.Value(g) {
					return
				}
				all := true
				for _, r := range realReturns(f) {
					if okp, _ := mustPass(f, r, newCuts().addInstr(d)); !okp {
						all = false
					}
				}
				for _, r := range realReturns(g) {
					if okp, _ := mustPass(g, r, newCuts().addInstr(st)); !okp {
						all = false
					}
				}
				if all {
					good = true
				}
			})
		})
	}
	if n == 0 {
		c.bad(c.fnKey(f)+":position", f.Pos(), "no statement advances bytesWriter.current by len(p)")
		return
	}
	c.verdict(c.fnKey(f)+":position", f.Pos(), good, "current += len(p) happens on every return path", "a return path of Write leaves the stream position unchanged: the following part of the response is copied to the wrong offset of the caller's buffer")
}

// clauseLRUPin: a buffer or file obtained from the LRU and handed to the caller inside a reader stays pinned until that
// reader is closed.
func clauseLRUPin(c *Ctx, id string) {
	c.clause(id, "T2", "a buffer or file pinned in the LRU stays pinned while a reader handed to the caller still reads it: done() is released by the returned reader's close function, not by the function that hands the reader out", 2)
	for _, f := range c.pkgFuncs("cache") {
		for _, g := range callsIn(f, idIs("util/cacheutil.(*LRUCache).Get", "util/cacheutil.(*LRUCache).Add")) {
			gc, ok := g.(*ssa.Call)
			if !ok {
				continue
			}
			var val, done ssa.Value
			for _, r := range *gc.Referrers() {
				if ex, ok := r.(*ssa.Extract); ok {
					switch ex.Index {
					case 0:
						val = ex
					case 1:
						done = ex
					}
				}
			}
			if val == nil || !pinnedValueEscapes(val, f) {
				continue // value not handed out of this function
			}
			key := c.fnKey(f) + ":pin:" + typeQNameOfRecvField(gc)
			if done == nil {
				c.bad(key, gc.Pos(), "the release function of a handed-out LRU entry is discarded")
				continue
			}
			good, captured := true, false
			for _, r := range *done.Referrers() {
				switch x := r.(type) {
				case *ssa.DebugRef:
				case *ssa.MakeClosure:
					captured = true
				case *ssa.Store:
					// spilled into a cell captured by a closure; the handing-out function itself must not call it
					captured = true
					if cell, ok := x.Addr.(*ssa.Alloc); ok {
						for _, cr := range *cell.Referrers() {
							ld, ok := cr.(*ssa.UnOp)
							if !ok {
								continue
							}
							for _, lr := range *ld.Referrers() {
								if ci, ok := lr.(ssa.CallInstruction); ok && ci.Common().Value == ssa.Value(ld) {
									good = false
								}
							}
						}
					}
				case *ssa.Call, *ssa.Defer, *ssa.Go:
					if x.(ssa.CallInstruction).Common().Value == done {
						good = false
					}
				}
			}
			c.verdict(key, gc.Pos(), good && captured, "done() is only captured by the reader's close function", "the LRU reference is released when the reader is handed out: the buffer can be evicted, returned to the pool and overwritten while the reader still reads it")
		}
	}
}

// clausePrivateCaches: every directory cache gets its own memory LRU, fd LRU, buffer pool and directory. Chunk-cache keys
// (fs/reader.genID: node id, offset, size) carry no layer identity, so two layers sharing any of these would alias.
func clausePrivateCaches(c *Ctx, id string) {
	c.clause(id, "T9", "each directory cache is built from LRUs, a buffer pool and a directory created by the same invocation (never package-level or shared objects): chunk keys carry no layer identity", 4)
	sites := c.callSitesOf(idIs("cache.NewDirectoryCache"), c.liveFuncs())
	for _, s := range sites {
		call := s.instr.(ssa.CallInstruction)
		f := s.caller
		// directory
		dirOK := false
		for _, v := range append([]ssa.Value{call.Common().Args[0]}, reachingVals(call.Common().Args[0])...) {
			if ex, ok := stripConv(v).(*ssa.Extract); ok {
				if cc, ok := ex.Tuple.(*ssa.Call); ok && calleeID(cc) == "os.MkdirTemp" {
					dirOK = true
				}
			}
		}
		c.verdict(c.fnKey(f)+":private-dir", call.Pos(), dirOK, "directory comes from os.MkdirTemp in this invocation", "the cache directory is not a fresh temporary directory of this invocation: two layers' chunk files (same node id/offset/size keys) can collide")
		// config fields
		cfg := stripConv(call.Common().Args[1])
		p, ok := loadOf(cfg)
		al, isAlloc := p.(*ssa.Alloc)
		if !ok || !isAlloc {
			c.unk(c.fnKey(f)+":private-config", call.Pos(), "DirectoryCacheConfig is not a composite literal of this function")
			continue
		}
		for _, r := range *al.Referrers() {
			fa, ok := r.(*ssa.FieldAddr)
			if !ok {
				continue
			}
			name := fieldName(fa)
			if name != "DataCache" && name != "FdCache" && name != "BufPool" {
				continue
			}
			for _, rr := range *fa.Referrers() {
				st, ok := rr.(*ssa.Store)
				if !ok || st.Addr != ssa.Value(fa) {
					continue
				}
				fresh := true
				var vals []ssa.Value
				for _, v := range append([]ssa.Value{st.Val}, reachingVals(st.Val)...) {
					vals = append(vals, reachingCellVals(v)...)
				}
				for _, v := range vals {
					v = stripConv(v)
					switch x := v.(type) {
					case *ssa.Call:
						if calleeID(x) != "util/cacheutil.NewLRUCache" {
							fresh = false
						}
					case *ssa.Alloc:
						// &sync.Pool{...} of this invocation
					case *ssa.Const:
						// nil: NewDirectoryCache creates its own
					default:
						fresh = false
					}
				}
				c.verdict(c.fnKey(f)+":private-"+name, st.Pos(), fresh, name+" is created by this invocation", name+" is not created by this invocation (package-level or shared object): directory caches of different layers share entries although their keys carry no layer identity")
			}
		}
	}
}

// clauseSortedChunks: the bolt store sorts chunks by offset before deriving sizes from neighbours.
func clauseSortedChunks(c *Ctx, id string) {
	const dbp = "cmd/containerd-stargz-grpc/db"
	c.clause(id, "T1", "chunks read back from the (varint-keyed, not order-preserving) extra bucket are sorted by chunk offset before sizes are derived from neighbours", 1)
	if f := c.mustFn(dbp, "readChunks"); f != nil {
		fe := callsIn(f, func(id string, _ ssa.CallInstruction) bool { return strings.HasSuffix(id, "bbolt.(*Bucket).ForEach") })
		sorts := callsIn(f, idIs("sort.Slice", "sort.SliceStable", "slices.SortFunc"))
		var sizeStores []ssa.Instruction
		eachInstr(f, func(i ssa.Instruction) {
			if st, ok := i.(*ssa.Store); ok {
				if fa, ok := st.Addr.(*ssa.FieldAddr); ok && typeQName(fa.X.Type()) == dbp+".chunkEntry" && fieldName(fa) == "chunkSize" {
					sizeStores = append(sizeStores, i)
				}
			}
		})
		good := len(fe) > 0 && len(sizeStores) > 0
		for _, x := range fe {
			for _, st := range sizeStores {
				if got, _ := reach(f, x, isInstr(st), newCuts().addCalls(sorts)); got != nil {
					good = false
				}
			}
		}
		c.verdict(c.fnKey(f)+":sorted-before-sizes", f.Pos(), good, "sort by chunk offset between the bucket scan and the size derivation", "chunk sizes are derived from neighbours in bucket-iteration order, which is not chunk-offset order for varint keys: chunk boundaries differ from the memory store")
	}
}

// clauseMarkImpliesAdd: tarFile.dump(picked) skips every name in the picked set, so an entry marked picked that does not
// reach the prioritized area is lost from the output.
func clauseMarkImpliesAdd(c *Ctx, id string) {
	const esp = "estargz"
	c.clause(id, "T2", "moveRec: every path that marks a name picked also adds that entry to the prioritized area (or unmarks it) before returning, error returns included: the remaining-entries dump skips picked names", 2)
	f := c.mustFn(esp, "moveRec")
	if f == nil {
		return
	}
	adds := callsIn(f, idIs(esp+".(*tarFile).add"))
	cut := newCuts().addCalls(adds)
	eachInstr(f, func(i ssa.Instruction) {
		// delete(picked, name)
		if call, ok := i.(*ssa.Call); ok {
			if b, ok := call.Call.Value.(*ssa.Builtin); ok && b.Name() == "delete" && isParamish(call.Call.Args[0]) {
				cut.instrs[call] = true
			}
		}
	})
	n := 0
	eachInstr(f, func(i ssa.Instruction) {
		mu, ok := i.(*ssa.MapUpdate)
		if !ok || !isParamish(mu.Map) || !strings.Contains(mu.Map.Type().String(), "struct{}") {
			return
		}
		n++
		before := false
		for _, a := range adds {
			if dominatesInstr(a, mu) {
				before = true
			}
		}
		if before {
			c.ok(c.fnKey(f)+":mark-implies-add", mu.Pos(), "the entry was added before it is marked")
			return
		}
		hit, path := reach(f, mu, isReturn, cut)
		c.verdict(c.fnKey(f)+":mark-implies-add", mu.Pos(), hit == nil, "every return after the mark passes out.add or delete(picked, name)", "an entry is marked picked but a return is reachable without adding it: it is skipped by the remaining-entries dump and vanishes from the blob: "+c.pathStr(f, path))
	})
	if n == 0 {
		c.bad(c.fnKey(f)+":marks", f.Pos(), "moveRec marks nothing as picked")
	}
}

// phiLeaves: the non-phi values that can flow into v through phis (loop-carried variables).
func phiLeaves(v ssa.Value) []ssa.Value {
	seen := map[ssa.Value]bool{}
	var out []ssa.Value
	var walk func(ssa.Value)
	walk = func(x ssa.Value) {
		x = stripConv(x)
		if seen[x] {
			return
		}
		seen[x] = true
		if ph, ok := x.(*ssa.Phi); ok {
			for _, e := range ph.Edges {
				walk(e)
			}
			return
		}
		out = append(out, x)
	}
	walk(v)
	return out
}

// strictSame: a and b denote the same run-time value: the same SSA value, or two loads of one variable with no store to
// it executable between them (in either order).
func strictSame(a, b ssa.Value) bool {
	a, b = stripConv(a), stripConv(b)
	if a == b {
		return true
	}
	la, ok1 := a.(*ssa.UnOp)
	lb, ok2 := b.(*ssa.UnOp)
	if !ok1 || !ok2 || la.Op != token.MUL || lb.Op != token.MUL || la.Parent() != lb.Parent() {
		return false
	}
	ra, rb := cellRoot(la.X), cellRoot(lb.X)
	if ra == nil || ra != rb {
		return false
	}
	for _, st := range storesToCell(enclosingRoot(la.Parent()), ra) {
		if st.Parent() != la.Parent() {
			continue
		}
		if instrBetween(la, lb, st) || instrBetween(lb, la, st) {
			return false
		}
	}
	return true
}

// ownerRoot: the named function a piece of code belongs to for who-may-write/call rules: the enclosing declared function
// of a literal, and — for an unexported helper that is referenced from exactly one place in live first-party code of the
// same package — the owner of that place (so extracting a block or a closure into a helper does not change ownership).
func (c *Ctx) ownerRoot(f *ssa.Function) *ssa.Function {
	for depth := 0; depth < 4; depth++ {
		f = enclosingRoot(f)
		obj, ok := f.Object().(*types.Func)
		if !ok || obj.Exported() || f.Pkg == nil {
			return f
		}
		c.buildCallers()
		sites := c.callersOf[f]
		if len(sites) != 1 || sites[0].caller.Pkg != f.Pkg {
			return f
		}
		// no other reference as a value
		if len(c.funcValueRefs(f, c.pkgFuncs(rel(f.Pkg.Pkg.Path())))) > 0 {
			return f
		}
		f = sites[0].caller
	}
	return enclosingRoot(f)
}

// goActual maps a parameter of the function started by `go f(args)` to the actual argument at the go statement.
func goActual(g *ssa.Go, lit *ssa.Function, v ssa.Value) ssa.Value {
	par, ok := stripConv(v).(*ssa.Parameter)
	if !ok || lit == nil {
		return v
	}
	for k, lp := range lit.Params {
		if lp == par && k < len(g.Call.Args) {
			return g.Call.Args[k]
		}
	}
	return v
}

// ---- values returned by first-party helpers ----

// paramActual remembers, for the helpers entered by calleeSources, the actual argument bound to each parameter at the
// call site that was followed (a helper reached from two different call sites keeps the first binding and is marked
// ambiguous, after which resolveParam refuses to resolve it).
var (
	paramActual    = map[*ssa.Parameter]ssa.Value{}
	paramAmbiguous = map[*ssa.Parameter]bool{}
)

// calleeSources: when v is (a component of) the result of a static call to a first-party function with a body, the
// values that function can return in that position; parameters of the helper are bound to the call's arguments.
func calleeSources(v ssa.Value) ([]ssa.Value, bool) {
	v = stripConv(v)
	idx := 0
	var call *ssa.Call
	switch x := v.(type) {
	case *ssa.Call:
		call = x
	case *ssa.Extract:
		cc, ok := x.Tuple.(*ssa.Call)
		if !ok {
			return nil, false
		}
		call, idx = cc, x.Index
	default:
		return nil, false
	}
	f := staticFn(call)
	if f == nil || f.Pkg == nil || !isFirstParty(f.Pkg.Pkg.Path()) || len(f.Blocks) == 0 {
		return nil, false
	}
	for k, p := range f.Params {
		if k < len(call.Call.Args) {
			if old, ok := paramActual[p]; ok && old != call.Call.Args[k] {
				paramAmbiguous[p] = true
			}
			paramActual[p] = call.Call.Args[k]
		}
	}
	var out []ssa.Value
	for _, r := range realReturns(f) {
		out = append(out, retVals(r, idx)...)
	}
	return out, len(out) > 0
}

// resolveParam: the actual argument behind a helper's parameter, when calleeSources entered that helper from one site.
func resolveParam(v ssa.Value) ssa.Value {
	for depth := 0; depth < 3; depth++ {
		p, ok := stripConv(v).(*ssa.Parameter)
		if !ok || paramAmbiguous[p] {
			return v
		}
		a, ok := paramActual[p]
		if !ok {
			return v
		}
		v = a
	}
	return v
}

// valueSourcesIP: valueSources that also looks through the results of first-party helpers (see calleeSources).
func valueSourcesIP(v ssa.Value, root *ssa.Function, depth int) []ssa.Value {
	var out []ssa.Value
	for _, x := range valueSources(v, root, depth) {
		if cs, ok := calleeSources(x); ok && depth < 3 {
			for _, e := range cs {
				out = append(out, valueSourcesIP(e, root, depth+1)...)
			}
			continue
		}
		out = append(out, x)
	}
	return out
}

// withHelpers: f, its literals, and the unexported same-package helpers owned by f (see ownerRoot), with their literals.
func (c *Ctx) withHelpers(f *ssa.Function) []*ssa.Function {
	seen := map[*ssa.Function]bool{}
	var out []*ssa.Function
	var add func(g *ssa.Function, depth int)
	add = func(g *ssa.Function, depth int) {
		for _, x := range withAnon(g) {
			if seen[x] {
				continue
			}
			seen[x] = true
			out = append(out, x)
			if depth >= 3 {
				continue
			}
			eachInstr(x, func(i ssa.Instruction) {
				ci, ok := asCall(i)
				if !ok {
					return
				}
				t := staticFn(ci)
				if t == nil || t.Pkg != f.Pkg || len(t.Blocks) == 0 || seen[t] {
					return
				}
				if t != enclosingRoot(f) && c.ownedBy(t, enclosingRoot(f)) {
					add(t, depth+1)
				}
			})
		}
	}
	add(f, 0)
	return out
}

// ownedBy: walking up from helper t through single-reference unexported helpers reaches root.
func (c *Ctx) ownedBy(t, root *ssa.Function) bool {
	g := t
	for depth := 0; depth < 4; depth++ {
		g = enclosingRoot(g)
		if g == root {
			return true
		}
		obj, ok := g.Object().(*types.Func)
		if !ok || obj.Exported() || g.Pkg == nil {
			return false
		}
		c.buildCallers()
		sites := c.callersOf[g]
		if len(sites) != 1 || sites[0].caller.Pkg != g.Pkg {
			return false
		}
		if len(c.funcValueRefs(g, c.pkgFuncs(rel(g.Pkg.Pkg.Path())))) > 0 {
			return false
		}
		g = sites[0].caller
	}
	return false
}

// clauseKeyInjective: a cache-key function hashes its components in a form that separates them, so that two different
// component tuples cannot produce the same key text ("2"+"10" vs "21"+"0").
func clauseKeyInjective(c *Ctx, id string, fns [][2]string) {
	c.clause(id, "T5", "cache keys are hashed from all of their components with a separator between any two numeric components (distinct chunks cannot share a key)", len(fns))
	for _, x := range fns {
		f := c.mustFn(x[0], x[1])
		if f == nil {
			continue
		}
		key := c.fnKey(f) + ":key-separated"
		var hashed ssa.Value
		for _, ci := range callsIn(f, func(id string, _ ssa.CallInstruction) bool {
			return strings.HasPrefix(id, "crypto/sha256.Sum") || strings.HasPrefix(id, "crypto/sha512.Sum") || id == "github.com/opencontainers/go-digest.FromBytes" || id == "github.com/opencontainers/go-digest.FromString"
		}) {
			hashed = ci.Common().Args[0]
		}
		if hashed == nil {
			c.unk(key, f.Pos(), "the key is not a hash of a formatted component list")
			continue
		}
		items, ok := formattedItems(hashed, 0)
		if !ok {
			c.unk(key, f.Pos(), "cannot read how the hashed bytes are assembled")
			continue
		}
		// items: "V" for a formatted value, "L" for a non-empty literal
		good, nv := true, 0
		prev := ""
		for _, it := range items {
			if it == "V" {
				nv++
				if prev == "V" {
					good = false
				}
			}
			prev = it
		}
		want := len(f.Params)
		if f.Signature.Recv() != nil {
			want = 0 // counted from the uses below
		}
		c.verdict(key, f.Pos(), good && nv >= 2 && nv >= want, "components are separated by literals", "two components of the cache key are concatenated without a separator: different (id, offset, size) tuples can hash to the same key and a cache hit returns another chunk's bytes")
	}
}

// formattedItems flattens the construction of a byte/string value into value ("V") and literal ("L") items.
func formattedItems(v ssa.Value, depth int) ([]string, bool) {
	v = stripConv(v)
	if depth > 8 {
		return nil, false
	}
	if s, ok := constString(v); ok {
		if s == "" {
			return nil, true
		}
		return []string{"L"}, true
	}
	switch x := v.(type) {
	case *ssa.Const:
		return nil, true // nil slice
	case *ssa.Slice:
		// buf[:0] of a fresh array
		if x.High != nil {
			if n, ok := constInt(x.High); ok && n == 0 {
				return nil, true
			}
		}
		return formattedItems(x.X, depth+1)
	case *ssa.BinOp:
		if x.Op != token.ADD {
			return nil, false
		}
		a, ok1 := formattedItems(x.X, depth+1)
		b, ok2 := formattedItems(x.Y, depth+1)
		return append(a, b...), ok1 && ok2
	case *ssa.Call:
		id := calleeID(x)
		switch {
		case id == "fmt.Sprintf" || id == "fmt.Appendf":
			fi := 0
			var pre []string
			if id == "fmt.Appendf" {
				fi = 1
				p, ok := formattedItems(x.Call.Args[0], depth+1)
				if !ok {
					return nil, false
				}
				pre = p
			}
			format, ok := constString(x.Call.Args[fi])
			if !ok {
				return nil, false
			}
			out := pre
			lit := false
			for i := 0; i < len(format); i++ {
				if format[i] == '%' && i+1 < len(format) {
					if format[i+1] == '%' {
						lit = true
						i++
						continue
					}
					if lit {
						out = append(out, "L")
						lit = false
					}
					// skip flags/width up to the verb
					j := i + 1
					for j < len(format) && strings.ContainsRune("+-# 0123456789.", rune(format[j])) {
						j++
					}
					out = append(out, "V")
					i = j
					continue
				}
				lit = true
			}
			if lit {
				out = append(out, "L")
			}
			return out, true
		case strings.HasPrefix(id, "strconv.Append"):
			a, ok := formattedItems(x.Call.Args[0], depth+1)
			return append(a, "V"), ok
		case strings.HasPrefix(id, "strconv.Format") || id == "strconv.Itoa":
			return []string{"V"}, true
		}
		if b, ok := x.Call.Value.(*ssa.Builtin); ok && b.Name() == "append" {
			a, ok1 := formattedItems(x.Call.Args[0], depth+1)
			if len(x.Call.Args) < 2 {
				return a, ok1
			}
			// appended elements: a constant string/byte slice counts as a literal, anything else as a value
			it := "V"
			if s, ok := constString(x.Call.Args[1]); ok && s != "" {
				it = "L"
			} else if va := varargs(x.Call.Args[1]); len(va) > 0 {
				allConst := true
				for _, e := range va {
					if _, ok := stripConv(e).(*ssa.Const); !ok {
						allConst = false
					}
				}
				if allConst {
					it = "L"
				}
			}
			return append(a, it), ok1
		}
		return nil, false
	case *ssa.Alloc:
		return nil, true // fresh buffer
	case *ssa.UnOp:
		if rv := reachingVals(v); len(rv) == 1 && rv[0] != v {
			return formattedItems(rv[0], depth+1)
		}
		return []string{"V"}, true
	case *ssa.Parameter, *ssa.Field, *ssa.FieldAddr, *ssa.Extract:
		return []string{"V"}, true
	}
	return nil, false
}

// clausePreReadAccounting: estargz.(*fileReader).ReadAt hands neighbouring chunks of a shared stream to the pre-read
// callback; the stream position it keeps must advance by what the callback really consumed (a callback may return
// without draining, e.g. when the chunk is already cached).
func clausePreReadAccounting(c *Ctx, id string) {
	c.clause(id, "T9", "after a neighbouring chunk was offered to the pre-read callback the stream position advances by the bytes actually consumed (counting wrapper), or the rest of the chunk is drained first", 1)
	f := c.mustFn("estargz", "(*fileReader).ReadAt")
	if f == nil {
		return
	}
	var pre *ssa.Call
	eachInstr(f, func(i ssa.Instruction) {
		if call, ok := i.(*ssa.Call); ok {
			if _, ok := isFieldLoadAny(call.Call.Value, "preRead"); ok {
				pre = call
			}
		}
	})
	if pre == nil {
		c.unk(c.fnKey(f)+":pre-read", f.Pos(), "pre-read callback is no longer invoked here")
		return
	}
	rd := stripConv(pre.Call.Args[len(pre.Call.Args)-1])
	if mi, ok := rd.(*ssa.MakeInterface); ok {
		rd = stripConv(mi.X)
	}
	// the first addition to the position after the callback
	good, n := false, 0
	eachInstr(f, func(i ssa.Instruction) {
		b, ok := i.(*ssa.BinOp)
		if !ok || b.Op != token.ADD || !dominatesInstr(pre, b) {
			return
		}
		carried := false
		for _, r := range *b.Referrers() {
			if _, ok := r.(*ssa.Phi); ok {
				carried = true
			}
		}
		if !carried {
			return
		}
		n++
		add := stripConv(b.Y)
		// (a) the counter of the wrapper that was handed to the callback
		if fa, ok := loadOfField(add); ok && stripConv(fa.X) == rd {
			good = true
			return
		}
		// (b) the chunk size, after draining what the callback left
		if _, ok := isFieldLoadAny(add, "ChunkSize"); ok {
			for _, d := range callsIn(f, idIs("io.Copy", "io.CopyN")) {
				if g, ok := loadOf(stripConv(d.Common().Args[0])); ok {
					if gl, ok := g.(*ssa.Global); !ok || gl.Name() != "Discard" {
						continue
					}
				} else if mi, ok := stripConv(d.Common().Args[0]).(*ssa.MakeInterface); ok {
					_ = mi
				}
				src := stripConv(d.Common().Args[1])
				if mi, ok := src.(*ssa.MakeInterface); ok {
					src = stripConv(mi.X)
				}
				if (src == rd || sameValue(src, pre.Call.Args[len(pre.Call.Args)-1])) && dominatesInstr(pre, d) && dominatesInstr(d, b) {
					good = true
				}
			}
		}
	})
	c.verdict(c.fnKey(f)+":position-after-pre-read", pre.Pos(), good && n > 0, "position advances by the consumed byte count", "after the pre-read callback the position advances by the chunk size although the callback may not have consumed the chunk: the following chunks (and the requested one) are read from the wrong offset of the stream")
}

// clauseDirLinkCount: TOCEntry.addChild counts the ".." link of every sub-directory it is given.
func clauseDirLinkCount(c *Ctx, id string) {
	c.clause(id, "T1", "addChild counts a '..' link for every child of type dir: the increment can be bypassed only on the 'not a directory' edge (the bolt store's setChild counts the same way)", 1)
	f := c.mustFn("estargz", "(*TOCEntry).addChild")
	if f == nil {
		return
	}
	var incs []ssa.Instruction
	eachInstr(f, func(i ssa.Instruction) {
		if st, ok := i.(*ssa.Store); ok {
			if fa, ok := st.Addr.(*ssa.FieldAddr); ok && fieldName(fa) == "NumLink" {
				incs = append(incs, i)
			}
		}
	})
	notDir := condEdges(f, func(cond ssa.Value) int {
		b, ok := cond.(*ssa.BinOp)
		if !ok || (b.Op != token.EQL && b.Op != token.NEQ) {
			return 0
		}
		for _, pair := range [][2]ssa.Value{{b.X, b.Y}, {b.Y, b.X}} {
			if _, ok := isFieldLoadAny(pair[0], "Type"); ok {
				if s, ok := constString(pair[1]); ok && s == "dir" {
					if b.Op == token.EQL {
						return -1
					}
					return 1
				}
			}
		}
		return 0
	})
	if len(incs) == 0 || len(notDir) == 0 {
		c.bad(c.fnKey(f)+":dir-link", f.Pos(), "addChild no longer counts the '..' link of sub-directories")
		return
	}
	hit, path := reach(f, nil, isReturn, newCuts().addInstr(incs...).addEdges(notDir))
	c.verdict(c.fnKey(f)+":dir-link", f.Pos(), hit == nil, "every directory child increments the parent's link count", "a directory child can be registered without counting its '..' link (e.g. when the name is registered twice): the memory store reports another nlink than the bolt store: "+c.pathStr(f, path))
}

// clauseMountRegistrationRolledBack: (*filesystem).Mount registers the layer under the mountpoint before the FUSE server is
// up; when a later step fails, the layer reference is dropped (l.Done()), so the registration must be dropped as well:
// Check(mountpoint) answers from that table.
func clauseMountRegistrationRolledBack(c *Ctx, id string) {
	c.clause(id, "T2", "every error exit of filesystem.Mount after fs.layer[mountpoint] was set removes that entry again (directly or by a deferred function acting only on failure): Check must not find a layer for a mountpoint whose mount failed", 1)
	f := c.mustFn("fs", "(*filesystem).Mount")
	if f == nil {
		return
	}
	isLayerMap := func(v ssa.Value) bool {
		_, ok := isFieldLoadAny(v, "layer")
		return ok
	}
	var reg ssa.Instruction
	eachInstr(f, func(i ssa.Instruction) {
		if mu, ok := i.(*ssa.MapUpdate); ok && isLayerMap(mu.Map) {
			reg = i
		}
	})
	if reg == nil {
		c.unk(c.fnKey(f)+":registration", f.Pos(), "Mount no longer registers the layer in fs.layer")
		return
	}
	isDelete := func(i ssa.Instruction) bool {
		call, ok := i.(*ssa.Call)
		if !ok {
			return false
		}
		b, ok := call.Call.Value.(*ssa.Builtin)
		return ok && b.Name() == "delete" && isLayerMap(call.Call.Args[0])
	}
	// a deferred literal that deletes the entry only when the named error result is set
	var rollbacks []ssa.Instruction
	eachInstr(f, func(i ssa.Instruction) {
		d, ok := i.(*ssa.Defer)
		if !ok {
			return
		}
		mc, ok := d.Call.Value.(*ssa.MakeClosure)
		if !ok {
			return
		}
		lit := mc.Fn.(*ssa.Function)
		failed := condEdges(lit, func(cond ssa.Value) int {
			b, ok := cond.(*ssa.BinOp)
			if !ok || (b.Op != token.NEQ && b.Op != token.EQL) || !isNilConst(b.Y) {
				return 0
			}
			p, ok := loadOf(stripConv(b.X))
			if !ok {
				return 0
			}
			fv, ok := p.(*ssa.FreeVar)
			if !ok || !isErrorType(deref(fv.Type())) {
				return 0
			}
			if b.Op == token.NEQ {
				return 1
			}
			return -1
		})
		okDel := false
		eachInstr(lit, func(j ssa.Instruction) {
			if isDelete(j) {
				if o, _ := mustPass(lit, j, newCuts().addEdges(failed)); o && len(failed) > 0 {
					okDel = true
				}
			}
		})
		if okDel {
			rollbacks = append(rollbacks, d)
		}
	})
	var direct []ssa.Instruction
	eachInstr(f, func(i ssa.Instruction) {
		if isDelete(i) {
			direct = append(direct, i)
		}
	})
	good := true
	detail := ""
	n := 0
	for _, r := range realReturns(f) {
		if returnsNilError(r) {
			continue
		}
		if hit, _ := reach(f, reg, isInstr(r), nil); hit == nil {
			continue
		}
		n++
		// covered by a rollback defer registered on every path to this return, or by a direct delete after the registration
		covered := false
		for _, d := range rollbacks {
			if dominatesInstr(d, r) {
				covered = true
			}
		}
		if !covered {
			if hit, path := reach(f, reg, isInstr(r), newCuts().addInstr(direct...)); hit == nil {
				covered = true
			} else {
				detail = c.pathStr(f, path)
			}
		}
		if !covered {
			good = false
		}
	}
	c.verdict(c.fnKey(f)+":registration-rolled-back", reg.Pos(), good && n > 0, "failed mounts leave no entry in fs.layer", "Mount can fail after registering the layer (FUSE server or WaitMount error) and leaves fs.layer[mountpoint] pointing at a layer whose reference was already dropped: Check(mountpoint) then reports an unmounted directory as available: "+detail)
}

// clauseTreeBuilderParity: structural agreement of the two tree builders (estargz.(*Reader).initFields for the memory
// store, db.(*reader).initNodes for the bolt store) on two points the TOC order can hit.
func clauseTreeBuilderParity(c *Ctx, id string) {
	const dbp = "cmd/containerd-stargz-grpc/db"
	c.clause(id, "T5+T1", "both tree builders link an entry under its parent only when its name differs from its parent's (the root entry is not its own child), and the bolt builder counts the parent's link of a directory that it created implicitly only once when the directory's own entry arrives", 3)
	notSelf := func(f *ssa.Function) []edge {
		return condEdges(f, func(cond ssa.Value) int {
			b, ok := cond.(*ssa.BinOp)
			if !ok || (b.Op != token.EQL && b.Op != token.NEQ) {
				return 0
			}
			isPD := func(v ssa.Value) bool {
				for _, x := range append([]ssa.Value{v}, reachingVals(v)...) {
					if call, ok := stripConv(x).(*ssa.Call); ok && strings.HasSuffix(calleeID(call), ".parentDir") {
						return true
					}
				}
				return false
			}
			if !(isPD(b.X) != isPD(b.Y)) {
				return 0
			}
			if b.Op == token.NEQ {
				return 1
			}
			return -1
		})
	}
	// memory store
	if f := c.mustFn("estargz", "(*Reader).initFields"); f != nil {
		ne := notSelf(f)
		for _, ci := range callsIn(f, idIs("estargz.(*TOCEntry).addChild")) {
			okp, _ := mustPass(f, ci, newCuts().addEdges(ne))
			c.verdict(c.fnKey(f)+":no-self-child", ci.Pos(), okp && len(ne) > 0, "linked only when name != parentDir(name)", "the memory tree builder can link the root entry as a child of itself")
		}
	}
	// bolt store: the entry-level setChild of initNodes (inside the Batch literal)
	if f := c.mustFn(dbp, "(*reader).initNodes"); f != nil {
		n := 0
		for _, lit := range withAnon(f) {
			ne := notSelf(lit)
			for _, ci := range callsIn(lit, idIs(dbp+".setChild")) {
				n++
				okp, path := mustPass(lit, ci, newCuts().addEdges(ne))
				c.verdict(c.fnKey(lit)+":no-self-child", ci.Pos(), okp && len(ne) > 0, "linked only when name != parentDir(name)", "the bolt tree builder links an entry for the root directory itself (./) as child . of the root: a directory cycle (walks never end) and one link too many, while the memory store skips such entries: "+c.pathStr(lit, path))
				// the isDir argument takes into account whether the directory was created implicitly before
				args := ci.Common().Args
				isDir := args[len(args)-1]
				dep := false
				var walk func(v ssa.Value, d int)
				seen := map[ssa.Value]bool{}
				walk = func(v ssa.Value, d int) {
					v = stripConv(v)
					if v == nil || d > 8 || seen[v] {
						return
					}
					seen[v] = true
					if _, ok := isFieldLoadAny(v, "implicit"); ok {
						dep = true
						return
					}
					switch x := v.(type) {
					case *ssa.BinOp:
						walk(x.X, d+1)
						walk(x.Y, d+1)
					case *ssa.UnOp:
						if x.Op == token.NOT {
							walk(x.X, d+1)
						}
						for _, rv := range reachingVals(v) {
							if rv != v {
								walk(rv, d+1)
							}
						}
					case *ssa.Phi:
						for _, e := range x.Edges {
							walk(e, d+1)
						}
						// a phi of constants chosen by a branch on the flag
						for _, p := range x.Block().Preds {
							if iff, ok := p.Instrs[len(p.Instrs)-1].(*ssa.If); ok {
								walk(iff.Cond, d+1)
							}
							for _, pp := range p.Preds {
								if iff, ok := pp.Instrs[len(pp.Instrs)-1].(*ssa.If); ok {
									walk(iff.Cond, d+1)
								}
							}
						}
					}
				}
				walk(isDir, 0)
				c.verdict(c.fnKey(lit)+":implicit-dir-counted-once", ci.Pos(), dep, "whether the parent's link is counted depends on the directory having been created implicitly before", "the bolt tree builder counts the parent's '..' link again when the own entry of an implicitly created directory arrives (child listed before its directory): parent nlink is one higher than in the memory store")
			}
		}
		if n == 0 {
			c.bad(c.fnKey(f)+":links", f.Pos(), "initNodes no longer links entries through setChild")
		}
	}
	if f := c.mustFn(dbp, "(*reader).getOrCreateDir"); f != nil {
		marks := false
		eachInstr(f, func(i ssa.Instruction) {
			if st, ok := i.(*ssa.Store); ok {
				if fa, ok := st.Addr.(*ssa.FieldAddr); ok && fieldName(fa) == "implicit" && isConstBool(st.Val, true) {
					marks = true
				}
			}
		})
		c.verdict(c.fnKey(f)+":marks-implicit", f.Pos(), marks, "implicitly created directories are remembered as such", "implicitly created directories are not distinguished from listed ones (their parent link gets counted twice)")
	}
}

// clauseLayerClosedOnlyByOwner: a layer object shared through the resolver's cache is closed only by the cache's
// eviction hook (which runs when the last reference is gone); the only other close is of a freshly built layer that lost
// the race for the cache slot.
func clauseLayerClosedOnlyByOwner(c *Ctx, id string) {
	const lp = "fs/layer"
	c.clause(id, "T3+T9", "(*layer).close is called only from the cache eviction hooks, or on a layer object built by the same call that was not added to the cache", 2)
	for _, s := range c.callSitesOf(idIs(lp+".(*layer).close"), c.liveFuncs()) {
		call := s.instr.(ssa.CallInstruction)
		key := c.fnKey(s.caller) + ":layer.close"
		root := enclosingRoot(s.caller)
		if s.caller.Parent() != nil && c.fnKey(root) == lp+".NewResolver" {
			// a literal of NewResolver: must be installed as an OnEvicted hook
			hook := false
			for _, u := range literalUses(s.caller) {
				if st, ok := u.(*ssa.Store); ok {
					if fa, ok := st.Addr.(*ssa.FieldAddr); ok && fieldName(fa) == "OnEvicted" {
						hook = true
					}
				}
			}
			c.verdict(key, s.instr.Pos(), hook, "closed by the eviction hook", "a literal of NewResolver closes a layer without being the cache's eviction hook")
			continue
		}
		recv := stripConv(call.Common().Args[0])
		fresh := false
		for _, v := range append([]ssa.Value{recv}, reachingVals(recv)...) {
			if cc, ok := stripConv(v).(*ssa.Call); ok && calleeID(cc) == lp+".newLayer" {
				fresh = true
			}
		}
		c.verdict(key, s.instr.Pos(), fresh, "closes the layer this call built itself (not the cached one)", "a layer obtained from the shared cache is closed directly: other holders (the store's layer manager, other mounts) keep using a closed layer until it expires")
	}
}

// clauseCloneNotClosed: the bolt store's Clone shares the filesystem bucket with the original reader and its Close
// deletes that bucket, so a cloned metadata reader must never be closed by its user.
func clauseCloneNotClosed(c *Ctx, id string) {
	c.clause(id, "T9", "a metadata reader obtained from Clone is never closed by its user (the bolt store's clone shares the original's bucket, which Close deletes)", 1)
	n := 0
	for _, f := range c.liveFuncs() {
		for _, cl := range callsIn(f, func(id string, ci ssa.CallInstruction) bool {
			return ci.Common().IsInvoke() && ci.Common().Method.Name() == "Clone" && typeQName(ci.Common().Value.Type()) == "metadata.Reader"
		}) {
			n++
			clone := resultN(cl, 0)
			bad := false
			root := enclosingRoot(f)
			for _, g := range withAnon(root) {
				eachInstr(g, func(i ssa.Instruction) {
					ci, ok := i.(ssa.CallInstruction)
					if !ok || !ci.Common().IsInvoke() || ci.Common().Method.Name() != "Close" {
						return
					}
					recv := ci.Common().Value
					for _, v := range append(append([]ssa.Value{recv}, reachingVals(recv)...), phiLeaves(recv)...) {
						if clone != nil && stripConv(v) == stripConv(clone) {
							bad = true
						}
					}
					for _, v := range reachingCellVals(recv) {
						if clone != nil && stripConv(v) == stripConv(clone) {
							bad = true
						}
					}
				})
			}
			c.verdict(c.fnKey(f)+":clone-not-closed", cl.Pos(), !bad, "the cloned reader is only read from", "the cloned metadata reader is closed: with the bolt store this deletes the metadata of the layer that is still mounted")
		}
	}
	if n == 0 {
		c.okTrivial("no-clone", token.NoPos, "no Clone call in live code")
	}
}

// clauseCommitNoEffectWhenClosed: a directory cache that was closed (its directory removed) is not re-created by a late commit.
func clauseCommitNoEffectWhenClosed(c *Ctx, id string) {
	c.clause(id, "T1", "the commit function of a directory-cache writer touches the file system (MkdirAll, Rename) only after it has seen the cache open", 2)
	f := c.mustFn("cache", "(*directoryCache).Add")
	if f == nil {
		return
	}
	n := 0
	for _, lit := range c.withHelpers(f) {
		open := condEdges(lit, func(cond ssa.Value) int {
			if call, ok := stripConv(cond).(*ssa.Call); ok && calleeID(call) == "cache.(*directoryCache).isClosed" {
				return -1
			}
			return 0
		})
		for _, ci := range callsIn(lit, idIs("os.MkdirAll", "os.Rename")) {
			n++
			okp, _ := mustPass(lit, ci, newCuts().addEdges(open))
			c.verdict(c.fnKey(lit)+":"+calleeID(ci)+"-after-open-check", ci.Pos(), okp && len(open) > 0, "behind the !isClosed() edge", "the commit creates the cache directory (or publishes the file) before checking that the cache is still open: a commit finishing after the layer was released re-creates the removed cache directory")
		}
	}
	if n == 0 {
		c.bad(c.fnKey(f)+":commit-effects", f.Pos(), "commit function no longer found")
	}
}

// clauseURLInstalledOnSuccess: the fetcher's redirected URL and header are replaced only by a successful redirect.
func clauseURLInstalledOnSuccess(c *Ctx, id string) {
	const rp = "fs/remote"
	c.clause(id, "T1", "httpFetcher.url/header are overwritten by refreshURL only on the success edge of redirect()", 2)
	f := c.mustFn(rp, "(*httpFetcher).refreshURL")
	if f == nil {
		return
	}
	var se []edge
	for _, ci := range callsIn(f, idIs(rp+".redirect")) {
		se = append(se, successEdges(f, ci)...)
	}
	n := 0
	for _, fld := range []string{"url", "header"} {
		for _, a := range c.fieldAccesses(rp+".httpFetcher", fld, []*ssa.Function{f}) {
			if !a.write {
				continue
			}
			n++
			okp, _ := mustPass(f, a.instr, newCuts().addEdges(se))
			c.verdict(c.fnKey(f)+":"+fld+"-on-success", a.instr.Pos(), okp && len(se) > 0, "stored only after redirect() succeeded", "a failed redirect overwrites the fetcher's "+fld+" (with the zero value): the held layer cannot reach its blob any more although the registry recovers")
		}
	}
	if n == 0 {
		c.bad(c.fnKey(f)+":stores", f.Pos(), "refreshURL no longer installs the redirected URL")
	}
}

// clauseDetachWithChildren: a persistent directory node of the store is detached together with its children.
func clauseDetachWithChildren(c *Ctx, id string) {
	c.clause(id, "T2", "store: a layer directory node is removed from its parent only after its own children were removed (persistent inodes would otherwise survive and answer lookups for a released layer)", 1)
	n := 0
	for _, f := range c.pkgFuncs("store") {
		for _, rm := range callsIn(f, func(id string, _ ssa.CallInstruction) bool {
			return strings.HasSuffix(id, "go-fuse/v2/fs.(*Inode).RmChild")
		}) {
			n++
			// a RmAllChildren call on the result of GetChild(same name) dominates it
			good := false
			names := varargs(rm.Common().Args[len(rm.Common().Args)-1])
			for _, all := range callsIn(f, func(id string, _ ssa.CallInstruction) bool {
				return strings.HasSuffix(id, "go-fuse/v2/fs.(*Inode).RmAllChildren")
			}) {
				gc, ok := stripConv(all.Common().Args[0]).(*ssa.Call)
				if !ok || !strings.HasSuffix(calleeID(gc), "go-fuse/v2/fs.(*Inode).GetChild") {
					continue
				}
				same := false
				for _, nm := range names {
					if sameValue(nm, gc.Call.Args[len(gc.Call.Args)-1]) {
						same = true
					}
				}
				if same && dominatesInstr(all, rm) {
					good = true
				}
			}
			c.verdict(c.fnKey(f)+":detach-with-children", rm.Pos(), good, "children removed before the node is detached", "a layer directory node is detached without removing its children: a client holding the old directory gets the stale diff/blob nodes of a released layer")
		}
	}
	if n == 0 {
		c.bad("store:detach", token.NoPos, "the store no longer detaches released layer directories")
	}
}

// clauseClientPropagatesRPCErrors: the fuse-manager client reports success only when the manager's RPC succeeded.
func clauseClientPropagatesRPCErrors(c *Ctx, id string) {
	const fp = "fusemanager"
	c.clause(id, "T1", "every fuse-manager client function that issues the Init, Mount, Check or Unmount RPC returns nil only on the success edge of that RPC: a failed initialisation/restoration or mount is reported to the snapshotter", 4)
	for _, f := range c.pkgFuncs(fp) {
		if f.Parent() != nil {
			continue
		}
		for _, want := range []string{"Init", "Mount", "Check", "Unmount"} {
			var se []edge
			var rpc ssa.CallInstruction
			for _, ci := range callsIn(f, func(_ string, ci ssa.CallInstruction) bool {
				return ci.Common().IsInvoke() && ci.Common().Method.Name() == want && strings.HasSuffix(typeQName(ci.Common().Value.Type()), "StargzFuseManagerServiceClient")
			}) {
				rpc = ci
				se = append(se, successEdges(f, ci)...)
			}
			if rpc == nil {
				continue
			}
			// the function must have an error result
			res := f.Signature.Results()
			if res.Len() == 0 || !isErrorType(res.At(res.Len()-1).Type()) {
				c.bad(c.fnKey(f)+":rpc-error-propagated:"+want, rpc.Pos(), "the "+want+" RPC is issued by a function that cannot report its failure")
				continue
			}
			good, n := len(se) > 0, 0
			detail := ""
			for _, r := range realReturns(f) {
				if !returnsNilError(r) {
					continue
				}
				// only returns that lie after the RPC
				if hit, _ := reach(f, rpc, isInstr(r), nil); hit == nil {
					continue
				}
				n++
				if o, path := mustPass(f, r, newCuts().addEdges(se)); !o {
					good = false
					detail = c.pathStr(f, path)
				}
			}
			c.verdict(c.fnKey(f)+":rpc-error-propagated:"+want, rpc.Pos(), good && n > 0, "nil only after the "+want+" RPC succeeded", "the client can report success although the "+want+" RPC failed (e.g. a restoration that failed during Init): the snapshotter starts with recorded mountpoints that nothing serves: "+detail)
		}
	}
}

// clauseFreshDecodeTarget: records restored from the store are decoded into a value of their own.
func clauseFreshDecodeTarget(c *Ctx, id string) {
	const fp = "fusemanager"
	c.clause(id, "T9", "restoreFuseInfo decodes every record into a value allocated for that record (json.Unmarshal merges into existing maps: a shared target would carry labels from one mountpoint to the next)", 1)
	f := c.mustFn(fp, "(*Server).restoreFuseInfo")
	if f == nil {
		return
	}
	n := 0
	for _, lit := range withAnon(f) {
		for _, ci := range callsIn(lit, idIs("encoding/json.Unmarshal")) {
			n++
			tgt := stripConv(ci.Common().Args[1])
			if mi, ok := tgt.(*ssa.MakeInterface); ok {
				tgt = stripConv(mi.X)
			}
			fresh := false
			if al, ok := tgt.(*ssa.Alloc); ok && al.Parent() == lit {
				// not inside an enclosing loop of the same function that would reuse it: an Alloc executes per evaluation
				fresh = true
			}
			c.verdict(c.fnKey(lit)+":decode-target", ci.Pos(), fresh, "decoded into a value allocated per record", "records are decoded into a value shared between iterations: labels of an earlier mountpoint survive in the map and are used to re-mount a later one")
		}
	}
	if n == 0 {
		c.bad(c.fnKey(f)+":decode", f.Pos(), "restoreFuseInfo no longer decodes records")
	}
}

// clauseHubAliasOnContactedHost: the Docker Hub credential alias is applied according to the host being contacted.
func clauseHubAliasOnContactedHost(c *Ctx, id string) {
	const cri = "service/keychain/cri"
	c.clause(id, "T9", "the Docker Hub alias (index.docker.io) is selected by the host that is being contacted (the host parameter), never by the image's own registry", 2)
	f := c.mustFn(cri, "(*instrumentedService).credentials")
	if f == nil {
		return
	}
	n := 0
	eachInstr(f, func(i ssa.Instruction) {
		b, ok := i.(*ssa.BinOp)
		if !ok || b.Op != token.EQL {
			return
		}
		for _, pair := range [][2]ssa.Value{{b.X, b.Y}, {b.Y, b.X}} {
			s, ok := constString(pair[1])
			if !ok || (s != "docker.io" && s != "registry-1.docker.io") {
				continue
			}
			n++
			good := false
			for _, v := range append([]ssa.Value{pair[0]}, reachingVals(pair[0])...) {
				if p, ok := stripConv(v).(*ssa.Parameter); ok && len(f.Params) > 1 && p == f.Params[1] {
					good = true
				}
			}
			c.verdict(c.fnKey(f)+":alias-by-contacted-host:"+s, b.Pos(), good, "alias chosen by the contacted host", "the Docker Hub alias is chosen by the image's registry instead of the contacted host: Hub credentials are offered to mirrors, redirect targets and any other host contacted for a docker.io image")
		}
	})
	if n == 0 {
		c.bad(c.fnKey(f)+":alias", f.Pos(), "Docker Hub alias handling not found")
	}
}

// clauseSinglePartLabelFromHeader / clauseCacheHitComplete: two premises of byte-exact blob reads.
func clauseRangeLabelAndCompleteHit(c *Ctx, id string) {
	const rp = "fs/remote"
	c.clause(id, "T9+T1", "a single-part 206 body is labelled with the range parsed from its Content-Range header (not with the range that was asked for); a blob-cache hit counts only when the whole requested length was read", 2)
	if f := c.mustFn(rp, "(*httpFetcher).fetch"); f != nil {
		n := 0
		for _, ci := range callsIn(f, idIs(rp+".newSinglePartReader")) {
			n++
			reg := ci.Common().Args[0]
			good := false
			for _, v := range append([]ssa.Value{reg}, reachingVals(reg)...) {
				if ex, ok := stripConv(v).(*ssa.Extract); ok {
					if pc, ok := ex.Tuple.(*ssa.Call); ok && calleeID(pc) == rp+".parseRange" {
						// and parseRange's argument is the Content-Range header of the response
						if hg, ok := stripConv(pc.Call.Args[0]).(*ssa.Call); ok && strings.HasSuffix(calleeID(hg), "Header).Get") {
							if s, ok := constString(hg.Call.Args[1]); ok && s == "Content-Range" {
								good = true
							}
						}
					}
				}
				// the whole-body case: region [0, size-1] built from the blob size is also a truthful label
				if call, ok := stripConv(v).(*ssa.Call); ok && calleeID(call) != rp+".parseRange" {
					_ = call
				}
			}
			// 200 OK whole body: labelled region{0, size-1}
			if !good {
				if okWhole := wholeBodyRegion(reg); okWhole {
					good = true
				}
			}
			c.verdict(c.fnKey(f)+":single-part-label", ci.Pos(), good, "label = parsed Content-Range (or the whole blob for 200)", "a partial response is labelled with the requested range instead of the range the server says it sent: a CDN answering with a widened range makes ReadAt return shifted bytes and poisons the cache")
		}
		if n == 0 {
			c.bad(c.fnKey(f)+":single-part", f.Pos(), "single-part responses are no longer handled")
		}
	}
	if f := c.mustFn(rp, "(*blob).readFromCache"); f != nil {
		var full []edge
		n := 0
		for _, ci := range callsIn(f, func(_ string, ci ssa.CallInstruction) bool {
			return ci.Common().IsInvoke() && ci.Common().Method.Name() == "ReadAt"
		}) {
			n++
			cnt := resultN(ci, 0)
			full = append(full, condEdges(f, func(cond ssa.Value) int {
				b, ok := cond.(*ssa.BinOp)
				if !ok || (b.Op != token.EQL && b.Op != token.NEQ) {
					return 0
				}
				isCnt := func(v ssa.Value) bool { return cnt != nil && flowsFrom(stripConv(v), cnt, 0) }
				isLen := func(v ssa.Value) bool {
					call, ok := stripConv(v).(*ssa.Call)
					if !ok {
						return false
					}
					bi, ok := call.Call.Value.(*ssa.Builtin)
					return ok && bi.Name() == "len"
				}
				if (isCnt(b.X) && isLen(b.Y)) || (isCnt(b.Y) && isLen(b.X)) {
					if b.Op == token.EQL {
						return 1
					}
					return -1
				}
				return 0
			})...)
		}
		good := n > 0 && len(full) > 0
		for _, r := range realReturns(f) {
			if returnsNilError(r) {
				if o, _ := mustPass(f, r, newCuts().addEdges(full)); !o {
					good = false
				}
			}
		}
		c.verdict(c.fnKey(f)+":complete-hit", f.Pos(), good, "a hit requires n == len(dest)", "a short read from the blob cache (truncated cache file) counts as a hit: ReadAt succeeds with zeros for the missing tail instead of refetching the chunk")
	}
}

func wholeBodyRegion(v ssa.Value) bool {
	// region{0, size-1}: a struct literal / field stores whose b is the constant 0
	for _, x := range append([]ssa.Value{v}, reachingVals(v)...) {
		x = stripConv(x)
		if ld, ok := x.(*ssa.UnOp); ok {
			if al, ok := ld.X.(*ssa.Alloc); ok {
				for _, r := range *al.Referrers() {
					if fa, ok := r.(*ssa.FieldAddr); ok && fieldName(fa) == "b" {
						for _, rr := range *fa.Referrers() {
							if st, ok := rr.(*ssa.Store); ok {
								if k, ok := constInt(st.Val); ok && k == 0 {
									return true
								}
							}
						}
					}
				}
			}
		}
	}
	return false
}

// ---- round-2 clauses for C02/C03/C07/C19 ----

// clauseLookupMemoryNodeAttrs: a repeated LOOKUP answered from the live child inode reports that child's attributes.
func clauseLookupMemoryNodeAttrs(c *Ctx, id string) {
	const lp = "fs/layer"
	c.clause(id, "T9", "node.Lookup answers a name whose inode is still alive from that child's own id and attributes (never from the directory's)", 2)
	f := c.mustFn(lp, "(*node).Lookup")
	if f == nil {
		return
	}
	gc := callsIn(f, func(id string, _ ssa.CallInstruction) bool {
		return strings.HasSuffix(id, "go-fuse/v2/fs.(*Inode).GetChild")
	})
	if len(gc) == 0 {
		c.unk(c.fnKey(f)+":memory-node", f.Pos(), "lookup on live child inodes not found")
		return
	}
	// the receiver's own attr field must not be an argument of entryToAttr/entryToWhAttr on a path from GetChild's non-nil edge
	n := 0
	for _, ci := range callsIn(f, idIs(lp+".entryToAttr", lp+".entryToWhAttr")) {
		if !dominatesInstr(gc[0], ci) {
			continue
		}
		// only the calls in the memory-node branch: they precede the metadata GetChild calls
		meta := callsIn(f, func(_ string, x ssa.CallInstruction) bool {
			return x.Common().IsInvoke() && x.Common().Method.Name() == "GetChild"
		})
		early := true
		for _, m := range meta {
			if dominatesInstr(m, ci) {
				early = false
			}
		}
		if !early {
			continue
		}
		n++
		attr := ci.Common().Args[1]
		own := false
		for _, v := range append([]ssa.Value{attr}, reachingVals(attr)...) {
			if fa, ok := loadOfField(v); ok && fieldName(fa) == "attr" {
				if p, ok := stripConv(fa.X).(*ssa.Parameter); ok && p == f.Params[0] {
					own = true
				}
			}
		}
		c.verdict(c.fnKey(f)+":live-child-attrs", ci.Pos(), !own, "attributes of the child node", "a lookup answered from the live child inode is filled with the directory's own attributes: the second lookup of a file reports a directory (mode 0755, size 0)")
	}
	if n == 0 {
		c.unk(c.fnKey(f)+":live-child-attrs", f.Pos(), "attribute conversion in the live-child branch not found")
	}
}

// clauseResetCoversDecodedFields: the bolt store decodes every TOC entry into one reused value; resetEnt must clear every
// field encoding/json can set, otherwise a field absent from one entry keeps the previous entry's value.
func clauseResetCoversDecodedFields(c *Ctx, id string) {
	const dbp = "cmd/containerd-stargz-grpc/db"
	c.clause(id, "T5", "resetEnt clears every JSON-decoded field of estargz.TOCEntry (the decode target is reused; json leaves absent keys and merges maps)", 1)
	f := c.mustFn(dbp, "resetEnt")
	nt := c.namedType("estargz.TOCEntry")
	if f == nil || nt == nil {
		return
	}
	st, ok := nt.Underlying().(*types.Struct)
	if !ok {
		return
	}
	set := map[string]bool{}
	eachInstr(f, func(i ssa.Instruction) {
		if s, ok := i.(*ssa.Store); ok {
			if fa, ok := s.Addr.(*ssa.FieldAddr); ok {
				set[fieldName(fa)] = true
			}
		}
	})
	var missing []string
	for i := 0; i < st.NumFields(); i++ {
		fl := st.Field(i)
		tag := reflectTagJSON(st.Tag(i))
		if !fl.Exported() || tag == "-" {
			continue
		}
		if !set[fl.Name()] {
			missing = append(missing, fl.Name())
		}
	}
	c.verdict(c.fnKey(f)+":covers-json-fields", f.Pos(), len(missing) == 0, "every decoded field is reset", "resetEnt leaves decoded fields untouched ("+strings.Join(missing, ", ")+"): values (e.g. xattrs) of one TOC entry leak into the following entries in the bolt store only")
}

func reflectTagJSON(tag string) string {
	i := strings.Index(tag, `json:"`)
	if i < 0 {
		return ""
	}
	rest := tag[i+6:]
	j := strings.Index(rest, `"`)
	if j < 0 {
		return ""
	}
	return strings.Split(rest[:j], ",")[0]
}

// clauseOwnerNameDedup: the writer omits a user/group name only when it equals the name last written for that id.
func clauseOwnerNameDedup(c *Ctx, id string) {
	c.clause(id, "T2", "nameIfChanged remembers the name it returns: every return of a non-empty name passes the map update for that id (readers fill an omitted name with the last one they saw); a name is omitted only when it equals the remembered one", 2)
	f := c.mustFn("estargz", "(*Writer).nameIfChanged")
	if f == nil {
		return
	}
	var ups []ssa.Instruction
	eachInstr(f, func(i ssa.Instruction) {
		if mu, ok := i.(*ssa.MapUpdate); ok {
			if p, ok := stripConv(mu.Value).(*ssa.Parameter); ok && p.Name() == "name" {
				ups = append(ups, i)
			}
		}
	})
	good, n := len(ups) > 0, 0
	for _, r := range realReturns(f) {
		for _, v := range retVals(r, 0) {
			if s, ok := constString(v); ok && s == "" {
				continue
			}
			n++
			if o, _ := mustPass(f, r, newCuts().addInstr(ups...)); !o {
				good = false
			}
		}
	}
	// converse: a name is omitted only when it is empty or equals the value read from the map for that id
	isName := func(v ssa.Value) bool {
		p, ok := stripConv(v).(*ssa.Parameter)
		return ok && p.Name() == "name"
	}
	fromMap := func(v ssa.Value) bool {
		v = stripConv(v)
		if e, ok := v.(*ssa.Extract); ok {
			v = e.Tuple
		}
		_, ok := v.(*ssa.Lookup)
		return ok
	}
	eq := condEdges(f, func(cond ssa.Value) int {
		b, ok := cond.(*ssa.BinOp)
		if !ok || (b.Op != token.EQL && b.Op != token.NEQ) {
			return 0
		}
		other := b.Y
		if !isName(b.X) {
			if !isName(b.Y) {
				return 0
			}
			other = b.X
		}
		if s, isC := constString(other); !(isC && s == "") && !fromMap(other) {
			return 0
		}
		if b.Op == token.EQL {
			return 1
		}
		return -1
	})
	omitOK, nOmit := true, 0
	for _, r := range realReturns(f) {
		for _, v := range retVals(r, 0) {
			if s, ok := constString(v); ok && s == "" {
				nOmit++
				if o, _ := mustPass(f, r, newCuts().addEdges(eq)); !o || len(eq) == 0 {
					omitOK = false
				}
			}
		}
	}
	c.verdict(c.fnKey(f)+":omits-only-equal-name", f.Pos(), omitOK && nOmit > 0, "a name is omitted only when empty or equal to the name recorded for the id", "a name is omitted although it differs from the name last written for that id (e.g. whenever any name was recorded): after alice, bob for one uid readers report alice for both while the tar header says bob")
	c.verdict(c.fnKey(f)+":remembers-returned-name", f.Pos(), good && n > 0, "a returned name is recorded as the last one written", "a name can be written to the TOC without being remembered as the last one for its id: after A, B, A the second A is omitted and readers report B while the tar header says A")
}

// clauseGzipHelperOnlyForGzip: Build decompresses its own output for the DiffID with the external gzip helper only when
// the output compression is gzip.
func clauseGzipHelperOnlyForGzip(c *Ctx, id string) {
	c.clause(id, "T1", "Build uses the external gzip helper to read its output back only on the edge where the output compression is gzip", 1)
	f := c.mustFn("estargz", "Build")
	if f == nil {
		return
	}
	n := 0
	for _, g := range withAnon(f) {
		if g == f {
			continue // Build itself hands the helper to decompressBlob for the (possibly gzip) input, which tests the input's magic
		}
		isGz := condEdges(g, func(cond ssa.Value) int {
			if ex, ok := cond.(*ssa.Extract); ok && ex.Index == 1 {
				if ta, ok := ex.Tuple.(*ssa.TypeAssert); ok && strings.HasSuffix(ta.AssertedType.String(), "gzipCompression") {
					return 1
				}
			}
			if b, ok := cond.(*ssa.BinOp); ok {
				_ = b
			}
			return 0
		})
		eachInstr(g, func(i ssa.Instruction) {
			ld, ok := i.(*ssa.UnOp)
			if !ok || ld.Op != token.MUL {
				return
			}
			fa, ok := ld.X.(*ssa.FieldAddr)
			if !ok || fieldName(fa) != "gzipHelperFunc" {
				return
			}
			// uses of the helper value other than the nil test
			for _, r := range *ld.Referrers() {
				if b, ok := r.(*ssa.BinOp); ok && (b.Op == token.NEQ || b.Op == token.EQL) {
					continue
				}
				if _, ok := r.(*ssa.DebugRef); ok {
					continue
				}
				n++
				ri, _ := r.(ssa.Instruction)
				okp, _ := mustPass(g, ri, newCuts().addEdges(isGz))
				c.verdict(c.fnKey(g)+":helper-only-for-gzip", ld.Pos(), okp && len(isGz) > 0, "helper selected behind the output-is-gzip test", "the gzip helper is used to read back a blob that was not written as gzip (zstd:chunked output): reading the built blob fails and no DiffID is produced")
			}
		})
	}
	if n == 0 {
		c.okTrivial("estargz.Build:no-helper-use", f.Pos(), "the helper is not used in Build")
	}
}

// clauseReuseOnlyVerifiedLayer: ctr-remote optimize keeps an already converted layer only after its TOC digest annotation
// was verified against the blob.
func clauseReuseOnlyVerifiedLayer(c *Ctx, id string) {
	const op = "cmd/ctr-remote/commands"
	c.clause(id, "T1+T9", "isReusableESGZLayer answers true only after VerifyTOC succeeded with the digest parsed from the layer's TOC digest annotation", 1)
	f := c.mustFn(op, "isReusableESGZLayer")
	if f == nil {
		return
	}
	var se []edge
	argOK := false
	for _, ci := range callsIn(f, idIs("estargz.(*Reader).VerifyTOC")) {
		se = append(se, successEdges(f, ci)...)
		for _, v := range append([]ssa.Value{ci.Common().Args[1]}, reachingVals(ci.Common().Args[1])...) {
			if ex, ok := stripConv(v).(*ssa.Extract); ok {
				if pc, ok := ex.Tuple.(*ssa.Call); ok && strings.HasSuffix(calleeID(pc), "go-digest.Parse") {
					argOK = true
				}
			}
		}
	}
	good := len(se) > 0 && argOK
	for _, r := range realReturns(f) {
		for _, v := range retVals(r, 0) {
			if isConstBool(v, false) {
				continue
			}
			if o, _ := mustPass(f, r, newCuts().addEdges(se)); !o {
				good = false
			}
		}
	}
	c.verdict(c.fnKey(f)+":reuse-after-verify", f.Pos(), good, "a layer is reused only when its annotation verifies against its TOC", "a layer is kept as already converted without comparing its TOC digest annotation with the blob: a stale or foreign annotation is emitted unchanged and the descriptor does not verify")
}

// clauseHelperFailureSurfaces: the reader over an external gzip helper reports every abnormal helper exit.
func clauseHelperFailureSurfaces(c *Ctx, id string) {
	c.clause(id, "T1", "the pipe fed by the external gzip helper is closed without an error only on the success edge of cmd.Wait(): a killed helper never looks like a clean end of stream", 1)
	f := c.mustFn("util/decompressutil", "getCmdGzipHelperFunc")
	if f == nil {
		return
	}
	n := 0
	for _, g := range withAnon(f) {
		waits := callsIn(g, idIs("os/exec.(*Cmd).Wait"))
		if len(waits) == 0 {
			continue
		}
		var se []edge
		for _, w := range waits {
			se = append(se, successEdges(g, w)...)
		}
		withErr := callsIn(g, idIs("io.(*PipeWriter).CloseWithError"))
		for _, cl := range callsIn(g, idIs("io.(*PipeWriter).Close")) {
			n++
			// a plain Close is fine after CloseWithError (first close wins) or on the success edge
			o1, _ := mustPass(g, cl, newCuts().addEdges(se).addCalls(withErr))
			c.verdict(c.fnKey(g)+":clean-close-only-on-success", cl.Pos(), o1 && len(se) > 0, "clean close only after Wait() succeeded or after the error was set", "the helper's pipe can be closed cleanly although the helper did not exit successfully (e.g. killed by a signal): a truncated decompressed stream is taken as complete and a wrong DiffID/size is recorded")
		}
	}
	if n == 0 {
		c.bad(c.fnKey(f)+":wait", f.Pos(), "helper exit status is no longer observed")
	}
}

// clauseMediaTypeBySharedPredicate: every layer converter decides "is the source uncompressed" with containerd's predicate.
func clauseMediaTypeBySharedPredicate(c *Ctx, id string) {
	c.clause(id, "T5", "every native converter that rewrites the media type of a gzip output asks containerd's uncompress.IsUncompressedType (sibling converters agree on the set of uncompressed layer types, foreign layers included)", 2)
	n := 0
	for _, pk := range []string{"nativeconverter/estargz", "nativeconverter/estargz/externaltoc", "nativeconverter/zstdchunked"} {
		for _, f := range c.pkgFuncs(pk) {
			writes := false
			eachInstr(f, func(i ssa.Instruction) {
				if st, ok := i.(*ssa.Store); ok {
					if fa, ok := st.Addr.(*ssa.FieldAddr); ok && fieldName(fa) == "MediaType" && strings.HasSuffix(typeQName(fa.X.Type()), "v1.Descriptor") {
						if _, isLoad := loadOfField(st.Val); !isLoad {
							writes = true
						}
					}
				}
			})
			if !writes {
				continue
			}
			// converters producing gzip: those that append ".gzip"/"+gzip" or call a helper; the zstd converter sets a constant
			isConstSet := false
			eachInstr(f, func(i ssa.Instruction) {
				if st, ok := i.(*ssa.Store); ok {
					if fa, ok := st.Addr.(*ssa.FieldAddr); ok && fieldName(fa) == "MediaType" {
						if _, ok := constString(st.Val); ok {
							isConstSet = true
						}
					}
				}
			})
			isLayerConv := false
			if sg := f.Signature; sg.Params().Len() == 3 && sg.Results().Len() == 2 && strings.HasSuffix(typeQName(sg.Params().At(2).Type()), "v1.Descriptor") && strings.HasSuffix(typeQName(sg.Results().At(0).Type()), "v1.Descriptor") {
				isLayerConv = true // shape of converter.ConvertFunc
			}
			if isConstSet && (pk == "nativeconverter/zstdchunked" || !isLayerConv) {
				continue // zstd output (its table is C19.d), or a manifest/config descriptor built with a fixed type
			}
			n++
			uses := false
			seenFn := map[*ssa.Function]bool{}
			var look func(g *ssa.Function, d int)
			look = func(g *ssa.Function, d int) {
				if g == nil || seenFn[g] || d > 2 {
					return
				}
				seenFn[g] = true
				for _, ci := range callsIn(g, func(string, ssa.CallInstruction) bool { return true }) {
					if strings.HasSuffix(calleeID(ci), "converter/uncompress.IsUncompressedType") {
						uses = true
					}
					if t := staticFn(ci); t != nil && t.Pkg == f.Pkg && len(t.Blocks) > 0 {
						look(t, d+1) // a same-package helper that computes the media type
					}
				}
			}
			look(f, 0)
			c.verdict(c.fnKey(f)+":media-type-predicate", f.Pos(), uses, "uses uncompress.IsUncompressedType", "the converter rewrites the media type by its own table instead of containerd's IsUncompressedType: an uncompressed type missing from the table (docker foreign layer) keeps its media type although the committed blob is gzip")
		}
	}
	if n == 0 {
		c.bad("nativeconverter:media-type", token.NoPos, "no converter rewrites the media type any more")
	}
}

// clauseExistingDirReused: the bolt tree builder reuses the node of a directory that already exists whenever the name
// resolves; it never creates a second node for the same directory name (children registered so far would be lost).
func clauseExistingDirReused(c *Ctx, id string) {
	const dbp = "cmd/containerd-stargz-grpc/db"
	c.clause(id, "T1", "initNodes never creates a new node for a directory name that already resolves (a directory listed twice keeps its children, like in the memory store)", 1)
	f := c.mustFn(dbp, "(*reader).initNodes")
	if f == nil {
		return
	}
	n := 0
	for _, lit := range withAnon(f) {
		creates := callsIn(lit, func(id string, _ ssa.CallInstruction) bool {
			return strings.HasSuffix(id, "bbolt.(*Bucket).CreateBucket")
		})
		if len(creates) == 0 {
			continue
		}
		for _, g := range callsIn(lit, idIs(dbp+".getIDByName")) {
			// only the lookup of the entry's own name (in the dir branch): its key is ent.Name
			if _, ok := isFieldLoadAny(g.Common().Args[1], "Name"); !ok {
				continue
			}
			n++
			good := true
			detail := ""
			for _, e := range successEdges(lit, g) {
				for _, cr := range creates {
					// within the handling of this entry: the next Decode starts another entry
					next := callsIn(lit, func(id string, _ ssa.CallInstruction) bool {
						return strings.HasSuffix(id, "json.(*Decoder).Decode") || strings.HasSuffix(id, "json.(*Decoder).More")
					})
					if hit, path := reachPhiAware(lit, lit.Blocks[e.from].Succs[e.succ], isInstr(cr), newCuts().addInstr(g).addCalls(next)); hit != nil {
						good = false
						detail = c.pathStr(lit, path)
					}
				}
			}
			c.verdict(c.fnKey(lit)+":existing-dir-reused", g.Pos(), good, "no node creation on the path where the directory already exists", "a directory entry whose name already resolves can get a fresh node: entries registered under the first node (files, whiteouts) disappear from the bolt store while the memory store keeps them: "+detail)
		}
	}
	if n == 0 {
		c.unk(c.fnKey(f)+":dir-lookup", f.Pos(), "lookup of an existing directory by its own name not found")
	}
}

// clauseWhiteoutInodeFromMarker: the inode number of a whiteout answered by Lookup is derived from the marker entry's id.
func clauseWhiteoutInodeFromMarker(c *Ctx, id string) {
	const lp = "fs/layer"
	c.clause(id, "T9", "the whiteout inode returned by Lookup is numbered from the id of the .wh.<name> entry that was found (the id Readdir numbers it from)", 1)
	f := c.mustFn(lp, "(*node).Lookup")
	if f == nil {
		return
	}
	var prefixed ssa.CallInstruction
	for _, g := range callsIn(f, func(_ string, ci ssa.CallInstruction) bool {
		return ci.Common().IsInvoke() && ci.Common().Method.Name() == "GetChild"
	}) {
		if !isParamish(g.Common().Args[1]) {
			prefixed = g
		}
	}
	if prefixed == nil {
		c.unk(c.fnKey(f)+":whiteout-inode", f.Pos(), "lookup of the prefixed name not found")
		return
	}
	whID := resultN(prefixed, 0)
	n := 0
	for _, ci := range callsIn(f, idIs(lp+".(*fs).inodeOfID")) {
		if !dominatesInstr(prefixed, ci) {
			continue
		}
		// only the call in the whiteout branch: on the success edge of the prefixed lookup
		if o, _ := mustPass(f, ci, newCuts().addEdges(successEdges(f, prefixed))); !o {
			continue
		}
		n++
		arg := ci.Common().Args[1]
		good := whID != nil && (stripConv(arg) == stripConv(whID) || flowsFrom(stripConv(arg), whID, 0))
		c.verdict(c.fnKey(f)+":whiteout-inode", ci.Pos(), good, "numbered from the marker's id", "the whiteout's inode number is computed from another id than the marker's (the failed plain lookup leaves id 0): all whiteouts of a layer share one inode number and Lookup disagrees with Readdir")
	}
	if n == 0 {
		c.unk(c.fnKey(f)+":whiteout-inode", f.Pos(), "inode computation of the whiteout not found")
	}
}

// reachPhiAware: like reach from the start of block `start`, but a branch whose condition is a phi of boolean constants
// (a flag variable such as `found`) is followed only in the direction the constant of the edge just taken dictates.
func reachPhiAware(f *ssa.Function, start *ssa.BasicBlock, to func(ssa.Instruction) bool, cut *cuts) (ssa.Instruction, []int) {
	type st struct {
		b, from *ssa.BasicBlock
	}
	type item struct {
		s    st
		path []int
	}
	seen := map[st]bool{}
	q := []item{{st{start, nil}, []int{start.Index}}}
	seen[st{start, nil}] = true
	for len(q) > 0 {
		it := q[0]
		q = q[1:]
		b := it.s.b
		blocked := false
		for _, ins := range b.Instrs {
			if to(ins) {
				return ins, it.path
			}
			if cut != nil && cut.instrs[ins] {
				blocked = true
				break
			}
		}
		if blocked {
			continue
		}
		// which successors are feasible
		feasible := map[int]bool{}
		for j := range b.Succs {
			feasible[j] = true
		}
		if iff, ok := b.Instrs[len(b.Instrs)-1].(*ssa.If); ok && it.s.from != nil {
			cond := ssa.Value(iff.Cond)
			neg := false
			if u, ok := cond.(*ssa.UnOp); ok && u.Op == token.NOT {
				cond, neg = u.X, true
			}
			if ph, ok := cond.(*ssa.Phi); ok && ph.Block() == b {
				for pi, p := range b.Preds {
					if p == it.s.from {
						if k, ok := ph.Edges[pi].(*ssa.Const); ok && k.Value != nil {
							val := k.Value.String() == "true"
							if neg {
								val = !val
							}
							if val {
								feasible[1] = false
							} else {
								feasible[0] = false
							}
						}
					}
				}
			}
		}
		for j, s := range b.Succs {
			if !feasible[j] || (cut != nil && cut.edges[edge{b.Index, j}]) {
				continue
			}
			ns := st{s, b}
			if seen[ns] {
				continue
			}
			seen[ns] = true
			q = append(q, item{ns, append(append([]int{}, it.path...), s.Index)})
		}
	}
	return nil, nil
}

// clauseUpdateKeepsRemoteMark: the remote mark of a snapshot is owned by the snapshotter; a label update coming from the
// client must not remove (or forge) it, otherwise Mounts stops checking the layer and Close stops unmounting it.
func clauseUpdateKeepsRemoteMark(c *Ctx, id string) {
	const sp = "snapshot"
	c.clause(id, "T1+T9", "snapshotter.Update re-asserts the stored remote mark on the labels it hands to storage.UpdateInfo (read with storage.GetInfo in the same transaction)", 1)
	f := c.mustFn(sp, "(*snapshotter).Update")
	if f == nil {
		return
	}
	rl := c.constVal(sp, "remoteLabel")
	ups := callsIn(f, func(id string, _ ssa.CallInstruction) bool {
		return strings.HasSuffix(id, "snapshots/storage.UpdateInfo")
	})
	gets := callsIn(f, func(id string, _ ssa.CallInstruction) bool { return strings.HasSuffix(id, "snapshots/storage.GetInfo") })
	if len(ups) == 0 {
		c.unk(c.fnKey(f)+":update", f.Pos(), "Update no longer goes through storage.UpdateInfo")
		return
	}
	good := len(gets) > 0 && rl != ""
	if good {
		set, del := false, false
		eachInstr(f, func(i ssa.Instruction) {
			switch x := i.(type) {
			case *ssa.MapUpdate:
				if s, ok := constString(x.Key); ok && s == rl && dominatesInstr(gets[0], x) {
					// value read from the stored labels
					for _, v := range append([]ssa.Value{x.Value}, reachingVals(x.Value)...) {
						v = stripConv(v)
						if ex, ok := v.(*ssa.Extract); ok {
							v = ex.Tuple
						}
						if lk, ok := v.(*ssa.Lookup); ok {
							if ks, ok := constString(lk.Index); ok && ks == rl {
								set = true
							}
						}
					}
				}
			case *ssa.Call:
				if b, ok := x.Call.Value.(*ssa.Builtin); ok && b.Name() == "delete" {
					if s, ok := constString(x.Call.Args[1]); ok && s == rl {
						del = true
					}
				}
			}
		})
		good = set && del
		for _, u := range ups {
			if !dominatesInstr(gets[0], u) {
				good = false
			}
		}
		// the map that carries the re-asserted mark is the one handed to UpdateInfo
		handed := false
		eachInstr(f, func(i ssa.Instruction) {
			st, ok := i.(*ssa.Store)
			if !ok {
				return
			}
			fa, ok := st.Addr.(*ssa.FieldAddr)
			if !ok || fieldName(fa) != "Labels" || !dominatesInstr(st, ups[0]) {
				return
			}
			eachInstr(f, func(j ssa.Instruction) {
				if mu, ok := j.(*ssa.MapUpdate); ok {
					if ks, ok := constString(mu.Key); ok && ks == rl && (stripConv(mu.Map) == stripConv(st.Val) || sameValue(mu.Map, st.Val)) {
						handed = true
					}
				}
			})
		})
		good = good && handed
	}
	c.verdict(c.fnKey(f)+":remote-mark-preserved", ups[0].Pos(), good, "stored remote mark copied onto (or removed from) the requested labels before the update", "Update hands the client's labels to storage.UpdateInfo unchanged: an update without field paths drops the remote mark, after which mounts are handed out without the availability check and Close leaves the backend mount")
}

// clauseKnownMountIsLive: the fuse manager skips a Mount request for a mountpoint it already knows only after the mount
// table confirmed that something is mounted there (its table can be stale: the restoring snapshotter force-unmounts).
func clauseKnownMountIsLive(c *Ctx, id string) {
	const fp = "fusemanager"
	c.clause(id, "T1", "(*Server).mount answers 'already mounted' for a mountpoint found in fsMap only after consulting the mount table", 1)
	f := c.mustFn(fp, "(*Server).mount")
	if f == nil {
		return
	}
	loads := callsIn(f, idIs("sync.(*Map).Load"))
	if len(loads) == 0 {
		c.unk(c.fnKey(f)+":known-mount", f.Pos(), "mount no longer consults fsMap")
		return
	}
	tables := callsIn(f, func(id string, _ ssa.CallInstruction) bool {
		return strings.Contains(id, "moby/sys/mountinfo.") && (strings.HasSuffix(id, ".GetMounts") || strings.HasSuffix(id, ".Mounted"))
	})
	var found []edge
	for _, l := range loads {
		if v := resultN(l, 1); v != nil {
			found = append(found, boolEdges(f, v, true)...)
		}
	}
	mounts := callsIn(f, func(_ string, ci ssa.CallInstruction) bool {
		return ci.Common().IsInvoke() && ci.Common().Method.Name() == "Mount"
	})
	good := len(found) > 0
	detail := ""
	for _, e := range found {
		first := f.Blocks[e.from].Succs[e.succ].Instrs[0]
		// a nil-error return reachable from the found edge without a mount-table lookup and without mounting
		tgt := func(i ssa.Instruction) bool {
			r, ok := i.(*ssa.Return)
			return ok && returnsNilError(r)
		}
		k := newCuts().addCalls(tables).addCalls(mounts)
		if tgt(first) {
			good = false
		} else if hit, path := reach(f, first, tgt, k); hit != nil {
			good = false
			detail = c.pathStr(f, path)
		}
	}
	c.verdict(c.fnKey(f)+":known-mount-is-live", loads[0].Pos(), good, "success for a known mountpoint only after the mount table was consulted (or the mount was redone)", "a Mount request for a mountpoint present in fsMap succeeds without looking at the mount table: after Init restored the mountpoint from a stale store and the restoring snapshotter force-unmounted it, nothing is mounted although record and table say so: "+detail)
}

// clauseParsedPrefetchSizeAdopted: every prefetch-size label value that parses is used (0 included).
func clauseParsedPrefetchSizeAdopted(c *Ctx, id string) {
	c.clause(id, "T1", "filesystem.Mount adopts the prefetch-size label whenever it parses: the assignment sits directly on the success edge of ParseInt, with no further condition on the value", 1)
	f := c.mustFn("fs", "(*filesystem).Mount")
	if f == nil {
		return
	}
	n := 0
	for _, pc := range callsIn(f, idIs("strconv.ParseInt", "strconv.Atoi", "strconv.ParseUint")) {
		// the one parsing the prefetch-size label
		isPS := false
		for _, v := range append([]ssa.Value{pc.Common().Args[0]}, reachingVals(pc.Common().Args[0])...) {
			v = stripConv(v)
			if ex, ok := v.(*ssa.Extract); ok {
				v = ex.Tuple
			}
			if lk, ok := v.(*ssa.Lookup); ok {
				if s, ok := constString(lk.Index); ok && s == c.constVal("fs/config", "TargetPrefetchSizeLabel") {
					isPS = true
				}
			}
		}
		if !isPS {
			continue
		}
		n++
		val := resultN(pc, 0)
		good := false
		for _, e := range successEdges(f, pc) {
			tgt := f.Blocks[e.from].Succs[e.succ]
			for _, ins := range tgt.Instrs {
				if st, ok := ins.(*ssa.Store); ok && val != nil && flowsFrom(stripConv(st.Val), val, 0) {
					good = true
				}
			}
			// SSA-lifted variable: the value flows into a phi of the join block directly from the target block
			for _, s := range tgt.Succs {
				for _, ins := range s.Instrs {
					if ph, ok := ins.(*ssa.Phi); ok {
						for pi, p := range s.Preds {
							if p == tgt && val != nil && flowsFrom(stripConv(ph.Edges[pi]), val, 0) && len(tgt.Succs) == 1 {
								good = true
							}
						}
					}
				}
			}
		}
		c.verdict(c.fnKey(f)+":prefetch-size-adopted", pc.Pos(), good, "the parsed value is adopted unconditionally", "a prefetch-size label that parses is adopted only under an extra condition on its value (e.g. > 0): the size written at pull time does not round-trip and the snapshotter-wide default is used instead")
	}
	if n == 0 {
		c.bad(c.fnKey(f)+":prefetch-size-label", f.Pos(), "the prefetch-size label is no longer read at mount time")
	}
}

// clauseLoopGoroutinesOwnTheirVars: a goroutine started in a loop reads only variables of its own iteration.
func clauseLoopGoroutinesOwnTheirVars(c *Ctx, id string, fns [][2]string) {
	c.clause(id, "T8", "goroutines started per layer in a loop capture only variables created by their own iteration (a variable declared outside the loop and reassigned per iteration would be read by the wrong layer's goroutine)", len(fns))
	for _, x := range fns {
		f := c.mustFn(x[0], x[1])
		if f == nil {
			continue
		}
		good := true
		detail := ""
		n := 0
		eachInstr(f, func(i ssa.Instruction) {
			mc, ok := i.(*ssa.MakeClosure)
			if !ok {
				return
			}
			// started concurrently: passed to `go`, errgroup.Go, WaitGroup.Go
			conc := false
			for _, r := range *mc.Referrers() {
				switch y := r.(type) {
				case *ssa.Go:
					conc = true
				case ssa.CallInstruction:
					id := calleeID(y)
					if strings.HasSuffix(id, "errgroup.(*Group).Go") || id == "sync.(*WaitGroup).Go" {
						conc = true
					}
				}
			}
			if !conc {
				return
			}
			// inside a loop: the closure's block can reach itself
			if hit, _ := reach(f, mc, isInstr(mc), nil); hit == nil {
				return
			}
			n++
			for _, b := range mc.Bindings {
				al, ok := b.(*ssa.Alloc)
				if !ok {
					continue
				}
				// created per iteration: the allocation is re-executed on the way round the loop
				if hit, _ := reach(f, mc, isInstr(al), nil); hit != nil {
					continue
				}
				// allocated once outside: any store that can execute after the goroutine was started is a race with it
				for _, r := range *al.Referrers() {
					if st, ok := r.(*ssa.Store); ok && st.Addr == ssa.Value(al) {
						if hit, _ := reach(f, mc, isInstr(st), nil); hit != nil {
							good = false
							detail = al.Comment + " at " + c.pos(st.Pos())
						}
					}
				}
			}
		})
		c.verdict(c.fnKey(f)+":per-iteration-captures", f.Pos(), good, fmt.Sprintf("%d concurrent closures in loops capture per-iteration variables only", n), "a goroutine started in the loop captures a variable that a later iteration overwrites ("+detail+"): the check of one layer can run with another layer's id and labels")
	}
}

// clauseCleanNameViaPathClean: every name normaliser returns path.Clean's result on all paths (no shortcut that skips it).
func clauseCleanNameViaPathClean(c *Ctx, id string) {
	c.clause(id, "T9", "every cleanEntryName returns a value computed from path.Clean on all paths (the builder, the memory store and the bolt store agree on one normal form)", 2)
	n := 0
	for _, pk := range []string{"estargz", "cmd/containerd-stargz-grpc/db", "metadata/memory"} {
		f := c.fn(pk, "cleanEntryName")
		if f == nil {
			continue
		}
		n++
		good := true
		for _, r := range realReturns(f) {
			for _, v := range retVals(r, 0) {
				if !derivesFromCall(v, "path.Clean", 0) {
					good = false
				}
			}
		}
		c.verdict(c.fnKey(f)+":via-path.Clean", f.Pos(), good, "all returns go through path.Clean", "a return of cleanEntryName bypasses path.Clean (a fast path for names that look clean): names such as usr//bin/app are no longer normalised, so a prioritized or hardlinked path does not match its entry")
	}
	if n == 0 {
		c.bad("cleanEntryName", token.NoPos, "no name normaliser found")
	}
}

func derivesFromCall(v ssa.Value, callee string, depth int) bool {
	v = stripConv(v)
	if depth > 6 {
		return false
	}
	switch x := v.(type) {
	case *ssa.Call:
		if calleeID(x) == callee {
			return true
		}
		for _, a := range x.Call.Args {
			if derivesFromCall(a, callee, depth+1) {
				return true
			}
		}
	case *ssa.Phi:
		for _, e := range x.Edges {
			if !derivesFromCall(e, callee, depth+1) {
				return false
			}
		}
		return len(x.Edges) > 0
	case *ssa.Slice:
		for _, e := range varargs(x) {
			if derivesFromCall(e, callee, depth+1) {
				return true
			}
		}
		return derivesFromCall(x.X, callee, depth+1)
	case *ssa.Extract:
		return derivesFromCall(x.Tuple, callee, depth+1)
	case *ssa.BinOp:
		return derivesFromCall(x.X, callee, depth+1) || derivesFromCall(x.Y, callee, depth+1)
	case *ssa.MakeInterface:
		return derivesFromCall(x.X, callee, depth+1)
	}
	return false
}

// clauseStreamStartRefreshed: inside appendTar's chunk loop, every path that closes the compression stream assigns the
// remembered stream start (and its uncompressed base) anew before the next chunk looks at them.
func clauseStreamStartRefreshed(c *Ctx, id string) {
	c.clause(id, "T2", "appendTar: on every path of the chunk loop that closes the compression stream the remembered stream start and uncompressed base are assigned anew (a branch that closes the stream but keeps the old values records later chunks at the previous stream's offset)", 2)
	f := c.mustFn("estargz", "(*Writer).appendTar")
	if f == nil {
		return
	}
	closes := callsIn(f, idIs("estargz.(*Writer).closeGz"))
	for _, name := range []string{"prevOffset", "prevOffsetUncompressed"} {
		var hdr *ssa.Phi
		eachInstr(f, func(i ssa.Instruction) {
			if ph, ok := i.(*ssa.Phi); ok && ph.Comment == name {
				// the loop header phi: one of its edges comes from a block it dominates
				for _, p := range ph.Block().Preds {
					if ph.Block().Dominates(p) {
						hdr = ph
					}
				}
			}
		})
		if hdr == nil {
			c.unk(c.fnKey(f)+":"+name+"-refreshed", f.Pos(), "loop-carried variable "+name+" not found")
			continue
		}
		carry := map[ssa.Value]bool{ssa.Value(hdr): true}
		changed := true
		for changed {
			changed = false
			eachInstr(f, func(i ssa.Instruction) {
				if ph, ok := i.(*ssa.Phi); ok && !carry[ph] {
					for _, e := range ph.Edges {
						if carry[stripConv(e)] {
							carry[ph] = true
							changed = true
						}
					}
				}
			})
		}
		good := true
		detail := ""
		// an iteration ends at any loop header that carries the variable (chunk loop and entry loop)
		iterEnd := newCuts()
		for q := range carry {
			ph := q.(*ssa.Phi)
			for _, p := range ph.Block().Preds {
				if ph.Block().Dominates(p) {
					iterEnd.addInstr(ph.Block().Instrs[0])
				}
			}
		}
		for q := range carry {
			ph := q.(*ssa.Phi)
			for ei, e := range ph.Edges {
				if !carry[stripConv(e)] {
					continue // a new value arrives on this edge
				}
				if isHdr := func() bool {
					for _, p := range ph.Block().Preds {
						if ph.Block().Dominates(p) {
							return true
						}
					}
					return false
				}(); isHdr {
					continue // loop-carried edges are judged where the value is merged inside the body
				}
				pred := ph.Block().Preds[ei]
				last := pred.Instrs[len(pred.Instrs)-1]
				// the old value is kept on this edge: no closeGz of the same iteration may precede it
				for _, cl := range closes {
					if !hdr.Block().Dominates(cl.Block()) {
						continue // the close at function entry
					}
					for _, se := range successEdges(f, cl) {
						tgt := f.Blocks[se.from].Succs[se.succ]
						if tgt == pred {
							good = false
							detail = c.pos(cl.Pos())
							continue
						}
						if hit, _ := reach(f, tgt.Instrs[0], isInstr(last), iterEnd); hit != nil || tgt.Instrs[0] == last {
							// unless a new value was assigned between: then the edge would not carry the old value; it does
							good = false
							detail = c.pos(cl.Pos())
						}
					}
				}
			}
		}
		c.verdict(c.fnKey(f)+":"+name+"-refreshed", hdr.Pos(), good, "no path closes the stream and keeps the old "+name, "a path of the chunk loop closes the compression stream (closeGz at "+detail+") but carries the old "+name+" into the next chunk: chunks after a landmark are recorded at the previous stream's offset, i.e. before the landmark")
	}
}

// clauseBlobKeyStable: blob-cache keys are derived from the stable blob URL (not from the redirected, expiring URL), so
// that what prefetch stored stays addressable after a URL refresh.
func clauseBlobKeyStable(c *Ctx, id string) {
	const rp = "fs/remote"
	c.clause(id, "T9", "the blob-cache key hashes the registry blob URL, begin and end, and nothing that changes when the redirected URL is refreshed", 1)
	f := c.mustFn(rp, "(*httpFetcher).genID")
	if f == nil {
		return
	}
	src := map[string]bool{}
	for _, ci := range callsIn(f, idIs("fmt.Appendf", "fmt.Sprintf")) {
		for _, a := range varargs(ci.Common().Args[len(ci.Common().Args)-1]) {
			fieldsRead(a, rp+".region", 0, src)
			fieldsRead(a, rp+".httpFetcher", 0, src)
		}
	}
	volatile := src["url"] || src["header"]
	c.verdict(c.fnKey(f)+":stable-key", f.Pos(), src["b"] && src["e"] && src["blobURL"] && !volatile, "key = hash(blobURL, begin, end)", fmt.Sprintf("the cache key is derived from %v: after the signed URL is refreshed everything fetched before (prefetch) is keyed by the old URL and reads go back to the registry", sortedKeys(src)))
}

// clauseBatchPathOnlyForAlignedChunks: the parallel passthrough prefetch slices one batch buffer per merge-buffer span and
// places every chunk of the batch in it whole; it is sound only when no chunk is larger than the buffer and no chunk lies
// across a span boundary. GetPassthroughFd must route every other geometry to the sequential path.
func clauseBatchPathOnlyForAlignedChunks(c *Ctx, id string) {
	const rp = "fs/reader"
	c.clause(id, "T1+T6", "GetPassthroughFd takes the batch path (prefetchEntireFile) only behind a flag that is raised both for a chunk larger than the merge buffer and for a chunk whose first and last byte fall into different merge-buffer spans (a test dividing offsets by the buffer size)", 1)
	f := c.mustFn(rp, "(*file).GetPassthroughFd")
	if f == nil {
		return
	}
	batch := callsIn(f, idIs(rp+".(*file).prefetchEntireFile"))
	if len(batch) == 0 {
		c.okTrivial(c.fnKey(f)+":no-batch-path", f.Pos(), "the batch path is not used")
		return
	}
	var bufParam *ssa.Parameter
	for _, p := range f.Params {
		if p.Name() == "mergeBufferSize" {
			bufParam = p
		}
	}
	// the flag: a bool phi tested on the way to the batch call
	var flag *ssa.Phi
	eachInstr(f, func(i ssa.Instruction) {
		iff, ok := i.(*ssa.If)
		if !ok {
			return
		}
		cond := iff.Cond
		if u, ok := cond.(*ssa.UnOp); ok && u.Op == token.NOT {
			cond = u.X
		}
		if ph, ok := cond.(*ssa.Phi); ok && dominatesInstr(iff, batch[0]) {
			flag = ph
		}
	})
	if flag == nil || bufParam == nil {
		c.bad(c.fnKey(f)+":batch-path-gate", batch[0].Pos(), "the batch path is not guarded by a geometry flag")
		return
	}
	okGate, _ := mustPass(f, batch[0], newCuts().addEdges(boolEdges(f, flag, false)))
	// conditions under which the flag becomes true: the comparisons evaluated on the way to a `true` edge of the flag's phis
	hasSize, hasSpan := false, false
	var inspect func(v ssa.Value, d int)
	seen := map[ssa.Value]bool{}
	inspect = func(v ssa.Value, d int) {
		v = stripConv(v)
		if v == nil || d > 8 || seen[v] {
			return
		}
		seen[v] = true
		b, ok := v.(*ssa.BinOp)
		if !ok {
			return
		}
		if (b.Op == token.QUO || b.Op == token.REM) && stripConv(b.Y) == ssa.Value(bufParam) {
			hasSpan = true
		}
		if (b.Op == token.GTR || b.Op == token.LSS || b.Op == token.GEQ || b.Op == token.LEQ) && (stripConv(b.Y) == ssa.Value(bufParam) || stripConv(b.X) == ssa.Value(bufParam)) {
			hasSize = true
		}
		inspect(b.X, d+1)
		inspect(b.Y, d+1)
	}
	var phis []*ssa.Phi
	collect := map[*ssa.Phi]bool{}
	var gather func(ph *ssa.Phi)
	gather = func(ph *ssa.Phi) {
		if collect[ph] {
			return
		}
		collect[ph] = true
		phis = append(phis, ph)
		for _, e := range ph.Edges {
			if q, ok := stripConv(e).(*ssa.Phi); ok {
				gather(q)
			}
		}
	}
	gather(flag)
	for _, ph := range phis {
		for ei, e := range ph.Edges {
			if !isConstBool(e, true) {
				continue
			}
			// all branch conditions that dominate the predecessor of this edge inside the loop
			pred := ph.Block().Preds[ei]
			// every branch evaluated in the same iteration on a way to this assignment
			hdr := newCuts().addInstr(flag.Block().Instrs[0])
			for _, b := range f.Blocks {
				iff, ok := b.Instrs[len(b.Instrs)-1].(*ssa.If)
				if !ok {
					continue
				}
				if b == pred {
					inspect(iff.Cond, 0)
					continue
				}
				if hit, _ := reach(f, iff, isInstr(pred.Instrs[0]), hdr); hit != nil {
					inspect(iff.Cond, 0)
				}
			}
		}
	}
	c.verdict(c.fnKey(f)+":batch-path-gate", batch[0].Pos(), okGate && hasSize && hasSpan, "batch path only when every chunk fits into one merge-buffer span", fmt.Sprintf("the batch path can be taken for a chunk that lies across a merge-buffer boundary (size test: %v, span test: %v): processBatchChunks then slices the batch buffer beyond its length and the panic in its goroutine takes the process down", hasSize, hasSpan))
}

// clauseGivenUpResultIsReleased: a goroutine that reports a reference-counted result on a channel to a receiver that may
// give up (select with a timeout) must always be able to deliver (buffered channel), and the path that gave up must
// still take a late result and release it.
func clauseGivenUpResultIsReleased(c *Ctx, id string) {
	c.clause(id, "T2", "filesystem.Mount: the channels its resolve goroutine reports on are buffered, and the timeout path leaves behind a receiver that releases (Done) a layer resolved after the timeout", 2)
	f := c.mustFn("fs", "(*filesystem).Mount")
	if f == nil {
		return
	}
	// the select with a time.After case
	var sel *ssa.Select
	eachInstr(f, func(i ssa.Instruction) {
		s, ok := i.(*ssa.Select)
		if !ok {
			return
		}
		for _, st := range s.States {
			if call, ok := stripConv(st.Chan).(*ssa.Call); ok && calleeID(call) == "time.After" {
				sel = s
			}
		}
	})
	if sel == nil {
		c.okTrivial(c.fnKey(f)+":no-timeout-select", f.Pos(), "Mount does not give up on a timer")
		return
	}
	var timeoutIdx = -1
	var chans []ssa.Value
	for si, st := range sel.States {
		if call, ok := stripConv(st.Chan).(*ssa.Call); ok && calleeID(call) == "time.After" {
			timeoutIdx = si
			continue
		}
		chans = append(chans, st.Chan)
	}
	// (1) every other channel of the select is buffered
	for _, ch := range chans {
		var mk *ssa.MakeChan
		for _, v := range append([]ssa.Value{ch}, reachingCellVals(ch)...) {
			if m, ok := stripConv(v).(*ssa.MakeChan); ok {
				mk = m
			}
		}
		name := valName(stripConv(ch))
		if mk == nil {
			c.unk(c.fnKey(f)+":buffered:"+name, sel.Pos(), "cannot find where the channel is made")
			continue
		}
		n, ok := constInt(mk.Size)
		c.verdict(c.fnKey(f)+":buffered:"+name, mk.Pos(), ok && n >= 1, "the reporting goroutine can always deliver and finish", "the resolve goroutine reports on an unbuffered channel although Mount can give up waiting: after the timeout it blocks forever and the layer it resolved is never released")
	}
	// (2) on the timeout edge a goroutine is started that receives a layer and calls Done on it
	te := condEdges(f, func(cond ssa.Value) int {
		b, ok := cond.(*ssa.BinOp)
		if !ok || b.Op != token.EQL {
			return 0
		}
		e, ok := b.X.(*ssa.Extract)
		if !ok || e.Tuple != ssa.Value(sel) || e.Index != 0 {
			return 0
		}
		if n, ok := constInt(b.Y); ok && int(n) == timeoutIdx {
			return 1
		}
		return 0
	})
	released := false
	for _, e := range te {
		first := f.Blocks[e.from].Succs[e.succ].Instrs[0]
		check := func(i ssa.Instruction) bool {
			g, ok := i.(*ssa.Go)
			if !ok {
				return false
			}
			lit := goLiteral(g)
			if lit == nil {
				return false
			}
			done := false
			for _, ci := range callsIn(lit, func(_ string, ci ssa.CallInstruction) bool {
				return ci.Common().IsInvoke() && ci.Common().Method.Name() == "Done"
			}) {
				_ = ci
				done = true
			}
			return done
		}
		if check(first) {
			released = true
		} else if hit, _ := reach(f, first, check, nil); hit != nil {
			released = true
		}
	}
	c.verdict(c.fnKey(f)+":late-result-released", sel.Pos(), released && len(te) > 0, "the timeout path starts a receiver that releases a late result", "after the timeout nobody receives the layer the goroutine may still deliver: its reference is never released and the layer stays pinned with its cache directories")
}

// clauseEmptyURLLabelIsNoURL: the writers always store the urls labels (value "" for a layer without URLs); the readers
// must not turn the empty value into one empty URL.
func clauseEmptyURLLabelIsNoURL(c *Ctx, id string) {
	c.clause(id, "T1", "both label readers split a urls label only behind a test that its value is not empty (strings.Split(\"\", \",\") is one empty URL, not none)", 4)
	for _, x := range [][2]string{{"fs/source", "FromDefaultLabels"}, {"service", "sourceFromCRILabels"}} {
		root := c.mustFn(x[0], x[1])
		if root == nil {
			continue
		}
		for _, f := range withAnon(root) {
			for _, sp := range callsIn(f, idIs("strings.Split")) {
				// the value being split comes from a lookup of a urls label
				var lkv ssa.Value
				for _, v := range append([]ssa.Value{sp.Common().Args[0]}, reachingVals(sp.Common().Args[0])...) {
					v = stripConv(v)
					if ex, ok := v.(*ssa.Extract); ok && ex.Index == 0 {
						if lk, ok := ex.Tuple.(*ssa.Lookup); ok {
							ks, isC := constString(lk.Index)
							if (isC && strings.HasSuffix(ks, "/urls")) || func() bool {
								b, ok := stripConv(lk.Index).(*ssa.BinOp)
								if !ok || b.Op != token.ADD {
									return false
								}
								s, ok := constString(b.X)
								return ok && strings.HasSuffix(s, "urls.")
							}() {
								lkv = ex
							}
						}
					}
				}
				if lkv == nil {
					continue
				}
				nonEmpty := condEdges(f, func(cond ssa.Value) int {
					b, ok := cond.(*ssa.BinOp)
					if !ok || (b.Op != token.NEQ && b.Op != token.EQL && b.Op != token.GTR) {
						return 0
					}
					// v != "" / v == "" / len(v) > 0
					if s, ok := constString(b.Y); ok && s == "" && flowsFrom(stripConv(b.X), lkv, 0) {
						if b.Op == token.NEQ {
							return 1
						}
						if b.Op == token.EQL {
							return -1
						}
					}
					if lc, ok := stripConv(b.X).(*ssa.Call); ok {
						if bi, ok := lc.Call.Value.(*ssa.Builtin); ok && bi.Name() == "len" && flowsFrom(stripConv(lc.Call.Args[0]), lkv, 0) {
							if n, ok := constInt(b.Y); ok && n == 0 {
								switch b.Op {
								case token.GTR, token.NEQ:
									return 1
								case token.EQL:
									return -1
								}
							}
						}
					}
					return 0
				})
				okp, _ := mustPass(f, sp, newCuts().addEdges(nonEmpty))
				c.verdict(c.fnKey(f)+":urls-split-non-empty", sp.Pos(), okp && len(nonEmpty) > 0, "split only when the label value is not empty", "a urls label with the empty value (written for every layer without URLs) is split into one empty URL: the layer's source is reconstructed with URLs [\"\"] instead of none")
			}
		}
	}
}

// clauseCloneReadsThroughGivenReader: the memory store's Clone builds the clone on the reader it opened from the byte source
// it was given (the background fetch passes a reader that goes through InvokeBackgroundTask), not on the original reader.
func clauseCloneReadsThroughGivenReader(c *Ctx, id string) {
	const mm = "metadata/memory"
	c.clause(id, "T9", "memory.(*reader).Clone returns a reader built on the estargz reader it opened from the given section reader (so background reads go through the background byte source, not the layer's prioritized one)", 1)
	f := c.mustFn(mm, "(*reader).Clone")
	if f == nil {
		return
	}
	var opened ssa.Value
	for _, ci := range callsIn(f, idIs("estargz.Open")) {
		if isParamish(ci.Common().Args[0]) {
			opened = resultN(ci, 0)
		}
	}
	n, good := 0, opened != nil
	for _, ci := range callsIn(f, idIs(mm+".newReader")) {
		n++
		if opened == nil || !(stripConv(ci.Common().Args[0]) == stripConv(opened) || flowsFrom(stripConv(ci.Common().Args[0]), opened, 0)) {
			good = false
		}
	}
	c.verdict(c.fnKey(f)+":clone-on-opened-reader", f.Pos(), good && n > 0, "the clone wraps the reader opened from the given byte source", "the clone is built on the original reader: payload reads of the background fetch bypass the background task manager (they run during prioritized work, escape the concurrency bound and count as on-demand reads)")
}

// clauseFlightJoinedBeforeReturn: a caller that starts or joins a single-flight fetch does not return while that flight can
// still write into the caller's buffers.
func clauseFlightJoinedBeforeReturn(c *Ctx, id string) {
	const rp = "fs/remote"
	c.clause(id, "T2", "fs/remote: a single-flight fetch is awaited before its caller returns (Do, or DoChan whose channel is received on every path to a return): the flight writes into the caller's buffers", 1)
	n := 0
	for _, f := range c.pkgFuncs(rp) {
		for _, ci := range callsIn(f, func(id string, _ ssa.CallInstruction) bool {
			return strings.HasSuffix(id, "singleflight.(*Group).Do") || strings.HasSuffix(id, "singleflight.(*Group).DoChan") || strings.HasSuffix(id, "singleflight.(*Group).Forget")
		}) {
			idc := calleeID(ci)
			if strings.HasSuffix(idc, ".Do") {
				n++
				c.ok(c.fnKey(f)+":flight-awaited", ci.Pos(), "blocking Do: the caller returns after the flight")
				continue
			}
			if strings.HasSuffix(idc, ".Forget") {
				continue
			}
			n++
			ch := ci.Value()
			isCh := func(v ssa.Value) bool {
				return ch != nil && (stripConv(v) == ssa.Value(ch) || flowsFrom(stripConv(v), ch, 0))
			}
			ri, re := recvEvents(f, isCh)
			hit, path := reach(f, ci, isReturn, newCuts().addInstr(ri...).addEdges(re))
			c.verdict(c.fnKey(f)+":flight-awaited", ci.Pos(), hit == nil, "every return after DoChan has received the flight's result", "the caller can return (e.g. on ctx.Done()) while the flight it started or joined is still running: the detached fetch keeps writing into the caller's buffer, which a retried background-task body already reuses: "+c.pathStr(f, path))
		}
	}
	if n == 0 {
		c.bad(rp+":singleflight", token.NoPos, "no single-flight fetch found in fs/remote")
	}
}

// ---- round-3 clauses ----

// clauseCleanupSkipsOnlyLive: the cleanup scan leaves a directory out only because it is a live snapshot (Remove/Cleanup)
// or not a remote one (Close): no other reason to skip, or leftovers of a crashed Prepare are never reclaimed.
func clauseCleanupSkipsOnlyLive(c *Ctx, id string) {
	const sp = "snapshot"
	c.clause(id, "T1", "getCleanupDirectories skips a scanned directory only on the 'id is known' edge (cleanup of orphans) or on the 'not a remote snapshot' edge (Close): every other directory, temporary ones included, is listed", 1)
	f := c.mustFn(sp, "(*snapshotter).getCleanupDirectories")
	if f == nil {
		return
	}
	var appends []ssa.Instruction
	eachInstr(f, func(i ssa.Instruction) {
		if ci, ok := i.(*ssa.Call); ok {
			if b, ok := ci.Call.Value.(*ssa.Builtin); ok && b.Name() == "append" {
				if sl, ok := ci.Type().Underlying().(*types.Slice); ok && types.Identical(sl.Elem(), types.Typ[types.String]) && typeQName(ci.Type()) == "" {
					appends = append(appends, i)
				}
			}
		}
	})
	if len(appends) == 0 {
		c.bad(c.fnKey(f)+":list", f.Pos(), "the scan no longer builds the list of directories to remove")
		return
	}
	lookupEdges := func(found bool) []edge {
		return condEdges(f, func(cond ssa.Value) int {
			if e, ok := cond.(*ssa.Extract); ok && e.Index == 1 {
				if _, ok := e.Tuple.(*ssa.Lookup); ok {
					if found {
						return 1
					}
					return -1
				}
			}
			return 0
		})
	}
	skipEdges := append(lookupEdges(true), lookupEdges(false)...)
	// the loop over the scanned names: from the instruction that takes the next name, every way back to it passes the
	// append or one of the two lookup edges
	var nexts []ssa.Instruction
	eachInstr(f, func(i ssa.Instruction) {
		if ia, ok := i.(*ssa.IndexAddr); ok {
			if _, isSl := ia.X.Type().Underlying().(*types.Slice); isSl && dominatesInstr(i, appends[0]) {
				if sl, ok := ia.X.Type().Underlying().(*types.Slice); ok && types.Identical(sl.Elem(), types.Typ[types.String]) {
					nexts = append(nexts, i)
				}
			}
		}
	})
	if len(nexts) == 0 {
		c.unk(c.fnKey(f)+":scan-loop", f.Pos(), "the loop over the scanned directory names was not recognised")
		return
	}
	nx := nexts[len(nexts)-1]
	hit, path := reach(f, nx, isInstr(nx), newCuts().addInstr(appends...).addEdges(skipEdges))
	c.verdict(c.fnKey(f)+":skips-only-live", nx.Pos(), hit == nil, "a directory is left out only by the id/remote-name lookups", "the scan can skip a directory for another reason than being a live (or non-remote) snapshot, e.g. by its name: temporary directories left by a crashed Prepare are never reclaimed: "+c.pathStr(f, path))
}

// clauseRestartFlagWiring: the service hands snapshot.AllowInvalidMountsOnRestart to the snapshotter exactly when the
// configuration field of that name is set.
func clauseRestartFlagWiring(c *Ctx, id string) {
	c.clause(id, "T5", "service: the snapshotter option AllowInvalidMountsOnRestart is added on the true edge of the configuration field of the same name", 1)
	f := c.mustFn("service", "NewStargzSnapshotterService")
	if f == nil {
		return
	}
	n := 0
	eachInstr(f, func(i ssa.Instruction) {
		// the option value is referenced as a function value
		var ops []*ssa.Value
		for _, op := range i.Operands(ops) {
			if *op == nil {
				continue
			}
			fn, ok := (*op).(*ssa.Function)
			if !ok || fn.Name() != "AllowInvalidMountsOnRestart" {
				continue
			}
			n++
			on := condEdges(f, func(cond ssa.Value) int {
				if _, ok := isFieldLoadAny(cond, "AllowInvalidMountsOnRestart"); ok {
					return 1
				}
				return 0
			})
			okp, _ := mustPass(f, i, newCuts().addEdges(on))
			c.verdict(c.fnKey(f)+":allow-invalid-mounts-wiring", i.Pos(), okp && len(on) > 0, "option follows config.AllowInvalidMountsOnRestart", "the restart tolerance option is driven by another configuration field: allow_invalid_mounts_on_restart is not honoured (or is enabled by an unrelated setting)")
		}
	})
	if n == 0 {
		c.bad(c.fnKey(f)+":allow-invalid-mounts-wiring", f.Pos(), "the service no longer passes AllowInvalidMountsOnRestart to the snapshotter")
	}
}

// clauseStorePoolPremises: three premises of the store's reference pool and use counters.
func clauseStorePoolPremises(c *Ctx, id string) {
	c.clause(id, "T9+T1+T2", "store: the per-image pool directory is named by a digest of the reference (injective); a failed read of pooled metadata always falls back to fetching; LayerManager.use counts the use on every return", 3)
	if f := c.mustFn("store", "(*refPool).metadataDir"); f != nil {
		good := false
		for _, r := range realReturns(f) {
			for _, v := range retVals(r, 0) {
				if derivesFromCall(v, "github.com/opencontainers/go-digest.FromString", 0) || derivesFromCall(v, "github.com/opencontainers/go-digest.FromBytes", 0) {
					good = true
				}
			}
		}
		c.verdict(c.fnKey(f)+":dir-by-digest", f.Pos(), good, "directory name derives from a digest of the reference", "the pool directory is named by a lossy rewriting of the reference (':' and '-' collapse): two images share one manifest/config directory and the second one's layers are reported missing")
	}
	if f := c.mustFn("store", "(*refPool).loadRef"); f != nil {
		reads := callsIn(f, idIs("store.(*refPool).readManifestAndConfig"))
		fetches := callsIn(f, idIs("store.(*refPool).fetchManifestAndConfig"))
		good := len(reads) == 1 && len(fetches) >= 1
		detail := ""
		if good {
			for _, er := range errResults(reads[0]) {
				for _, e := range nonNilEdges(f, er) {
					first := f.Blocks[e.from].Succs[e.succ].Instrs[0]
					if isReturn(first) {
						good = false
					} else if hit, path := reach(f, first, isReturn, newCuts().addCalls(fetches)); hit != nil {
						good = false
						detail = c.pathStr(f, path)
					}
				}
			}
		}
		c.verdict(c.fnKey(f)+":read-failure-falls-back", f.Pos(), good, "every failed read of the pooled files leads to a fetch", "a failed read of the pooled manifest/config (e.g. a file another lookup is still writing) is returned instead of falling back to the registry: concurrent first lookups of one image fail: "+detail)
	}
	if f := c.mustFn("store", "(*LayerManager).use"); f != nil {
		var ups []ssa.Instruction
		eachInstr(f, func(i ssa.Instruction) {
			if mu, ok := i.(*ssa.MapUpdate); ok {
				if _, isInt := mu.Value.Type().Underlying().(*types.Basic); isInt {
					ups = append(ups, i)
				}
			}
		})
		good := len(ups) > 0
		for _, r := range realReturns(f) {
			if o, _ := mustPass(f, r, newCuts().addInstr(ups...)); !o {
				good = false
			}
		}
		// the image is pinned in the pool once per use, as release unpins it once per release
		pins := callsIn(f, idIs("store.(*refPool).use"))
		pinned := len(pins) > 0
		for _, r := range realReturns(f) {
			if o, _ := mustPass(f, r, newCuts().addCalls(pins)); !o {
				pinned = false
			}
		}
		c.verdict(c.fnKey(f)+":pins-every-use", f.Pos(), pinned, "every return of use has pinned the image in the pool", "use can return without refPool.use although release always calls refPool.release: the pool's count reaches zero while layers of the image are still in use, and its manifest/config directory becomes evictable")
		if rf := c.mustFn("store", "(*LayerManager).release"); rf != nil {
			unpins := callsIn(rf, idIs("store.(*refPool).release"))
			// symmetric: release unpins on every path that decrements (here: every path at all, or none)
			all := len(unpins) > 0
			for _, r := range realReturns(rf) {
				if o, _ := mustPass(rf, r, newCuts().addCalls(unpins)); !o {
					all = false
				}
			}
			c.verdict(c.fnKey(rf)+":unpins-every-release", rf.Pos(), all, "every return of release has unpinned the image", "release can return without refPool.release although use always pins: the image stays pinned forever")
		}
		c.verdict(c.fnKey(f)+":counts-every-use", f.Pos(), good, "every return of use has updated the counter", "use can return without counting (e.g. for a layer that is not resolved at that moment): a later release by another client drops the count to zero while this client still uses the layer")
	}
}

// clauseCompressorPerCall: the external-TOC compression object holds the TOC of the blob it last finished, so every
// constructor call must hand out a compressor of its own.
func clauseCompressorPerCall(c *Ctx, id string) {
	const xp = "estargz/externaltoc"
	c.clause(id, "T9", "externaltoc: every constructor of the compression allocates its GzipCompressor (which carries the finished TOC) per call; none is taken from package-level or cached state", 2)
	n := 0
	for _, nm := range []string{"NewGzipCompressor", "NewGzipCompressorWithLevel"} {
		f := c.fn(xp, nm)
		if f == nil {
			continue
		}
		n++
		good := true
		for _, r := range realReturns(f) {
			for _, v := range retVals(r, 0) {
				al, ok := stripConv(v).(*ssa.Alloc)
				if !ok || !al.Heap || al.Parent() != f {
					good = false
				}
			}
		}
		c.verdict(c.fnKey(f)+":fresh-compressor", f.Pos(), good, "returns a compressor allocated by this call", "the constructor hands out a shared or cached compressor: layers converted in parallel overwrite each other's TOC buffer and the TOC image maps a layer to another layer's TOC")
	}
	for _, nm := range []string{"NewGzipCompressionWithLevel"} {
		f := c.fn(xp, nm)
		if f == nil {
			continue
		}
		n++
		// the compressor field of the returned object comes from a constructor call (or a fresh allocation) in this call
		good := false
		eachInstr(f, func(i ssa.Instruction) {
			st, ok := i.(*ssa.Store)
			if !ok {
				return
			}
			fa, ok := st.Addr.(*ssa.FieldAddr)
			if !ok || !strings.Contains(st.Val.Type().String(), "GzipCompressor") {
				return
			}
			_ = fa
			switch x := stripConv(st.Val).(type) {
			case *ssa.Call:
				if t := staticFn(x); t != nil && (t.Name() == "NewGzipCompressorWithLevel" || t.Name() == "NewGzipCompressor") {
					good = true
				}
			case *ssa.Alloc:
				good = x.Heap
			}
		})
		c.verdict(c.fnKey(f)+":fresh-compressor", f.Pos(), good, "the compression object gets a compressor constructed by this call", "the compression object is built around a shared or cached compressor")
	}
	if n == 0 {
		c.bad(xp+":constructors", token.NoPos, "no constructor of the external-TOC compressor found")
	}
}

// clauseCheckAnswersFromBackend: filesystem.check (the backend side of the snapshotter's availability
// check) reports "available" (nil) only on the success edge of Layer.Check or Layer.Refresh; every other
// return carries an error that is non-nil by construction.
func clauseCheckAnswersFromBackend(c *Ctx, id string) {
	c.clause(id, "T1+T9", "filesystem.check answers nil only on the success edge of Layer.Check or Layer.Refresh; every other return value is an error that is non-nil by construction (a constructor, or an error result on its non-nil edge)", 3)
	f := c.mustFn("fs", "(*filesystem).check")
	if f == nil {
		return
	}
	probes := callsIn(f, func(id string, ci ssa.CallInstruction) bool {
		return id == "fs/layer.(Layer).Check" || id == "fs/layer.(Layer).Refresh"
	})
	var succ []edge
	for _, p := range probes {
		succ = append(succ, successEdges(f, p)...)
	}
	if len(probes) < 2 {
		c.unk(c.fnKey(f)+":probes", f.Pos(), "Layer.Check / Layer.Refresh calls not found in filesystem.check")
		return
	}
	seenPhi := map[*ssa.Phi]bool{}
	var nonNil func(v ssa.Value, r *ssa.Return, d int) bool
	nonNil = func(v ssa.Value, r *ssa.Return, d int) bool {
		v = stripConv(v)
		if d > 6 {
			return false
		}
		switch x := v.(type) {
		case *ssa.Call:
			switch calleeID(x) {
			case "fmt.Errorf", "errors.New":
				return true
			}
			return false
		case *ssa.MakeInterface:
			return nonNil(x.X, r, d+1) || !isNilConst(x.X)
		case *ssa.Phi:
			if seenPhi[x] {
				return true // loop-carried: decided by the other edges
			}
			seenPhi[x] = true
			for _, e := range x.Edges {
				if !nonNil(e, r, d+1) {
					return false
				}
			}
			return true
		case *ssa.Extract:
			// an error result: the return must lie behind its non-nil edge
			ne := nonNilEdges(f, x)
			if len(ne) == 0 {
				return false
			}
			okp, _ := mustPass(f, r, newCuts().addEdges(ne))
			return okp
		}
		// a single error result used directly
		if call, ok := v.(*ssa.Call); ok && isErrorType(call.Type()) {
			ne := nonNilEdges(f, call)
			okp, _ := mustPass(f, r, newCuts().addEdges(ne))
			return okp && len(ne) > 0
		}
		return false
	}
	n := 0
	for _, r := range realReturns(f) {
		for _, v := range retVals(r, 0) {
			n++
			key := c.fnKey(f) + ":return"
			if isNilConst(v) {
				okp, path := mustPass(f, r, newCuts().addEdges(succ))
				c.verdict(key, r.Pos(), okp, "nil only after Check or Refresh succeeded", "filesystem.check can answer nil without a successful Check or Refresh: "+c.pathStr(f, path))
				continue
			}
			seenPhi = map[*ssa.Phi]bool{}
			good := nonNil(v, r, 0)
			if !good {
				// error result of a single-result call tested on its non-nil edge
				if call, ok := stripConv(v).(*ssa.Call); ok {
					ne := nonNilEdges(f, call)
					if okp, _ := mustPass(f, r, newCuts().addEdges(ne)); okp && len(ne) > 0 {
						good = true
					}
				}
			}
			c.verdict(key, r.Pos(), good, "returns an error that is non-nil by construction", "filesystem.check returns a value that can be nil although neither Check nor Refresh succeeded (e.g. an empty errors.Join, or no source to refresh from): an unreachable layer is reported available and the snapshotter hands out its mounts")
		}
	}
	if n == 0 {
		c.unk(c.fnKey(f)+":return", f.Pos(), "no return found")
	}
}

// clauseInodeNumbersFreedOnForget: store inode numbers go back to the id map only from OnForget methods,
// i.e. after the kernel dropped its references; go-fuse still resolves {mode, ino} of a removed node to the
// stale node until then.
func clauseInodeNumbersFreedOnForget(c *Ctx, id string) {
	c.clause(id, "T3", "store: an inode number is returned to the id map only by the OnForget method of the node that owns it (never at Rmdir/release time, while the kernel may still hold the stale node under that number)", 4)
	n := 0
	for _, s := range c.callSitesOf(idIs("store.(*idMap).remove"), c.liveFuncs()) {
		n++
		f := s.caller
		isForget := f.Name() == "OnForget" && f.Signature.Recv() != nil
		ownIno := false
		if isForget && len(f.Params) > 0 {
			// argument derives from the receiver's own attribute
			ownIno = flowsFromParam(s.instr.(ssa.CallInstruction).Common().Args[1], f.Params[0])
		}
		c.verdict(c.fnKey(f)+":idMap.remove", s.instr.Pos(), isForget && ownIno, "number of the forgotten node itself, freed in OnForget", "an inode number is recycled outside OnForget (or for another node): a node looked up next can be confused with the stale node the kernel still references under that number, and a released layer's directory answers for a different digest")
	}
	if n == 0 {
		c.unk("store:idMap.remove", token.NoPos, "no caller of idMap.remove found")
	}
}

// flowsFromParam: v is computed from parameter p through field selections, loads and conversions only.
func flowsFromParam(v ssa.Value, p *ssa.Parameter) bool {
	for d := 0; d < 12; d++ {
		v = stripConv(v)
		switch x := v.(type) {
		case *ssa.Parameter:
			return x == p
		case *ssa.UnOp:
			v = x.X
		case *ssa.FieldAddr:
			v = x.X
		case *ssa.Field:
			v = x.X
		case *ssa.Convert:
			v = x.X
		default:
			return false
		}
	}
	return false
}

// clauseMemoisedResolveDetached: LayerManager.resolveLayer memoises its outcome (also a failure) per
// image and layer; the context it runs under must therefore not be the cancellable context of the client
// request that happened to trigger it.
func clauseMemoisedResolveDetached(c *Ctx, id string) {
	c.clause(id, "T9", "store: resolveLayer (whose result, error included, is memoised for all later lookups) runs under a context that is detached from the triggering request (context.Background/TODO/WithoutCancel, possibly decorated with values), never under the caller's cancellable context", 1)
	var detached func(v ssa.Value, d int) bool
	detached = func(v ssa.Value, d int) bool {
		if d > 6 {
			return false
		}
		for _, rv := range reachingVals(v) {
			rv = stripConv(rv)
			call, ok := rv.(*ssa.Call)
			if !ok {
				// captured variable of the enclosing function: look at the binding
				if fv, isFV := rv.(*ssa.FreeVar); isFV {
					if b := bindingOf(fv); b != nil && detached(b, d+1) {
						continue
					}
				}
				return false
			}
			switch cid := calleeID(call); {
			case cid == "context.Background" || cid == "context.TODO" || cid == "context.WithoutCancel":
			case cid == "context.WithValue" || strings.HasSuffix(cid, "log.WithLogger"):
				if !detached(call.Call.Args[0], d+1) {
					return false
				}
			default:
				return false
			}
		}
		return true
	}
	n := 0
	for _, s := range c.callSitesOf(idIs("store.(*LayerManager).resolveLayer"), c.liveFuncs()) {
		n++
		args := s.instr.(ssa.CallInstruction).Common().Args
		c.verdict(c.fnKey(s.caller)+":resolve-context", s.instr.Pos(), len(args) > 1 && detached(args[1], 0), "resolveLayer runs under a detached context", "resolveLayer runs under the context of the client request: when that client gives up, the cancellation error is memoised and every later lookup of the layer fails although nothing is wrong with it")
	}
	if n == 0 {
		c.unk("store:resolveLayer-call", token.NoPos, "no call of resolveLayer found")
	}
}

// bindingOf: the value bound to free variable fv where its closure is created (cells are looked through).
func bindingOf(fv *ssa.FreeVar) ssa.Value {
	fn := fv.Parent()
	par := fn.Parent()
	if par == nil {
		return nil
	}
	idx := -1
	for i, x := range fn.FreeVars {
		if x == fv {
			idx = i
		}
	}
	var out ssa.Value
	eachInstr(par, func(i ssa.Instruction) {
		if mc, ok := i.(*ssa.MakeClosure); ok && mc.Fn == fn && idx >= 0 && idx < len(mc.Bindings) {
			out = mc.Bindings[idx]
		}
	})
	return out
}

// clauseReclaimReallyRemoves: the directory-reclaiming function of package snapshot (the one that calls
// os.RemoveAll) reports success only on the success edge of RemoveAll of its directory argument; and the
// directory preparation of restoreRemoteSnapshot creates both snapshots/<id> and its fs mountpoint on every
// successful path.
func clauseReclaimReallyRemoves(c *Ctx, id string) {
	c.clause(id, "T1+T2", "snapshot: the reclaiming function returns nil only after os.RemoveAll of its directory succeeded (an orphan without an fs sub-directory is reclaimed too); restore's directory preparation passes Mkdir of snapshots/<id> and of its fs mountpoint on every successful path", 2)
	n := 0
	for _, f := range c.pkgFuncs("snapshot") {
		rms := callsIn(f, idIs("os.RemoveAll"))
		if len(rms) == 0 {
			continue
		}
		var succ []edge
		for _, r := range rms {
			if _, isParam := stripConv(r.Common().Args[0]).(*ssa.Parameter); isParam {
				succ = append(succ, successEdges(f, r)...)
			}
		}
		for _, r := range realReturns(f) {
			nres := len(r.Results)
			if nres == 0 {
				continue
			}
			for _, v := range retVals(r, nres-1) {
				if !isNilConst(v) {
					continue
				}
				n++
				okp, path := mustPass(f, r, newCuts().addEdges(succ))
				c.verdict(c.fnKey(f)+":nil-after-RemoveAll", r.Pos(), okp && len(succ) > 0, "success only after the directory was removed", "the reclaiming function can report success without having removed the directory (e.g. when it has no fs sub-directory): leftovers of a crash survive every cleanup pass: "+c.pathStr(f, path))
			}
		}
	}
	if f := c.mustFn("snapshot", "(*snapshotter).restoreRemoteSnapshot"); f != nil {
		for _, lit := range c.withHelpers(f) {
			mk := callsIn(lit, idIs("os.Mkdir", "os.MkdirAll"))
			if len(mk) < 2 {
				continue
			}
			for _, r := range realReturns(lit) {
				nres := len(r.Results)
				if nres == 0 {
					continue
				}
				for _, v := range retVals(r, nres-1) {
					if !isNilConst(v) {
						continue
					}
					n++
					all := true
					for _, m := range mk {
						if okp, _ := mustPass(lit, r, newCuts().addInstr(m)); !okp {
							all = false
						}
					}
					c.verdict(c.fnKey(lit)+":both-directories-prepared", r.Pos(), all, "every successful path created (or found) both directories", "restore can report the snapshot directory as prepared without passing the Mkdir of its fs mountpoint: a crash image that has snapshots/<id> but no fs makes the re-mount fail")
				}
			}
		}
	}
	if n < 2 {
		c.unk("snapshot:reclaim/restore-sites", token.NoPos, "reclaiming function or restore's directory preparation not found")
	}
}

// clauseLayerRootIsMetadataRoot: "is this the layer's root directory" (which gates the hiding of the
// landmarks and the state directory) is decided by comparing the node's id with the metadata reader's root id,
// not by the node's position in the FUSE tree (the store attaches layers below its own tree).
func clauseLayerRootIsMetadataRoot(c *Ctx, id string) {
	c.clause(id, "T9", "fs/layer: isRootNode compares the node's own id with the root id obtained from the metadata reader (RootID()); it does not ask go-fuse whether the inode is the root of the mounted tree", 2)
	f := c.mustFn("fs/layer", "(*node).isRootNode")
	if f == nil {
		return
	}
	good, n := true, 0
	for _, r := range realReturns(f) {
		for _, v := range retVals(r, 0) {
			n++
			b, ok := stripConv(v).(*ssa.BinOp)
			if !ok || b.Op != token.EQL {
				good = false
				continue
			}
			_, okX := loadOfField(b.X)
			_, okY := loadOfField(b.Y)
			names := map[string]bool{}
			for _, s := range []ssa.Value{b.X, b.Y} {
				if fa, ok := loadOfField(s); ok {
					names[fieldName(fa)] = true
				}
			}
			if !okX || !okY || !names["id"] || !names["rootID"] {
				good = false
			}
		}
	}
	c.verdict(c.fnKey(f)+":by-metadata-root-id", f.Pos(), good && n > 0, "n.id == n.fs.rootID", "the layer root is not recognised by the metadata root id: where the layer is attached below another FUSE tree (stargz-store) the landmarks become visible and the state directory disappears")
	// rootID is written only from Reader.RootID()
	w := 0
	for _, a := range c.fieldAccesses("fs/layer.fs", "rootID", c.liveFuncs()) {
		if !a.write {
			continue
		}
		w++
		st := a.instr.(*ssa.Store)
		fromReader := false
		for _, rv := range reachingVals(st.Val) {
			if call, ok := stripConv(rv).(*ssa.Call); ok && strings.HasSuffix(calleeID(call), ".RootID") {
				fromReader = true
			}
		}
		c.verdict(c.fnKey(a.fn)+":rootID-source", st.Pos(), fromReader, "fs.rootID is the metadata reader's RootID()", "fs.rootID is not taken from the metadata reader")
	}
	if w == 0 {
		c.unk("fs/layer.fs.rootID", token.NoPos, "no writer of fs.rootID found")
	}
}

// clauseDigestParsedBeforeUse: go-digest panics in Verifier()/Algorithm().Hash() for a digest string with
// an unknown algorithm or without a colon. Digest strings from the TOC are untrusted: a digest whose methods
// are called must come from digest.Parse (or another validating/constructing function), never from a bare
// string conversion.
func clauseDigestParsedBeforeUse(c *Ctx, id string) {
	c.clause(id, "T9", "a digest.Digest whose Verifier()/Algorithm()/Hex()/Encoded() is called in the untrusted-input packages never comes from a bare conversion of a string (digest.Digest(s)) without Validate: go-digest panics on unknown algorithms and malformed strings", 1)
	pk := map[string]bool{"fs/reader": true, "fs/layer": true, "fs/remote": true, "estargz": true, "metadata/memory": true, "cmd/containerd-stargz-grpc/db": true, "estargz/zstdchunked": true, "estargz/externaltoc": true, "fs": true, "store": true}
	n := 0
	for _, f := range c.liveFuncs() {
		if f.Pkg == nil || !pk[rel(f.Pkg.Pkg.Path())] {
			continue
		}
		eachInstr(f, func(i ssa.Instruction) {
			ci, ok := asCall(i)
			if !ok {
				return
			}
			cid := calleeID(ci)
			if !strings.HasSuffix(cid, "go-digest.(Digest).Verifier") && !strings.HasSuffix(cid, "go-digest.(Digest).Algorithm") && !strings.HasSuffix(cid, "go-digest.(Digest).Hex") && !strings.HasSuffix(cid, "go-digest.(Digest).Encoded") {
				return
			}
			n++
			recv := ci.Common().Args[0]
			bare := false
			cands := []ssa.Value{recv}
			if ld, ok := recv.(*ssa.UnOp); ok {
				if a, ok := ld.X.(*ssa.Alloc); ok {
					for _, r := range *a.Referrers() {
						if st, ok := r.(*ssa.Store); ok && st.Addr == a {
							cands = append(cands, st.Val)
						}
					}
				}
			}
			for _, rv := range cands {
				switch x := stripConvKeepType(rv).(type) {
				case *ssa.ChangeType:
					if b, ok := x.X.Type().Underlying().(*types.Basic); ok && b.Kind() == types.String {
						if _, isConst := x.X.(*ssa.Const); !isConst {
							bare = true
						}
					}
				case *ssa.Convert:
					if b, ok := x.X.Type().Underlying().(*types.Basic); ok && b.Kind() == types.String {
						if _, isConst := x.X.(*ssa.Const); !isConst {
							bare = true
						}
					}
				}
			}
			if bare {
				// accepted when Validate() of the same value succeeded before
				vals := callsIn(f, func(id string, v ssa.CallInstruction) bool {
					return strings.HasSuffix(id, "go-digest.(Digest).Validate") && sameValue(v.Common().Args[0], recv)
				})
				var succ []edge
				for _, v := range vals {
					succ = append(succ, successEdges(f, v)...)
				}
				if okp, _ := mustPass(f, i, newCuts().addEdges(succ)); okp && len(succ) > 0 {
					bare = false
				}
			}
			c.verdict(c.fnKey(f)+":digest-validated:"+cid[strings.LastIndex(cid, ".")+1:], i.Pos(), !bare, "the digest comes from a parsing/constructing function or a typed value", "a string from untrusted metadata is converted to digest.Digest and used without Parse/Validate: an unknown algorithm (md5:…) or a string without colon makes go-digest panic inside a FUSE read or a prefetch goroutine")
		})
	}
	if n == 0 {
		c.unk("digest-method-calls", token.NoPos, "no digest method call found in the untrusted-input packages")
	}
}

func stripConvKeepType(v ssa.Value) ssa.Value {
	for {
		switch x := v.(type) {
		case *ssa.MakeInterface:
			v = x.X
		default:
			return v
		}
	}
}
