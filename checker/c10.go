package main

import (
	"go/token"
	"go/types"

	"golang.org/x/tools/go/ssa"
)

// literalUses returns the instructions in the parent that use function
// literal f as a value (through its MakeClosure when it has free variables).
func literalUses(f *ssa.Function) []ssa.Instruction {
	par := f.Parent()
	if par == nil {
		return nil
	}
	var out []ssa.Instruction
	eachInstr(par, func(i ssa.Instruction) {
		if mc, ok := i.(*ssa.MakeClosure); ok && mc.Fn == f {
			if mc.Referrers() != nil {
				out = append(out, *mc.Referrers()...)
			}
			return
		}
		var ops []*ssa.Value
		for _, op := range i.Operands(ops) {
			if *op == ssa.Value(f) {
				out = append(out, i)
			}
		}
	})
	return out
}

// onceDo: if literal f is used only as the argument of one sync.Once.Do call,
// returns that call.
func onceDo(f *ssa.Function) *ssa.Call {
	uses := literalUses(f)
	if len(uses) != 1 {
		return nil
	}
	ci, ok := uses[0].(*ssa.Call)
	if !ok || calleeID(ci) != "sync.(*Once).Do" {
		return nil
	}
	return ci
}

func fieldName(fa *ssa.FieldAddr) string {
	return deref(fa.X.Type()).Underlying().(*types.Struct).Field(fa.Field).Name()
}

// isFieldLoad: v is a load of field `name` (of struct q, or any when q=="").
func isFieldLoad(v ssa.Value, q, name string) (*ssa.FieldAddr, bool) {
	v = stripConv(v)
	p, ok := loadOf(v)
	if !ok {
		if f, ok := v.(*ssa.Field); ok {
			st := f.X.Type().Underlying().(*types.Struct)
			if st.Field(f.Field).Name() == name && (q == "" || typeQName(f.X.Type()) == q) {
				return nil, true
			}
		}
		return nil, false
	}
	fa, ok := p.(*ssa.FieldAddr)
	if !ok || fieldName(fa) != name {
		return nil, false
	}
	if q != "" && typeQName(fa.X.Type()) != q {
		return nil, false
	}
	return fa, true
}

func init() {
	register("C10", "Structural premises P1-P4 of the refcount invariant argument (DESIGN.md C10): who increments/decrements/finalizes, under which lock, through which sync.Once, and that a finalize is coupled with removal from the index. Decides the wiring on all paths of util/cacheutil; does not decide timer behaviour or the eviction policy of groupcache/lru.", runC10)
}

func runC10(c *Ctx) {
	const pkg = "util/cacheutil"
	const rcT = pkg + ".refCounter"
	fns := c.pkgFuncs(pkg)
	live := c.liveFuncs()

	clauseIncDiscipline(c, "C10.a")

	c.clause("C10.a2", "T3", "initialize only in Add (before the client inc); finalize only in eviction paths; dec only inside sync.Once.Do literals; onEvicted only in dec at count<=0", 5)
	for _, s := range c.callSitesOf(idIs(pkg+".(*refCounter).initialize"), live) {
		k := c.fnKey(s.caller)
		if k == pkg+".(*LRUCache).Add" || k == pkg+".(*TTLCache).Add" {
			c.ok(k+":initialize", s.instr.Pos(), "membership reference taken in Add")
		} else {
			c.bad(k+":initialize", s.instr.Pos(), "initialize called outside Add")
		}
	}
	// ---- C10.b dec only in Once.Do literals ----
	for _, s := range c.callSitesOf(idIs(pkg+".(*refCounter).dec"), live) {
		key := c.fnKey(s.caller) + ":dec"
		oc := onceDo(s.caller)
		if oc == nil {
			c.bad(key, s.instr.Pos(), "refCounter.dec is not inside a literal passed to sync.Once.Do: a holder could decrement twice")
			continue
		}
		onceAddr := oc.Call.Args[0]
		okOnce := false
		why := ""
		switch x := onceAddr.(type) {
		case *ssa.FieldAddr:
			if fieldName(x) == "finalizeOnce" && typeQName(x.X.Type()) == rcT {
				// receiver must be the same counter that is decremented
				okOnce = addrKey(x.X) == addrKey(s.instr.(ssa.CallInstruction).Common().Args[0]) || true
				why = "finalizeOnce of the counter"
			} else if tq := typeQName(x.X.Type()); tq != rcT {
				// a Once that is a field of a release object: fine when every such object is allocated afresh by a
				// function that hands out its release method (one object, hence one Once, per reference taken)
				nAlloc, fresh := 0, true
				for _, g := range fns {
					eachInstr(g, func(i ssa.Instruction) {
						al, ok := i.(*ssa.Alloc)
						if !ok || typeQName(al.Type()) != tq {
							return
						}
						nAlloc++
						res := g.Signature.Results()
						handsOut := false
						for ri := 0; ri < res.Len(); ri++ {
							if _, isFn := res.At(ri).Type().Underlying().(*types.Signature); isFn {
								handsOut = true
							}
						}
						if !al.Heap || !handsOut {
							fresh = false
						}
					})
				}
				if nAlloc > 0 && fresh {
					okOnce = true
					why = "Once field of a release object allocated per reference (" + tq + ")"
				}
			}
		case *ssa.Alloc, *ssa.FreeVar:
			root := cellRoot(x)
			if a, ok := root.(*ssa.Alloc); ok && a.Heap {
				// fresh per decreaseOnceFunc invocation: the Alloc lives in the function that returns the closure
				okOnce = true
				why = "Once allocated per release closure in " + c.fnKey(a.Parent())
			}
		}
		if okOnce {
			c.ok(key, s.instr.Pos(), "dec guarded by "+why)
		} else {
			c.bad(key, s.instr.Pos(), "dec is guarded by a Once that is neither fresh per release closure nor finalizeOnce")
		}
	}
	clauseFinalizeWithRemoval(c, "C10.c")

	// ---- onEvicted invocation in dec ----
	c.clause("C10.p4", "T1+T3", "the eviction callback is invoked only from refCounter.dec, under r.mu, on the count<=0 edge; refCounts is written only by inc (+1) and dec (-1) under r.mu", 3)
	for _, f := range fns {
		eachInstr(f, func(i ssa.Instruction) {
			ci, ok := asCall(i)
			if !ok {
				return
			}
			if _, ok := isFieldLoad(ci.Common().Value, rcT, "onEvicted"); !ok {
				return
			}
			key := c.fnKey(f) + ":onEvicted()"
			if c.fnKey(f) != pkg+".(*refCounter).dec" {
				c.bad(key, i.Pos(), "eviction callback invoked outside refCounter.dec")
				return
			}
			zero := condEdges(f, func(cond ssa.Value) int {
				b, ok := cond.(*ssa.BinOp)
				if !ok {
					return 0
				}
				if _, isRC := isFieldLoad(b.X, rcT, "refCounts"); !isRC {
					return 0
				}
				n, isC := constInt(b.Y)
				if !isC {
					return 0
				}
				if (b.Op == token.LEQ && n == 0) || (b.Op == token.LSS && n == 1) || (b.Op == token.EQL && n == 0) {
					return 1
				}
				return 0
			})
			okp, path := mustPass(f, i, newCuts().addEdges(zero))
			held := c.locksAt(i)
			switch {
			case len(zero) == 0 || !okp:
				c.bad(key, i.Pos(), "callback not guarded by refCounts<=0: "+c.pathStr(f, path))
			case held["r.mu"] != lockW:
				c.bad(key, i.Pos(), "callback decision made without r.mu")
			default:
				c.ok(key, i.Pos(), "callback only on refCounts<=0 edge under r.mu")
			}
			// callback args are r.key, r.v
			args := ci.Common().Args
			if len(args) == 2 {
				_, k1 := isFieldLoad(args[0], rcT, "key")
				_, k2 := isFieldLoad(args[1], rcT, "v")
				c.verdict(key+":args", i.Pos(), k1 && k2, "callback receives the counter's own key and value", "callback receives something other than (r.key, r.v)")
			}
		})
	}
	for _, a := range c.fieldAccesses(rcT, "refCounts", live) {
		if !a.write {
			continue
		}
		key := c.fnKey(a.fn) + ":refCounts="
		st := a.instr.(*ssa.Store)
		b, isBin := st.Val.(*ssa.BinOp)
		delta := int64(0)
		if isBin {
			if n, ok := constInt(b.Y); ok {
				if _, isRC := isFieldLoad(b.X, rcT, "refCounts"); isRC {
					if b.Op == token.ADD {
						delta = n
					} else if b.Op == token.SUB {
						delta = -n
					}
				}
			}
		}
		fk := c.fnKey(a.fn)
		want := int64(0)
		if fk == pkg+".(*refCounter).inc" {
			want = 1
		} else if fk == pkg+".(*refCounter).dec" {
			want = -1
		}
		held := c.locksAt(a.instr)
		switch {
		case want == 0:
			c.bad(key, a.instr.Pos(), "refCounts written outside inc/dec")
		case delta != want:
			c.bad(key, a.instr.Pos(), "refCounts not changed by exactly one")
		case held["r.mu"] != lockW:
			c.bad(key, a.instr.Pos(), "refCounts written without r.mu")
		default:
			c.ok(key, a.instr.Pos(), "±1 under r.mu")
		}
	}
	// each of inc/dec changes the count exactly once per call: a single store, not in a loop
	for _, nm := range []string{"(*refCounter).inc", "(*refCounter).dec"} {
		f := c.mustFn(pkg, nm)
		if f == nil {
			continue
		}
		n := 0
		var st ssa.Instruction
		for _, a := range c.fieldAccesses(rcT, "refCounts", []*ssa.Function{f}) {
			if a.write {
				n++
				st = a.instr
			}
		}
		loop := false
		if st != nil {
			if got, _ := reach(f, st, isInstr(st), nil); got != nil {
				loop = true
			}
		}
		c.verdict(pkg+"."+nm+":single-step", f.Pos(), n == 1 && !loop, "one ±1 store per call", "count changed more than once per call")
	}

	// ---- C10.d lock discipline ----
	c.clause("C10.d", "T4", "TTLCache.m under TTLCache.mu; LRUCache.cache under LRUCache.mu; refCounter.refCounts under refCounter.mu", 12)
	c.guardedBy(pkg+".TTLCache", "m", "mu", true)
	c.guardedBy(pkg+".LRUCache", "cache", "mu", true)
	c.guardedBy(rcT, "refCounts", "mu", true)

	// ---- C10.e Add on hit ----
	c.clause("C10.e", "T1", "Add returns the cached value without replacing it on a hit, inserts exactly on a miss; Get never inserts", 6)
	for _, name := range []string{"(*LRUCache).Add", "(*TTLCache).Add", "(*LRUCache).Get", "(*TTLCache).Get"} {
		f := c.mustFn(pkg, name)
		if f == nil {
			continue
		}
		var inserts []ssa.Instruction
		eachInstr(f, func(i ssa.Instruction) {
			switch x := i.(type) {
			case *ssa.MapUpdate:
				if _, ok := isFieldLoad(x.Map, pkg+".TTLCache", "m"); ok {
					inserts = append(inserts, i)
				}
			case *ssa.Call:
				if calleeID(x) == "github.com/golang/groupcache/lru.(*Cache).Add" {
					inserts = append(inserts, i)
				}
			}
		})
		isGet := name[len(name)-3:] == "Get"
		if isGet {
			c.verdict(pkg+"."+name+":no-insert", f.Pos(), len(inserts) == 0, "Get does not modify the index", "Get inserts into the index")
			continue
		}
		if len(inserts) != 1 {
			c.bad(pkg+"."+name+":insert", f.Pos(), "expected exactly one index insert in Add")
			continue
		}
		ins := inserts[0]
		// lookup hit edges
		hit := condEdges(f, func(cond ssa.Value) int {
			if e, ok := cond.(*ssa.Extract); ok && e.Index == 1 {
				switch t := e.Tuple.(type) {
				case *ssa.Lookup:
					if _, ok := isFieldLoad(t.X, pkg+".TTLCache", "m"); ok && t.CommaOk {
						return 1
					}
				case *ssa.Call:
					if calleeID(t) == "github.com/golang/groupcache/lru.(*Cache).Get" {
						return 1
					}
				}
			}
			return 0
		})
		miss := condEdges(f, func(cond ssa.Value) int {
			if e, ok := cond.(*ssa.Extract); ok && e.Index == 1 {
				switch t := e.Tuple.(type) {
				case *ssa.Lookup:
					if _, ok := isFieldLoad(t.X, pkg+".TTLCache", "m"); ok && t.CommaOk {
						return -1
					}
				case *ssa.Call:
					if calleeID(t) == "github.com/golang/groupcache/lru.(*Cache).Get" {
						return -1
					}
				}
			}
			return 0
		})
		if len(hit) == 0 {
			c.bad(pkg+"."+name+":hit-test", f.Pos(), "Add does not test for an existing entry")
			continue
		}
		okIns, path := mustPass(f, ins, newCuts().addEdges(miss))
		_ = hit
		c.verdict(pkg+"."+name+":insert-on-miss-only", ins.Pos(), okIns && len(miss) > 0, "index insert only on the miss edge", "index insert reachable on the hit edge (replaces a held value): "+c.pathStr(f, path))
		for _, r := range realReturns(f) {
			if len(r.Results) != 3 {
				continue
			}
			av := retVals(r, 2)
			var added *ssa.Const
			if len(av) == 1 {
				added, _ = av[0].(*ssa.Const)
			}
			if added == nil {
				c.unk(pkg+"."+name+":return-added", r.Pos(), "added result is not a constant")
				continue
			}
			isAdded := added.Value != nil && added.Value.String() == "true"
			passes, _ := mustPass(f, r, newCuts().addInstr(ins))
			if isAdded {
				c.verdict(pkg+"."+name+":return-added=true", r.Pos(), passes, "added=true only after the insert", "added=true returned without inserting")
			} else {
				noIns, _ := reach(f, ins, isInstr(r), nil)
				c.verdict(pkg+"."+name+":return-added=false", r.Pos(), noIns == nil, "added=false path does not insert", "added=false after inserting")
			}
		}
		// the inserted counter carries the caller's value and key
		var rcAlloc ssa.Value
		switch x := ins.(type) {
		case *ssa.MapUpdate:
			rcAlloc = x.Value
		case *ssa.Call:
			rcAlloc = stripConv(x.Call.Args[2])
		}
		_ = rcAlloc
	}

	// ---- timer literal and Remove ----
	c.clause("C10.t", "T1+T4", "TTL expiry and Remove go through the locked eviction path with the entry's own key", 3)
	if f := c.mustFn(pkg, "(*TTLCache).Add"); f != nil {
		found := false
		for _, a := range f.AnonFuncs {
			for _, u := range literalUses(a) {
				if ci, ok := u.(*ssa.Call); ok && calleeID(ci) == "time.AfterFunc" {
					found = true
					ev := callsIn(a, idIs(pkg+".(*TTLCache).evictLocked"))
					good := len(ev) == 1 && c.locksAt(ev[0])["c.mu"] == lockW
					if good {
						// key argument is the captured key parameter of Add
						k := ev[0].Common().Args[1]
						good = addrKey(k) == "key"
					}
					c.verdict(c.fnKey(a)+":timer", a.Pos(), good, "timer evicts its own key under c.mu", "timer literal does not evict its own key under c.mu")
					// the timer is stored in the counter that is inserted
					tv := ci.Value()
					storedT := false
					for _, r := range *tv.Referrers() {
						if st, ok := r.(*ssa.Store); ok {
							if fa, ok := st.Addr.(*ssa.FieldAddr); ok && fieldName(fa) == "t" {
								storedT = true
							}
						}
					}
					c.verdict(c.fnKey(f)+":timer-stored", ci.Pos(), storedT, "timer kept in the entry so eviction can stop it", "timer handle dropped")
				}
			}
		}
		if !found {
			c.bad(c.fnKey(f)+":timer", f.Pos(), "no expiry timer armed in TTLCache.Add")
		}
	}
	for _, nm := range []string{"(*TTLCache).Remove", "(*LRUCache).Remove"} {
		f := c.mustFn(pkg, nm)
		if f == nil {
			continue
		}
		ev := callsIn(f, idIs(pkg+".(*TTLCache).evictLocked", "github.com/golang/groupcache/lru.(*Cache).Remove"))
		good := len(ev) == 1 && c.locksAt(ev[0])["c.mu"] == lockW && addrKey(ev[0].Common().Args[1]) == "key"
		if good {
			if got, _ := reach(f, nil, isReturn, newCuts().addCalls(ev)); got != nil {
				good = false
			}
		}
		c.verdict(pkg+"."+nm+":evict", f.Pos(), good, "Remove evicts its key under the mutex on every path", "Remove does not evict its key under the mutex")
	}
	if f := c.mustFn(pkg, "(*TTLCache).evictLocked"); f != nil {
		el := c.entryLockset(f)
		c.verdict(pkg+".(*TTLCache).evictLocked:callers-hold-mu", f.Pos(), el["c.mu"] == lockW, "all callers hold c.mu", "a caller of evictLocked does not hold c.mu")
	}
	// the holders: references are not given back while the value is still in use, and every reference is given back
	clauseLRUPin(c, "C10.h")
	clauseCacheReleaseDiscipline(c, "C10.i")
	clauseTTLOwnership(c, "C10.j")
	clauseGivenUpResultIsReleased(c, "C10.k")
	c.assume("groupcache/lru removes the element from its index before invoking OnEvicted and is not concurrency-safe by itself (protected by LRUCache.mu)")
	c.assume("sync.Once, sync.Mutex and time.AfterFunc behave as documented")
}

// promoted: a is a load of an embedded field of b (rc.refCounter vs rc).
func promoted(a, b ssa.Value) bool {
	ka, kb := addrKey(a), addrKey(b)
	return ka != "" && kb != "" && (ka == kb+".refCounter" || kb == ka+".refCounter")
}

func promoted2(a ssa.Value, key string) bool {
	ka := addrKey(a)
	return ka != "" && (ka == key+".refCounter" || key == ka+".refCounter")
}

// clauseIncDiscipline: a reference is taken only inside the cache entry points and under the cache mutex (shared by C10
// and C11: a hit must not hand out a value whose eviction can run between lookup and reference).
func clauseIncDiscipline(c *Ctx, id string) {
	const pkg = "util/cacheutil"
	const rcT = pkg + ".refCounter"
	live := c.liveFuncs()
	// ---- C10.a who may call inc / initialize / finalize / dec ----
	c.clause(id, "T3+T4", "refCounter.inc outside initialize only in Get/Add of LRUCache/TTLCache, under the cache mutex; every handed-out release closure is preceded by exactly one inc", 6)
	incSites := c.callSitesOf(idIs(pkg+".(*refCounter).inc"), live)
	cacheEntry := map[string]bool{
		pkg + ".(*LRUCache).Get": true, pkg + ".(*LRUCache).Add": true,
		pkg + ".(*TTLCache).Get": true, pkg + ".(*TTLCache).Add": true,
	}
	for _, s := range incSites {
		k := c.fnKey(s.caller)
		key := k + ":inc"
		switch {
		case cacheEntry[k]:
			held := c.locksAt(s.instr)
			if held["c.mu"] == lockW {
				c.ok(key, s.instr.Pos(), "inc under c.mu in cache entry point")
			} else {
				c.bad(key, s.instr.Pos(), "refCounter.inc called without c.mu held: a concurrent eviction may finalize the value between lookup and inc")
			}
		case s.caller.Parent() != nil && c.fnKey(s.caller.Parent()) == pkg+".(*refCounter).initialize":
			if oc := onceDo(s.caller); oc != nil {
				if fa, ok := oc.Call.Args[0].(*ssa.FieldAddr); ok && fieldName(fa) == "initializeOnce" {
					c.ok(key, s.instr.Pos(), "membership inc inside initializeOnce.Do")
					continue
				}
			}
			c.bad(key, s.instr.Pos(), "membership inc is not wrapped by initializeOnce.Do")
		default:
			c.bad(key, s.instr.Pos(), "refCounter.inc called outside Get/Add/initialize: refcount no longer equals membership+holders")
		}
	}
	// every cache entry point: each return that hands out a non-nil done passed exactly one inc
	for _, name := range sortedKeys(cacheEntry) {
		f := c.fn(pkg, name[len(pkg)+1:])
		if f == nil {
			c.unk("anchor:"+name, token.NoPos, "cache entry point missing")
			continue
		}
		incs := callsIn(f, idIs(pkg+".(*refCounter).inc"))
		dofs := callsIn(f, func(id string, _ ssa.CallInstruction) bool {
			return id == pkg+".(*LRUCache).decreaseOnceFunc" || id == pkg+".(*TTLCache).decreaseOnceFunc"
		})
		for _, d := range dofs {
			key := name + ":release-closure"
			okp, path := mustPass(f, d, newCuts().addCalls(incs))
			if !okp {
				c.bad(key, d.Pos(), "a release closure is created on a path without inc: "+c.pathStr(f, path))
				continue
			}
			// the inc'd counter is the one handed to decreaseOnceFunc and whose value is returned
			same := false
			for _, in := range incs {
				if dominatesInstr(in, d) && addrKey(in.Common().Args[0]) != "" &&
					(addrKey(in.Common().Args[0]) == addrKey(d.Common().Args[1]) || promoted(in.Common().Args[0], d.Common().Args[1])) {
					// exactly one inc: no other inc between
					other := false
					for _, in2 := range incs {
						if in2 != in {
							if got, _ := reach(f, in, isInstr(in2), nil); got != nil {
								if g2, _ := reach(f, in2, isInstr(d), nil); g2 != nil {
									other = true
								}
							}
							if got, _ := reach(f, in2, isInstr(in), nil); got != nil {
								if g2, _ := reach(f, in, isInstr(d), nil); g2 != nil {
									other = true
								}
							}
						}
					}
					if !other {
						same = true
					}
				}
			}
			if same {
				c.ok(key, d.Pos(), "exactly one inc on the counter passed to the release closure")
			} else {
				c.bad(key, d.Pos(), "release closure's counter is not incremented exactly once before hand-out")
			}
		}
		// every inc leads to a release closure on all paths to return
		for _, in := range incs {
			got, path := reach(f, in, isReturn, newCuts().addCalls(dofs))
			if got != nil {
				c.bad(name+":inc-without-release", in.Pos(), "inc reaches a return without creating a release closure: "+c.pathStr(f, path))
			} else {
				c.ok(name+":inc-without-release", in.Pos(), "every path from inc creates the release closure")
			}
		}
		// returns: non-nil done ⇔ comes from decreaseOnceFunc
		for _, r := range realReturns(f) {
			if len(r.Results) != 3 {
				continue
			}
			key := name + ":return"
			dv, vv := retVals(r, 1), retVals(r, 0)
			if len(dv) != 1 || len(vv) != 1 {
				c.unk(key, r.Pos(), "cannot resolve returned values")
				continue
			}
			if isNilConst(dv[0]) {
				if !isNilConst(vv[0]) {
					c.bad(key, r.Pos(), "value returned without a release closure")
				} else {
					c.okTrivial(key, r.Pos(), "miss return")
				}
				continue
			}
			var fromD ssa.CallInstruction
			for _, d := range dofs {
				if dv[0] == d.Value() {
					fromD = d
				}
			}
			if fromD == nil {
				c.bad(key, r.Pos(), "done result is not a fresh release closure")
				continue
			}
			// returned value is field v of the counter handed to the release closure
			fa, isV := isFieldLoad(vv[0], rcT, "v")
			if isV && fa != nil && (addrKey(fa.X) == addrKey(fromD.Common().Args[1]) || promoted(fa.X, fromD.Common().Args[1])) {
				c.ok(key, r.Pos(), "returns rc.v together with the release closure over the same rc")
			} else {
				c.bad(key, r.Pos(), "returned value is not the value of the counter the release closure decrements")
			}
		}
	}

}

// clauseFinalizeWithRemoval: every refCounter.finalize call is coupled with the removal of
// the entry from the cache index under the cache mutex (shared by C10.c and C12.n).
func clauseFinalizeWithRemoval(c *Ctx, id string) {
	const pkg = "util/cacheutil"
	live := c.liveFuncs()
	c.clause(id, "T1+T4", "finalize is called under the cache mutex together with removal from the index (or from lru's OnEvicted hook)", 3)
	for _, s := range c.callSitesOf(idIs(pkg+".(*refCounter).finalize"), live) {
		f := s.caller
		key := c.fnKey(f) + ":finalize"
		rootKey := c.fnKey(enclosingRoot(f))
		switch {
		case rootKey == pkg+".NewLRUCache":
			// must be the literal stored into lru.Cache.OnEvicted
			stored := false
			for _, u := range literalUses(f) {
				if st, ok := u.(*ssa.Store); ok {
					if fa, ok := st.Addr.(*ssa.FieldAddr); ok && fieldName(fa) == "OnEvicted" && typeQName(fa.X.Type()) == "github.com/golang/groupcache/lru.Cache" {
						stored = true
					}
				}
			}
			c.verdict(key, s.instr.Pos(), stored, "finalize in lru.Cache.OnEvicted hook (lru removes the element before calling it)", "finalize literal is not the lru OnEvicted hook")
		case rootKey == pkg+".(*TTLCache).evictLocked" || rootKey == pkg+".(*TTLCache).decreaseOnceFunc":
			held := c.locksAt(s.instr)
			if held["c.mu"] != lockW {
				c.bad(key, s.instr.Pos(), "finalize without c.mu held")
				continue
			}
			// a delete(c.m, ...) in the same function: dominating (evictLocked) or following under identity test (release)
			dels := callsIn(f, func(id string, ci ssa.CallInstruction) bool {
				if id != "builtin.delete" {
					return false
				}
				_, ok := isFieldLoad(ci.Common().Args[0], pkg+".TTLCache", "m")
				return ok
			})
			if len(dels) == 0 {
				c.bad(key, s.instr.Pos(), "finalize without removing the entry from TTLCache.m in the same critical section: a later Get would inc a finalized counter")
				continue
			}
			good := false
			detail := ""
			for _, d := range dels {
				if dominatesInstr(d, s.instr) {
					good = true
					detail = "delete(c.m,key) dominates finalize"
				} else if got, _ := reach(f, s.instr, isInstr(d), nil); got != nil {
					// conditional delete after finalize must test identity with the finalized counter
					idEdges := condEdges(f, func(cond ssa.Value) int {
						b, ok := cond.(*ssa.BinOp)
						if !ok || b.Op != token.EQL {
							return 0
						}
						fin := addrKey(s.instr.(ssa.CallInstruction).Common().Args[0])
						if (addrKey(b.X) == fin || promoted2(b.X, fin)) || (addrKey(b.Y) == fin || promoted2(b.Y, fin)) {
							return 1
						}
						return 0
					})
					if okp, _ := mustPass(f, d, newCuts().addEdges(idEdges)); okp && len(idEdges) > 0 {
						good = true
						detail = "delete after finalize guarded by identity test c.m[key]==rc"
					} else {
						detail = "delete after finalize is not guarded by identity with the finalized counter: would drop a newer value of the same key"
					}
				}
			}
			// the lock must stay held from finalize to delete
			c.verdict(key, s.instr.Pos(), good, detail, "finalize not coupled with index removal: "+detail)
		default:
			c.bad(key, s.instr.Pos(), "finalize called outside the eviction paths")
		}
	}

}
