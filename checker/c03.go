package main

import (
	"fmt"
	"go/token"
	"go/types"
	"strings"

	"golang.org/x/tools/go/ssa"
)

func init() {
	register("C03", "Structural premises of 'built blobs index themselves consistently': a chunk's Offset is recorded from the compressed byte counter only right after the current stream was closed, and the min-chunk-size comparison reads that counter only after a flush; InnerOffset is derived from the uncompressed counter captured at that same boundary; every uncompressed byte goes through the wrapper that feeds the DiffID hash (nothing else writes to the compression stream); when sub-blobs are combined offsets are rebased by the sum of the preceding counters after every writer was closed and flushed; every WriteTOCAndFooter returns the digest of the very TOC bytes it writes; footer size constants agree with the footer constructors and the parsers' length checks. Round-trip equality and validity of the compressed streams are not decided.", runC03)
	register("C14", "Structural premises of 'prioritized files first, then exactly one landmark': sortEntries adds exactly one landmark on every path, after the prioritized moves, choosing the no-prefetch landmark iff the list is empty, and returns the prioritized dump followed by the remaining entries minus the picked ones; one pair of landmark constants is used by builder, writer, runtime and the FUSE layer; a landmark always starts a fresh compressed stream; moveRec adds an entry at most once; a missing path is tolerated only when the caller asked to be told. The resulting order for arbitrary inputs is not decided.", runC14)
}

const esp = "estargz"
const wrT = esp + ".Writer"

func runC03(c *Ctx) {
	at := c.mustFn(esp, "(*Writer).appendTar")

	// ---------- C03.a ----------
	c.clause("C03.a", "T1", "Offset is taken from the compressed counter only after closeGz; the min-chunk-size test reads the counter only after flushGz; InnerOffset is relative to the uncompressed counter saved at the same boundary", 3)
	if at != nil {
		closes := callsIn(at, idIs(esp+".(*Writer).closeGz"))
		flushes := callsIn(at, idIs(esp+".(*Writer).flushGz"))
		var cse, fse []edge
		for _, x := range closes {
			cse = append(cse, successEdges(at, x)...)
		}
		for _, x := range flushes {
			fse = append(fse, successEdges(at, x)...)
		}
		isCwN := func(v ssa.Value) bool {
			fa, ok := isFieldLoadAny(v, "n")
			if !ok {
				return false
			}
			_, isCw := isFieldLoad(fa.X, wrT, "cw")
			return isCw
		}
		nOff := 0
		opensAll := callsIn(at, idIs(esp+".(*Writer).condOpenGz"))
		// atBoundary: the counter is read after a successful closeGz and before the next stream opens
		atBoundary := func(v ssa.Value) bool {
			ld, ok := stripConv(v).(*ssa.UnOp)
			if !ok || len(cse) == 0 {
				return false
			}
			if okp, _ := mustPass(at, ld, newCuts().addEdges(cse)); !okp {
				return false
			}
			// no stream is (re)opened between the last successful close and the read
			for _, op := range opensAll {
				if hit, _ := reach(at, op, isInstr(ld), newCuts().addEdges(cse)); hit != nil {
					return false
				}
			}
			return true
		}
		isUcN := func(v ssa.Value) bool {
			fa2, ok := isFieldLoadAny(v, "n")
			if !ok {
				return false
			}
			_, isUc := isFieldLoad(fa2.X, wrT, "uncompressedCounter")
			return isUc
		}
		eachInstr(at, func(i ssa.Instruction) {
			st, ok := i.(*ssa.Store)
			if !ok {
				return
			}
			fa, ok := st.Addr.(*ssa.FieldAddr)
			if !ok || typeQName(fa.X.Type()) != esp+".TOCEntry" {
				return
			}
			switch fieldName(fa) {
			case "Offset":
				nOff++
				if isCwN(st.Val) {
					okp, path := mustPass(at, st, newCuts().addEdges(cse))
					// no compressor (re)open between the close and the read of the counter
					opens := callsIn(at, idIs(esp+".(*Writer).condOpenGz"))
					clean := true
					for _, op := range opens {
						if hit, _ := reach(at, op, isInstr(st), newCuts().addEdges(cse)); hit != nil {
							clean = false
						}
					}
					c.verdict(c.fnKey(at)+":Offset=cw.n", st.Pos(), okp && clean && len(cse) > 0, "offset recorded at a stream boundary (after closeGz, before the next stream opens)", "a chunk's offset is recorded while a compressed stream is open: it does not point at a member boundary: "+c.pathStr(at, path))
				} else {
					// reuse of the previous boundary offset (same stream, inner offset)
					good := false
					for _, v := range valueSources(st.Val, at, 0) {
						if isCwN(v) {
							good = true
						}
						if _, ok := isFieldLoadAny(v, "Offset"); ok {
							good = true
						}
						if ph, ok := v.(*ssa.Phi); ok && ph.Comment == "prevOffset" {
							good = true
						}
					}
					if ph, ok := stripConv(st.Val).(*ssa.Phi); ok && ph.Comment == "prevOffset" {
						good = true
					}
					c.verdict(c.fnKey(at)+":Offset=prev", st.Pos(), good, "chunk inside a shared stream reuses the stream's start offset", "offset of a chunk inside a shared stream is not the stream's recorded start")
					// every remembered stream start was read at a stream boundary (also the one taken when appendTar starts:
					// a previous AppendTar may have left a stream open)
					base := true
					var where ssa.Value
					for _, v := range phiLeaves(st.Val) {
						if isCwN(v) && !atBoundary(v) {
							base, where = false, v
						}
					}
					p := st.Pos()
					if where != nil {
						p = where.Pos()
					}
					c.verdict(c.fnKey(at)+":prevOffset-at-boundary", p, base, "every remembered stream start is the compressed counter read right after closeGz", "a remembered stream start is the compressed counter read while a stream may be open (a previous AppendTar left it open): Offset does not point at a member boundary")
				}
			case "InnerOffset":
				// value = uncompressedCounter.n - prevOffsetUncompressed
				b, ok := stripConv(st.Val).(*ssa.BinOp)
				good := ok && b.Op == token.SUB
				if good {
					fa2, ok := isFieldLoadAny(b.X, "n")
					good = ok
					if ok {
						_, good = isFieldLoad(fa2.X, wrT, "uncompressedCounter")
					}
				}
				c.verdict(c.fnKey(at)+":InnerOffset", st.Pos(), good, "inner offset = uncompressed counter − counter saved at the stream start", "inner offset is not measured against the uncompressed counter of the stream start")
				if good {
					base := true
					var where ssa.Value
					n := 0
					for _, v := range phiLeaves(b.Y) {
						n++
						if !isUcN(v) || !atBoundary(v) {
							base, where = false, v
						}
					}
					p := st.Pos()
					if where != nil && where.Pos().IsValid() {
						p = where.Pos()
					}
					c.verdict(c.fnKey(at)+":innerBase-at-boundary", p, base && n > 0, "every base of the inner offset is the uncompressed counter read right after closeGz", "a base of the inner offset is not the uncompressed counter at a stream boundary (e.g. the constant 0 although earlier AppendTar calls already advanced the counter): InnerOffset is not relative to the stream that Offset names")
				}
			}
		})
		if nOff < 2 {
			c.bad(c.fnKey(at)+":Offset-stores", at.Pos(), "offset recording sites not found")
		}
		// the comparison with MinChunkSize reads cw.n after flushGz
		n := 0
		eachInstr(at, func(i ssa.Instruction) {
			b, ok := i.(*ssa.BinOp)
			if !ok || b.Op != token.GEQ {
				return
			}
			sub, ok := stripConv(b.X).(*ssa.BinOp)
			if !ok || sub.Op != token.SUB || !isCwN(sub.X) {
				return
			}
			n++
			okp, _ := mustPass(at, b, newCuts().addEdges(fse))
			c.verdict(c.fnKey(at)+":minchunk-after-flush", b.Pos(), okp && len(fse) > 0, "stream size compared after flushing the compressor", "the stream size compared with MinChunkSize does not include buffered bytes (no flush before reading the counter)")
		})
		if n == 0 {
			c.bad(c.fnKey(at)+":minchunk-test", at.Pos(), "min-chunk-size decision not found")
		}
	}

	// ---------- C03.b ----------
	c.clause("C03.b", "T3", "uncompressed bytes reach the compression stream only through currentCompressionWriter.Write, which feeds the DiffID hash with the same bytes first", 2)
	if f := c.mustFn(esp, "(currentCompressionWriter).Write"); f != nil {
		var hashW, gzW ssa.CallInstruction
		for _, ci := range callsIn(f, func(id string, ci ssa.CallInstruction) bool { return ci.Common().IsInvoke() && ci.Common().Method.Name() == "Write" }) {
			if _, ok := isFieldLoad(ci.Common().Value, wrT, "diffHash"); ok {
				hashW = ci
			}
			if _, ok := isFieldLoad(ci.Common().Value, wrT, "gz"); ok {
				gzW = ci
			}
		}
		good := hashW != nil && gzW != nil
		if good {
			good = isParam(hashW.Common().Args[0]) && isParam(gzW.Common().Args[0]) && dominatesInstr(hashW, gzW)
		}
		c.verdict(c.fnKey(f), f.Pos(), good, "diffHash.Write(p) then gz.Write(p)", "the DiffID hash does not see exactly the bytes written to the compressor")
	}
	// no other writer of w.gz payload
	for _, f := range c.pkgFuncs(esp) {
		if c.fnKey(f) == esp+".(currentCompressionWriter).Write" {
			continue
		}
		eachInstr(f, func(i ssa.Instruction) {
			ci, ok := asCall(i)
			if !ok || !ci.Common().IsInvoke() {
				return
			}
			m := ci.Common().Method.Name()
			if m != "Write" {
				return
			}
			if _, ok := isFieldLoad(ci.Common().Value, wrT, "gz"); ok {
				c.bad(c.fnKey(f)+":gz.Write", i.Pos(), "bytes are written to the compression stream bypassing the DiffID hash")
			}
		})
		// io.Copy/tar writers targeting w.gz directly
		for _, ci := range callsIn(f, idIs("io.Copy", "io.CopyN")) {
			if _, ok := isFieldLoad(ci.Common().Args[0], wrT, "gz"); ok {
				c.bad(c.fnKey(f)+":copy→gz", ci.Pos(), "bytes are copied into the compression stream bypassing the DiffID hash")
			}
		}
	}
	if at != nil {
		// the tar writer / raw writes of appendTar target the wrapper
		okDst := false
		eachInstr(at, func(i ssa.Instruction) {
			if al, ok := i.(*ssa.Alloc); ok && typeQName(al.Type()) == esp+".currentCompressionWriter" {
				okDst = true
			}
		})
		c.verdict(c.fnKey(at)+":writes-through-wrapper", at.Pos(), okDst, "appendTar writes through currentCompressionWriter", "appendTar does not write through the hashing wrapper")
	}

	// ---------- C03.c ----------
	c.clause("C03.c", "T1", "closeWithCombine rebases offsets only after every writer was closed and flushed, by the running sum of the writers' compressed counters", 2)
	if f := c.mustFn(esp, "closeWithCombine"); f != nil {
		closes := callsIn(f, idIs(esp+".(*Writer).closeGz"))
		flushes := callsIn(f, idIs("bufio.(*Writer).Flush"))
		var rebase, accum ssa.Instruction
		eachInstr(f, func(i ssa.Instruction) {
			st, ok := i.(*ssa.Store)
			if !ok {
				return
			}
			if fa, ok := st.Addr.(*ssa.FieldAddr); ok && typeQName(fa.X.Type()) == esp+".TOCEntry" && fieldName(fa) == "Offset" {
				if b, ok := stripConv(st.Val).(*ssa.BinOp); ok && b.Op == token.ADD {
					rebase = st
				}
			}
		})
		// accumulation: currentOffset += w.cw.n
		eachInstr(f, func(i ssa.Instruction) {
			b, ok := i.(*ssa.BinOp)
			if !ok || b.Op != token.ADD {
				return
			}
			if fa, ok := isFieldLoadAny(b.Y, "n"); ok {
				if _, ok := isFieldLoad(fa.X, wrT, "cw"); ok {
					accum = b
				}
			}
		})
		good := rebase != nil && accum != nil && len(closes) == 1 && len(flushes) == 1
		if good {
			// the first loop (close+flush) completes before the rebase loop starts: rebase not reachable without passing the close loop's exit
			// all closes/flushes happen before any rebase: the close loop can reach the rebase loop but not vice versa,
			// and a failed close/flush never reaches the rebase
			g1, _ := reach(f, closes[0], isInstr(rebase), nil)
			g2, _ := reach(f, rebase, isInstr(closes[0]), nil)
			g3, _ := reach(f, rebase, isInstr(flushes[0]), nil)
			good = g1 != nil && g2 == nil && g3 == nil
			// the running sum is advanced inside the rebase loop (once per writer) and is what the rebase adds
			if good {
				a := accum.(ssa.Instruction)
				g4, _ := reach(f, rebase, isInstr(a), nil)
				g5, _ := reach(f, a, isInstr(rebase), nil)
				rb := stripConv(rebase.(*ssa.Store).Val).(*ssa.BinOp)
				good = g4 != nil && g5 != nil && (flowsThroughPhi(rb.Y, accum.(ssa.Value)) || flowsThroughPhi(rb.X, accum.(ssa.Value)) || phiChain(rb.Y, accum.(ssa.Value), 0) || phiChain(rb.X, accum.(ssa.Value), 0))
			}
			for _, x := range []ssa.CallInstruction{closes[0], flushes[0]} {
				for _, e := range nonNilEdges(f, errResults(x)[0]) {
					first := f.Blocks[e.from].Succs[e.succ].Instrs[0]
					if g, _ := reach(f, first, isInstr(rebase), nil); g != nil {
						good = false
					}
				}
			}
		}
		c.verdict(c.fnKey(f)+":rebase-after-flush", f.Pos(), good, "all writers closed and flushed, then offsets rebased by Σ cw.n of the preceding writers", "offsets are rebased before all sub-blobs are complete, or not by the sum of their sizes")
		// the combined TOC is written at the total offset
		for _, ci := range callsIn(f, idIs(esp+".tocAndFooter")) {
			c.verdict(c.fnKey(f)+":toc-at-total", ci.Pos(), accum != nil && flowsThroughPhi(ci.Common().Args[2], accum.(ssa.Value)), "TOC offset is the total compressed size", "TOC is recorded at an offset other than the total size of the sub-blobs")
		}
	}

	// ---------- C03.d ----------
	clauseTOCDigestOfWrittenBytes(c, "C03.d")

	// ---------- C03.e ----------
	c.clause("C03.e", "T5", "footer sizes: FooterSize() of each compression equals the size its footer constructor asserts/allocates and the length its parser demands", 3)
	type fz struct{ pkg, decomp, sizeConst, ctor string }
	for _, x := range []fz{
		{esp, "(*GzipDecompressor)", "FooterSize", "gzipFooterBytes"},
		{esp + "/externaltoc", "(*GzipDecompressor)", "FooterSize", "gzipFooterBytes"},
		{esp + "/zstdchunked", "(*Decompressor)", "FooterSize", "zstdFooterBytes"},
	} {
		want := c.constInt(x.pkg, x.sizeConst)
		key := x.pkg + ":footer-size"
		good := want > 0
		// FooterSize() returns the constant
		if f := c.mustFn(x.pkg, x.decomp+".FooterSize"); f != nil {
			for _, r := range realReturns(f) {
				if n, ok := constInt(r.Results[0]); !ok || n != want {
					good = false
				}
			}
		}
		// ParseFooter demands len(p) == want
		if f := c.mustFn(x.pkg, x.decomp+".ParseFooter"); f != nil {
			lf := lenFacts(f, f.Params[1])
			ok := false
			for _, l := range lf {
				if l.lb == want {
					ok = true
				}
			}
			good = good && ok
		}
		// the constructor's assertion / allocation uses the same number
		if f := c.mustFn(x.pkg, x.ctor); f != nil {
			ok := false
			eachInstr(f, func(i ssa.Instruction) {
				switch y := i.(type) {
				case *ssa.BinOp:
					if n, isC := constInt(y.Y); isC && n == want && (y.Op == token.NEQ || y.Op == token.EQL) {
						ok = true
					}
				case *ssa.Alloc:
					if arr, isArr := deref(y.Type()).Underlying().(*types.Array); isArr && arr.Len() == want {
						ok = true
					}
				case *ssa.MakeSlice:
					if n, isC := constInt(y.Len); isC && n == want {
						ok = true
					}
					if n, isC := constInt(y.Cap); isC && n == want {
						ok = true
					}
				}
			})
			good = good && ok
		}
		c.verdict(key, token.NoPos, good, fmt.Sprintf("footer size %d agrees between FooterSize(), parser and constructor", want), "footer size differs between FooterSize(), the parser's length check and the footer constructor")
	}
	clauseMarkImpliesAdd(c, "C03.f")
	runC03extra(c, at)
	clauseOwnerNameDedup(c, "C03.j")
	clauseStreamStartRefreshed(c, "C03.l")
	clauseGzipHelperOnlyForGzip(c, "C03.k")
	c.assume("compress/gzip, klauspost/zstd and tar-split produce valid streams; countWriter counts the bytes handed to the buffered writer")
}

func returnsLastCallErr(r *ssa.Return) bool {
	if len(r.Results) == 0 {
		return false
	}
	for _, v := range retVals(r, len(r.Results)-1) {
		if _, ok := stripConv(v).(*ssa.Call); ok {
			return true
		}
		if _, ok := stripConv(v).(*ssa.Extract); ok {
			return true
		}
		if _, ok := stripConv(v).(*ssa.Phi); ok {
			return true
		}
	}
	return false
}

// flowsThroughPhi: v is src or a loop phi fed by src.
func flowsThroughPhi(v ssa.Value, src ssa.Value) bool {
	v = stripConv(v)
	if v == src {
		return true
	}
	if ph, ok := v.(*ssa.Phi); ok {
		for _, e := range ph.Edges {
			if stripConv(e) == src {
				return true
			}
		}
	}
	return false
}

func runC14(c *Ctx) {
	pfl, npfl := c.constVal(esp, "PrefetchLandmark"), c.constVal(esp, "NoPrefetchLandmark")

	// ---------- C14.a ----------
	c.clause("C14.a", "T1+T2", "sortEntries adds exactly one landmark on every successful path, after the prioritized moves, the no-prefetch one iff the list is empty, and returns sorted.dump followed by intar.dump(picked)", 2)
	se := c.mustFn(esp, "sortEntries")
	if se != nil {
		adds := callsIn(se, idIs(esp+".(*tarFile).add"))
		moves := callsIn(se, idIs(esp+".moveRec"))
		// classify adds by the landmark name stored in the header literal (a constant, or a local chosen between the two constants)
		type lm struct {
			ci      ssa.CallInstruction
			name    string
			nameVal ssa.Value
		}
		var lms []lm
		for _, a := range adds {
			name := ""
			var nameVal ssa.Value
			eachInstr(se, func(i ssa.Instruction) {
				st, ok := i.(*ssa.Store)
				if !ok {
					return
				}
				if fa, ok := st.Addr.(*ssa.FieldAddr); ok && fieldName(fa) == "Name" && strings.HasSuffix(typeQName(fa.X.Type()), "tar.Header") && st.Block() == a.Block() {
					nameVal = st.Val
					if s, ok := constString(st.Val); ok {
						name = s
					}
				}
			})
			lms = append(lms, lm{a, name, nameVal})
		}
		good := len(lms) == 2 || (len(lms) == 1 && lms[0].name == "")
		var emptyE, nonEmptyE []edge
		emptyE = condEdges(se, func(cond ssa.Value) int {
			b, ok := cond.(*ssa.BinOp)
			if !ok || (b.Op != token.EQL && b.Op != token.NEQ && b.Op != token.GTR) {
				return 0
			}
			lc, ok := stripConv(b.X).(*ssa.Call)
			if !ok {
				return 0
			}
			if bi, ok := lc.Call.Value.(*ssa.Builtin); !ok || bi.Name() != "len" || !isParamish(lc.Call.Args[0]) {
				return 0
			}
			if n, ok := constInt(b.Y); !ok || n != 0 {
				return 0
			}
			if b.Op == token.EQL {
				return 1
			}
			return -1
		})
		nonEmptyE = condEdges(se, func(cond ssa.Value) int {
			b, ok := cond.(*ssa.BinOp)
			if !ok || (b.Op != token.EQL && b.Op != token.NEQ && b.Op != token.GTR) {
				return 0
			}
			lc, ok := stripConv(b.X).(*ssa.Call)
			if !ok {
				return 0
			}
			if bi, ok := lc.Call.Value.(*ssa.Builtin); !ok || bi.Name() != "len" || !isParamish(lc.Call.Args[0]) {
				return 0
			}
			if n, ok := constInt(b.Y); !ok || n != 0 {
				return 0
			}
			if b.Op == token.EQL {
				return -1
			}
			return 1
		})
		why := ""
		for _, l := range lms {
			switch l.name {
			case npfl:
				if okp, _ := mustPass(se, l.ci, newCuts().addEdges(emptyE)); !okp || len(emptyE) == 0 {
					good, why = false, "no-prefetch landmark added for a non-empty list"
				}
			case pfl:
				if okp, _ := mustPass(se, l.ci, newCuts().addEdges(nonEmptyE)); !okp || len(nonEmptyE) == 0 {
					good, why = false, "prefetch landmark added for an empty list"
				}
			default:
				// one add whose name is chosen between the two constants: each choice is made on the matching emptiness edge
				ph, isPhi := stripConv(l.nameVal).(*ssa.Phi)
				if l.nameVal == nil || !isPhi {
					good, why = false, "an entry other than a landmark is added to the prioritized area"
					break
				}
				seen := map[string]bool{}
				for ei, e := range ph.Edges {
					sv, ok := constString(e)
					if !ok || (sv != pfl && sv != npfl) {
						good, why = false, "an entry other than a landmark is added to the prioritized area"
						continue
					}
					seen[sv] = true
					want := nonEmptyE
					if sv == npfl {
						want = emptyE
					}
					pred := ph.Block().Preds[ei]
					onEdge := false
					for si, sc := range pred.Succs {
						if sc == ph.Block() {
							for _, w := range want {
								if w.from == pred.Index && w.succ == si {
									onEdge = true
								}
							}
						}
					}
					if okp, _ := mustPass(se, pred.Instrs[len(pred.Instrs)-1], newCuts().addEdges(want)); !(onEdge || (okp && len(want) > 0)) {
						if sv == npfl {
							good, why = false, "no-prefetch landmark added for a non-empty list"
						} else {
							good, why = false, "prefetch landmark added for an empty list"
						}
					}
				}
				if !seen[pfl] || !seen[npfl] {
					good, why = false, "only one of the two landmarks can be emitted"
				}
			}
		}
		// exactly one on every successful path: every nil-error return passes one of them, and no path passes both
		if good {
			for _, r := range realReturns(se) {
				if !returnsNilError(r) {
					continue
				}
				k := newCuts()
				for _, l := range lms {
					k.addInstr(l.ci)
				}
				if got, _ := reach(se, nil, isInstr(r), k); got != nil {
					good, why = false, "a successful path adds no landmark"
				}
			}
			for i := range lms {
				for j := range lms {
					if g, _ := reach(se, lms[i].ci, isInstr(lms[j].ci), nil); g != nil {
						good, why = false, "a path adds two landmarks"
					}
				}
			}
			// after all moves: no moveRec reachable after a landmark add
			for _, l := range lms {
				for _, m := range moves {
					if g, _ := reach(se, l.ci, isInstr(m), nil); g != nil {
						good, why = false, "a prioritized file can be moved after the landmark"
					}
				}
			}
		}
		c.verdict(c.fnKey(se)+":one-landmark", se.Pos(), good, "exactly one landmark, after the prioritized group, chosen by emptiness of the list", "landmark placement broken: "+why)
		// result = append(sorted.dump(nil), intar.dump(picked)...)
		dumps := callsIn(se, idIs(esp+".(*tarFile).dump"))
		resOK := false
		if len(dumps) == 2 {
			for _, r := range realReturns(se) {
				if !returnsNilError(r) {
					continue
				}
				for _, v := range retVals(r, 0) {
					if ap, ok := stripConv(v).(*ssa.Call); ok {
						if bi, ok := ap.Call.Value.(*ssa.Builtin); ok && bi.Name() == "append" {
							first, ok1 := stripConv(ap.Call.Args[0]).(*ssa.Call)
							second, ok2 := stripConv(ap.Call.Args[1]).(*ssa.Call)
							if ok1 && ok2 && calleeID(first) == esp+".(*tarFile).dump" && calleeID(second) == esp+".(*tarFile).dump" {
								// first is the sorted (prioritized) file with nil skip, second the input with picked skip
								resOK = isNilConst(first.Call.Args[1]) && !isNilConst(second.Call.Args[1]) && addrKey(first.Call.Args[0]) != addrKey(second.Call.Args[0])
								// the receiver of the first dump is the file the landmark was added to
								if len(lms) > 0 && !sameValue(first.Call.Args[0], lms[0].ci.Common().Args[0]) {
									resOK = false
								}
							}
						}
					}
				}
			}
		}
		c.verdict(c.fnKey(se)+":result-order", se.Pos(), resOK, "result = prioritized entries + landmark, then the remaining entries minus the picked ones", "result is not 'prioritized group, then the rest without the picked entries'")
		// landmark entries are regular files with one byte
		// C14.e
		c.clause("C14.e", "T1", "a prioritized path that does not exist aborts the build unless the caller asked for the list of missed paths, and is then reported", 1)
		tol := condEdges(se, func(cond ssa.Value) int {
			return -nilTest(cond, func(x ssa.Value) bool { return isParamish(x) && strings.Contains(x.Type().String(), "[]string") })
		})
		isNF := condEdges(se, func(cond ssa.Value) int {
			if call, ok := stripConv(cond).(*ssa.Call); ok && calleeID(call) == "errors.Is" {
				return 1
			}
			return 0
		})
		goodE := len(moves) == 1 && len(tol) > 0 && len(isNF) > 0
		if goodE {
			fe := nonNilEdges(se, errResults(moves[0])[0])
			for _, e := range fe {
				first := se.Blocks[e.from].Succs[e.succ].Instrs[0]
				// continuing the loop (reaching moveRec again) or returning nil requires both edges
				tgt := func(i ssa.Instruction) bool {
					if i == ssa.Instruction(moves[0]) {
						return true
					}
					r, ok := i.(*ssa.Return)
					return ok && returnsNilError(r)
				}
				if g, _ := reach(se, first, tgt, newCuts().addEdges(tol)); g != nil {
					goodE = false
				}
				if g, _ := reach(se, first, tgt, newCuts().addEdges(isNF)); g != nil {
					goodE = false
				}
			}
			// reported: an append to *missedPrioritized on that path
			rep := false
			eachInstr(se, func(i ssa.Instruction) {
				if st, ok := i.(*ssa.Store); ok && isParamish(st.Addr) {
					rep = true
				}
			})
			goodE = goodE && rep
		}
		c.verdict(c.fnKey(se)+":missing-path-policy", se.Pos(), goodE, "not-found tolerated only with a report list, and recorded there", "a missing prioritized path is silently ignored (or other errors are swallowed)")
	}

	// ---------- C14.b ----------
	c.clause("C14.b", "T5", "one pair of landmark constants: forced onto stream boundaries by Build, dropped from the input by importTar, emitted by sortEntries, looked up by the runtime prefetch and hidden by the FUSE layer", 5)
	anchorsC14b := [][2]string{{esp, "Build"}, {esp, "importTar"}, {esp, "sortEntries"}, {"fs/layer", "(*layer).prefetch"}, {"fs/layer", "(*node).Lookup"}}
	isAnchor := map[*ssa.Function]bool{}
	for _, x := range anchorsC14b {
		if f := c.fn(x[0], x[1]); f != nil {
			isAnchor[f] = true
		}
	}
	usesBoth := func(f *ssa.Function) bool {
		has := map[string]bool{}
		for _, g := range c.withHelpers(f) {
			if r := enclosingRoot(g); r != f && isAnchor[r] {
				continue // another anchor's own use does not count for this one
			}
			eachInstr(g, func(i ssa.Instruction) {
				var ops []*ssa.Value
				for _, op := range i.Operands(ops) {
					if *op == nil {
						continue
					}
					if s, ok := constString(*op); ok {
						has[s] = true
					}
				}
			})
		}
		return has[pfl] && has[npfl]
	}
	for _, x := range anchorsC14b {
		if f := c.mustFn(x[0], x[1]); f != nil {
			c.verdict(c.fnKey(f)+":landmark-constants", f.Pos(), usesBoth(f), "uses both landmark names", "does not use both landmark constants: builder and runtime disagree on the landmark names")
		}
	}

	if f := c.mustFn(esp, "importTar"); f != nil {
		n, good := 0, true
		eachInstr(f, func(i ssa.Instruction) {
			b, ok := i.(*ssa.BinOp)
			if !ok || b.Op != token.EQL {
				return
			}
			var other ssa.Value
			if s, ok := constString(b.Y); ok && (s == pfl || s == npfl) {
				other = b.X
			} else if s, ok := constString(b.X); ok && (s == pfl || s == npfl) {
				other = b.Y
			}
			if other == nil {
				return
			}
			n++
			call, ok := stripConv(other).(*ssa.Call)
			if !ok || calleeID(call) != esp+".cleanEntryName" {
				good = false
			}
		})
		c.verdict(c.fnKey(f)+":landmark-filter-normalised", f.Pos(), good && n >= 2, "pre-existing landmarks are recognised by their cleaned name, like every other name lookup of tarFile", "importTar compares the raw header name with the landmark names: a landmark spelled ./.prefetch.landmark in an already converted layer survives and the output carries two landmarks")
	}
	if f := c.mustFn(esp, "moveRec"); f != nil {
		// a missing path is detected before anything is moved
		var effects []ssa.Instruction
		for _, ci := range callsIn(f, idIs(esp+".moveRec", esp+".(*tarFile).add")) {
			effects = append(effects, ci)
		}
		n, good := 0, true
		for _, r := range realReturns(f) {
			isNF := false
			for _, v := range retVals(r, 0) {
				if call, ok := stripConv(v).(*ssa.Call); ok && calleeID(call) == "fmt.Errorf" {
					for _, a := range varargs(call.Call.Args[1]) {
						if g, ok := loadOf(stripConv(a)); ok {
							if gl, ok := g.(*ssa.Global); ok && gl.Name() == "errNotFound" {
								isNF = true
							}
						}
						if mi, ok := stripConv(a).(*ssa.MakeInterface); ok {
							if g, ok := loadOf(stripConv(mi.X)); ok {
								if gl, ok := g.(*ssa.Global); ok && gl.Name() == "errNotFound" {
									isNF = true
								}
							}
						}
					}
				}
			}
			if !isNF {
				continue
			}
			n++
			for _, e := range effects {
				if hit, _ := reach(f, e, isInstr(r), nil); hit != nil {
					good = false
				}
			}
		}
		c.verdict(c.fnKey(f)+":missing-path-has-no-effect", f.Pos(), good && n > 0, "errNotFound is returned before any parent or link target is moved", "a listed path that does not exist is detected only after its parent directories were moved into the prioritized area: they leave their original order although the path is reported as missed")
	}

	// ---------- C14.c ----------
	c.clause("C14.c", "T1", "an entry whose name is in needsOpenGzEntries always starts a fresh compressed stream; Build registers both landmarks there", 2)
	if f := c.mustFn(esp, "(*Writer).needsOpenGz"); f != nil {
		// returns the membership result for reg entries
		good := false
		for _, r := range realReturns(f) {
			for _, v := range retVals(r, 0) {
				if e, ok := stripConv(v).(*ssa.Extract); ok && e.Index == 1 {
					if lk, ok := e.Tuple.(*ssa.Lookup); ok {
						if _, ok := isFieldLoad(lk.X, wrT, "needsOpenGzEntries"); ok {
							if _, ok := isFieldLoadAny(lk.Index, "Name"); ok {
								good = true
							}
						}
					}
				}
			}
		}
		c.verdict(c.fnKey(f), f.Pos(), good, "true exactly for registered names (regular files)", "needsOpenGz does not answer membership of the entry's name")
	}
	if at := c.mustFn(esp, "(*Writer).appendTar"); at != nil {
		// the closeGz+fresh-offset branch is taken whenever needsOpenGz(ent): i.e. the branch condition is needsOpenGz(ent) || ...
		nog := callsIn(at, idIs(esp+".(*Writer).needsOpenGz"))
		good := len(nog) == 1
		if good {
			te := boolEdges(at, nog[0].Value(), true)
			closes := callsIn(at, idIs(esp+".(*Writer).closeGz"))
			// from the true edge, the next thing is closeGz (fresh stream) — no path reaches an Offset store of the reuse kind
			for _, e := range te {
				first := at.Blocks[e.from].Succs[e.succ].Instrs[0]
				isClose := func(i ssa.Instruction) bool {
					for _, cl := range closes {
						if ssa.Instruction(cl) == i {
							return true
						}
					}
					return false
				}
				isInner := func(i ssa.Instruction) bool {
					if st, ok := i.(*ssa.Store); ok {
						if fa, ok := st.Addr.(*ssa.FieldAddr); ok && fieldName(fa) == "InnerOffset" {
							return true
						}
					}
					return false
				}
				k := newCuts()
				for _, cl := range closes {
					k.addInstr(cl)
				}
				if !isClose(first) {
					if g, _ := reach(at, first, isInner, k); g != nil {
						good = false
					}
				}
			}
			good = good && len(te) > 0
		}
		c.verdict(c.fnKey(at)+":landmark-on-boundary", at.Pos(), good, "needsOpenGz(ent) forces closeGz and a fresh offset", "a landmark can be placed inside a shared stream (its offset no longer separates prioritized from other data)")
	}

	// ---------- C14.d ----------
	c.clause("C14.d", "T1", "moveRec adds an entry to the prioritized area only if it was not picked and marks it picked on the same path", 2)
	if f := c.mustFn(esp, "moveRec"); f != nil {
		adds := callsIn(f, idIs(esp+".(*tarFile).add"))
		for _, a := range adds {
			notPicked := condEdges(f, func(cond ssa.Value) int {
				if e, ok := cond.(*ssa.Extract); ok && e.Index == 1 {
					if lk, ok := e.Tuple.(*ssa.Lookup); ok && isParamish(lk.X) && strings.Contains(lk.X.Type().String(), "struct{}") {
						return -1
					}
				}
				return 0
			})
			okp, _ := mustPass(f, a, newCuts().addEdges(notPicked))
			// marked on the same path: a MapUpdate on picked dominates or post-dominates within the path
			marked := false
			eachInstr(f, func(i ssa.Instruction) {
				if mu, ok := i.(*ssa.MapUpdate); ok && isParamish(mu.Map) {
					if dominatesInstr(mu, a) {
						marked = true
					} else if g, _ := reach(f, a, isReturn, newCuts().addInstr(mu)); g == nil {
						marked = true
					}
				}
			})
			c.verdict(c.fnKey(f)+":add-once", a.Pos(), okp && marked && len(notPicked) > 0, "added only when not yet picked, and marked picked", "an entry can be added to the prioritized area twice (duplicate tar entry)")
		}
		if len(adds) == 0 {
			c.bad(c.fnKey(f)+":adds", f.Pos(), "moveRec adds nothing")
		}
	}
	clauseMarkImpliesAdd(c, "C14.f")
	clauseStreamStartRefreshed(c, "C14.g")
	clauseCleanNameViaPathClean(c, "C14.h")
	c.clause("C14.d2", "T1", "the remaining-entries dump skips exactly the picked names", 1)
	// tarFile.dump skips picked names
	if f := c.mustFn(esp, "(*tarFile).dump"); f != nil {
		good := false
		eachInstr(f, func(i ssa.Instruction) {
			if lk, ok := i.(*ssa.Lookup); ok && lk.CommaOk && isParamish(lk.X) {
				good = true
			}
		})
		c.verdict(c.fnKey(f)+":skips-picked", f.Pos(), good, "the remaining-entries dump consults the picked set", "the remaining-entries dump ignores the picked set (prioritized files duplicated after the landmark)")
	}
	c.assume("the runtime derives the prefetch range from the landmark's offset (C15.b)")
}

// phiChain: v reaches src through a chain of phis.
func phiChain(v ssa.Value, src ssa.Value, depth int) bool {
	v = stripConv(v)
	if v == src {
		return true
	}
	if depth > 4 {
		return false
	}
	if ph, ok := v.(*ssa.Phi); ok {
		for _, e := range ph.Edges {
			if phiChain(e, src, depth+1) {
				return true
			}
		}
	}
	return false
}

func runC03extra(c *Ctx, at *ssa.Function) {
	// ---------- C03.g ----------
	c.clause("C03.g", "T9", "appendTar reads the whole input through one stream: what follows the tar end-of-archive marker is copied from the same (decompressed) reader the tar reader consumed", 1)
	if at != nil {
		var trSrc []ssa.Value
		for _, ci := range callsIn(at, func(id string, _ ssa.CallInstruction) bool { return strings.HasSuffix(id, "archive/tar.NewReader") }) {
			trSrc = append(trSrc, ci.Common().Args[0])
		}
		n := 0
		for _, ci := range callsIn(at, idIs("io.Copy")) {
			src := ci.Common().Args[1]
			// only the remainder copy: its source is an input reader, not the tar reader's payload
			if strings.Contains(src.Type().String(), "tar.Reader") {
				continue
			}
			n++
			good := false
			for _, t := range trSrc {
				if sameValue(t, src) {
					good = true
				}
			}
			c.verdict(c.fnKey(at)+":remainder-source", ci.Pos(), good && len(trSrc) == 1, "remainder copied from the tar reader's own source", "the bytes after the end-of-archive marker are read from a different reader than the tar entries (e.g. the still-compressed input): the lossless blob no longer decompresses to the input")
		}
		if n == 0 {
			c.bad(c.fnKey(at)+":remainder-copy", at.Pos(), "appendTar no longer drains/preserves the bytes after the end-of-archive marker")
		}
	}

	// ---------- C03.h ----------
	c.clause("C03.h", "T3", "tarFile keeps entries in arrival order: its stream is only appended to (add) or filtered (remove), never overwritten in place, so the last duplicate of a name takes the position of its own occurrence", 2)
	for _, a := range c.fieldAccesses(esp+".tarFile", "stream", c.pkgFuncs(esp)) {
		if a.write {
			st, _ := a.instr.(*ssa.Store)
			fn := c.fnKey(a.fn)
			good := fn == esp+".(*tarFile).add" || fn == esp+".(*tarFile).remove"
			if good && fn == esp+".(*tarFile).add" && st != nil {
				call, ok := stripConv(st.Val).(*ssa.Call)
				if b, isB := func() (*ssa.Builtin, bool) {
					if !ok {
						return nil, false
					}
					b, k := call.Call.Value.(*ssa.Builtin)
					return b, k
				}(); !isB || b.Name() != "append" {
					good = false
				}
			}
			c.verdict(fn+":stream-write", a.instr.Pos(), good, "stream replaced only by append (add) or by the filtered copy (remove)", "tarFile.stream is written outside add/remove or not by appending: entry order is no longer arrival order")
			continue
		}
		// element stores through a loaded stream value
		ld, ok := a.instr.(*ssa.UnOp)
		if !ok {
			continue
		}
		for _, r := range *ld.Referrers() {
			ia, ok := r.(*ssa.IndexAddr)
			if !ok {
				continue
			}
			for _, rr := range *ia.Referrers() {
				if st, ok := rr.(*ssa.Store); ok && st.Addr == ssa.Value(ia) {
					c.bad(c.fnKey(a.fn)+":stream-element-store", st.Pos(), "an element of tarFile.stream is overwritten in place: a replaced duplicate keeps the position of its first occurrence (e.g. a hardlink ends up before its target)")
				}
			}
		}
	}
	if f := c.mustFn(esp, "importTar"); f != nil {
		// a duplicate is removed before the new entry is appended
		adds := callsIn(f, idIs(esp+".(*tarFile).add"))
		rems := callsIn(f, idIs(esp+".(*tarFile).remove"))
		gets := callsIn(f, idIs(esp+".(*tarFile).get"))
		good := len(adds) == 1 && len(rems) == 1 && len(gets) >= 1
		if good {
			// on the "exists" edge of get, remove is passed before add
			var exists []edge
			for _, g := range gets {
				if gc, ok := g.(*ssa.Call); ok {
					for _, r := range *gc.Referrers() {
						if ex, ok := r.(*ssa.Extract); ok && ex.Index == 1 {
							exists = append(exists, boolEdges(f, ex, true)...)
						}
					}
				}
			}
			good = len(exists) > 0
			for _, e := range exists {
				tgt := f.Blocks[e.from].Succs[e.succ]
				if tgt.Instrs[0] != ssa.Instruction(rems[0].(*ssa.Call)) {
					if hit, _ := reach(f, tgt.Instrs[0], isInstr(adds[0]), newCuts().addCalls(rems)); hit != nil {
						good = false
					}
				}
			}
		}
		c.verdict(c.fnKey(f)+":duplicate-removed-then-appended", f.Pos(), good, "an existing name is removed before the new entry is appended", "importTar can append a duplicate name without removing the earlier entry, or no longer appends the replacement")
	}

	// ---------- C03.i ----------
	c.clause("C03.i", "T9", "the external TOC handed out by WriteTOCTo is the one written by the latest WriteTOCAndFooter: the gzip stream goes into a buffer created by that call, which then replaces gc.buf", 1)
	const xp = "estargz/externaltoc"
	if f := c.mustFn(xp, "(*GzipCompressor).WriteTOCAndFooter"); f != nil {
		var dst ssa.Value
		for _, ci := range callsIn(f, idIs("compress/gzip.NewWriterLevel", "compress/gzip.NewWriter")) {
			dst = ci.Common().Args[0]
		}
		fresh := false
		if dst != nil {
			for _, v := range append([]ssa.Value{dst}, reachingVals(dst)...) {
				v = stripConv(v)
				if mi, ok := v.(*ssa.MakeInterface); ok {
					v = stripConv(mi.X)
				}
				if al, ok := v.(*ssa.Alloc); ok && al.Heap {
					fresh = true
				}
				if call, ok := v.(*ssa.Call); ok && calleeID(call) == "bytes.NewBuffer" {
					fresh = true
				}
			}
			// or: reset on every path before use
			if !fresh {
				resets := callsIn(f, idIs("bytes.(*Buffer).Reset"))
				if len(resets) > 0 {
					if okp, _ := mustPass(f, dst.(ssa.Instruction), newCuts().addCalls(resets)); okp {
						fresh = true
					}
				}
			}
		}
		stored := false
		for _, a := range c.fieldAccesses(xp+".GzipCompressor", "buf", []*ssa.Function{f}) {
			if st, ok := a.instr.(*ssa.Store); ok && a.write && dst != nil {
				d := stripConv(dst)
				if mi, ok := d.(*ssa.MakeInterface); ok {
					d = stripConv(mi.X)
				}
				if stripConv(st.Val) == d || sameValue(st.Val, d) {
					stored = true
				}
			}
		}
		c.verdict(c.fnKey(f)+":toc-buffer", f.Pos(), dst != nil && fresh && stored, "TOC compressed into a buffer of this call, which becomes gc.buf", "the external TOC buffer is reused across blobs without being emptied, or the written buffer is not the one WriteTOCTo serves: a second blob's TOC starts with the first blob's")
	}
}

// clauseTOCDigestOfWrittenBytes: shared by C03 and C19 (the TOC digest annotation a converter emits is the digest the
// compressor returns).
func clauseTOCDigestOfWrittenBytes(c *Ctx, id string) {
	c.clause(id, "T9", "each WriteTOCAndFooter returns digest.FromBytes of the TOC JSON bytes it writes", 3)
	nW := 0
	for _, f := range c.liveFuncs() {
		if f.Name() != "WriteTOCAndFooter" || f.Signature.Recv() == nil {
			continue
		}
		nW++
		ms := callsIn(f, idIs("encoding/json.MarshalIndent", "encoding/json.Marshal"))
		if len(ms) != 1 {
			c.bad(c.fnKey(f)+":marshal", f.Pos(), "TOC is not marshalled exactly once")
			continue
		}
		js := resultN(ms[0], 0)
		// the digest returned
		retOK := false
		for _, r := range realReturns(f) {
			if !returnsNilErrorOrCall(r, nil) && !returnsLastCallErr(r) {
				continue
			}
			for _, v := range retVals(r, 0) {
				if call, ok := stripConv(v).(*ssa.Call); ok && calleeID(call) == "github.com/opencontainers/go-digest.FromBytes" && sameValue(call.Call.Args[0], js) {
					retOK = true
				}
			}
		}
		// the bytes written: a Write(js) into a writer
		wrOK := false
		for _, ci := range callsIn(f, func(id string, ci ssa.CallInstruction) bool {
			o := calleeObj(ci)
			return o != nil && o.Name() == "Write"
		}) {
			args := ci.Common().Args
			if sameValue(args[len(args)-1], js) {
				wrOK = true
			}
		}
		c.verdict(c.fnKey(f)+":digest-of-written-toc", f.Pos(), retOK && wrOK, "returned digest = FromBytes(tocJSON) and tocJSON is what is written", "the TOC digest reported by the builder is not the digest of the TOC bytes it wrote")
	}
	if nW < 3 {
		c.bad("WriteTOCAndFooter-implementations", token.NoPos, fmt.Sprintf("%d implementations found (3 on the pinned tree)", nW))
	}

}
