#!/usr/bin/env python3
"""Self-test bank: typed single-site edits applied through packages.Overlay
(no scratch copy of /repo). Each mutant must (a) still type-check, (b) make the
named property's check exit 1 and mention the expected construct.
usage: selftest.py [-p C10,C13] [-v]"""
import json, os, subprocess, sys, tempfile, glob, argparse, concurrent.futures as cf

ap = argparse.ArgumentParser()
ap.add_argument("-p", default="")
ap.add_argument("-v", action="store_true")
ap.add_argument("-j", type=int, default=6)
ap.add_argument("--tier", default="quick")
ap.add_argument("--equiv", action="store_true", help="run the bank of behaviour-preserving edits: every check must stay silent")
args = ap.parse_args()
want = set(filter(None, args.p.split(",")))
BIN = os.environ.get("STARGZLINT", "/verif/bin/stargzlint")
muts = []
for fn in sorted(glob.glob("/verif/equivalents/*.json" if args.equiv else "/verif/mutants/*.json")):
    for m in json.load(open(fn)):
        if not want or m["property"] in want:
            muts.append(m)

def run(m):
    src = open(os.path.join("/repo", m["file"])).read()
    new = src
    for e in m.get("edits") or [m]:
        if new.count(e["old"]) != e.get("count", 1):
            return (m, "SKIP", "pattern occurs %d times (want %d)" % (new.count(e["old"]), e.get("count", 1)))
        new = new.replace(e["old"], e["new"])
    with tempfile.TemporaryDirectory() as td:
        fp = os.path.join(td, "mut.go")
        open(fp, "w").write(new)
        os.makedirs(os.path.join(td, "verif"))
        if os.path.exists("/verif/known-findings.jsonl"):
            import shutil; shutil.copy("/verif/known-findings.jsonl", os.path.join(td, "verif"))
        r = subprocess.run([BIN, "-prop", m["property"], "-tier", args.tier, "-verif", os.path.join(td, "verif"),
                            "-overlay", "/repo/%s=%s" % (m["file"], fp)], capture_output=True, text=True)
        out = r.stdout + r.stderr
        if r.returncode == 2:
            return (m, "INVALID", out[-400:])
        if args.equiv:
            viol = [l for l in out.splitlines() if l.startswith("  ")]
            return (m, "KILLED" if r.returncode == 0 else "MISSED", "\n".join(viol[:5]))
        if r.returncode == 0:
            return (m, "MISSED", "")
        exp = m.get("expect", "")
        viol = [l for l in out.splitlines() if l.startswith("  ")]
        if exp and not any(exp in l for l in viol):
            return (m, "WRONGSITE", "\n".join(viol[:5]))
        return (m, "KILLED", "\n".join(viol[:3]))

res = {"KILLED": 0, "MISSED": 0, "INVALID": 0, "SKIP": 0, "WRONGSITE": 0}
with cf.ThreadPoolExecutor(args.j) as ex:
    for m, st, info in ex.map(run, muts):
        res[st] += 1
        if st != "KILLED" or args.v:
            print("%-9s %s %s: %s" % (st, m["property"], m["id"], m.get("desc", "")))
            if info and (args.v or st != "KILLED"):
                print("    " + info.replace("\n", "\n    "))
if args.equiv:
    res = {"SILENT": res["KILLED"], "FALSE_ALARM": res["MISSED"], "INVALID": res["INVALID"], "SKIP": res["SKIP"]}
print(json.dumps(res))
sys.exit(0 if res.get("MISSED", 0) == 0 and res.get("FALSE_ALARM", 0) == 0 and res["INVALID"] == 0 and res.get("WRONGSITE", 0) == 0 else 1)
