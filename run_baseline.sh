#!/bin/bash
# runs the repository's pinned test suite (guard off) and compares the set of
# passing tests with BASELINE.json stable_pass. Output: /tmp/baseline.*.json
out=${1:-/tmp/baseline}
rm -f $out.*.json
for m in . cmd estargz ipfs; do
  n=$(echo $m | tr '/.' '__')
  (cd /repo/$m && GOFLAGS=-mod=mod go test -json -vet=off -count=1 -timeout 25m ./... > $out.$n.json 2>&1)
done
python3 - "$out" <<'PY'
import json,glob,sys
passed=set(); failed=set()
for f in glob.glob(sys.argv[1]+'.*.json'):
    for l in open(f):
        try: e=json.loads(l)
        except: continue
        if e.get('Action') in('pass','fail') and e.get('Test'):
            (passed if e['Action']=='pass' else failed).add(e['Package']+'::'+e['Test'])
base=set(json.load(open('/root/.vp/BASELINE.json'))['stable_pass'])
print('passed',len(passed),'failed',len(failed),'baseline',len(base))
print('baseline tests not passing now:',sorted(base-passed)[:20], len(base-passed))
print('failed:',sorted(failed)[:20])
PY
