#!/bin/bash
# usage: run.sh <property-id> quick|thorough   |  run.sh <id> --replay <path>
set -u
cd "$(dirname "$0")"
export PATH=/opt/veriftools/go1.26.8/bin:$PATH
export GOTOOLCHAIN=local GOFLAGS=-mod=mod GOPROXY=off GOSUMDB=off
unset GOWORK
BIN=/verif/bin/stargzlint
if [ ! -x "$BIN" ]; then ./setup.sh >&2 || exit 2; fi
id="$1"; shift
tier="${1:-quick}"
if [ "$tier" = "--replay" ]; then
  # re-evaluate the property the report belongs to, on the current tree
  tier=$(jq -r .tier "$2" 2>/dev/null || echo quick)
fi
"$BIN" -repo /repo -verif /verif -prop "$id" -tier "$tier"
rc=$?
if [ "$tier" = "thorough" ] && [ $rc -ne 2 ]; then
  ./thorough_extras.py "$id" || true
fi
exit $rc
