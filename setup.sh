#!/bin/bash
set -eu
cd "$(dirname "$0")/checker"
export PATH=/opt/veriftools/go1.26.8/bin:$PATH
export GOTOOLCHAIN=local GOFLAGS=-mod=vendor GOPROXY=off GOSUMDB=off
unset GOWORK
mkdir -p ../bin
go build -o ../bin/stargzlint .
echo "built /verif/bin/stargzlint"
