#!/usr/bin/env python3
"""Regenerates the machine-derived tables of DESIGN.md (between <!-- GEN:x --> / <!-- /GEN:x --> markers) from the
evidence files, the mutant/equivalent banks, the seeded changes and known-findings.jsonl, so that the document cannot
drift from what the checks do. usage: gen_design.py"""
import json, glob, os, re
V = "/verif"
props = [json.loads(l) for l in open(V + "/properties.jsonl")]

def clauses():
    out = ["| property | clause | rule | what the clause decides | instances (min) |", "|---|---|---|---|---|"]
    for p in props:
        ev = json.load(open("%s/evidence/%s.json" % (V, p["id"])))
        for c in ev["coverage"]["clauses"]:
            out.append("| %s | %s | %s | %s | %d (%d) |" % (p["id"], c["clause"], c["rule"], c["desc"].replace("|", "\\|"), c["instances"], c["min_instances"]))
    return "\n".join(out)

def banks():
    out = ["| property | obligations | mutants in bank | behaviour-preserving edits | seeded changes (caught/all) |", "|---|---|---|---|---|"]
    muts, eqs = {}, {}
    for f in glob.glob(V + "/mutants/*.json"):
        for m in json.load(open(f)):
            muts[m["property"]] = muts.get(m["property"], 0) + 1
    for f in glob.glob(V + "/equivalents/*.json"):
        for m in json.load(open(f)):
            eqs[m["property"]] = eqs.get(m["property"], 0) + 1
    res = json.load(open(V + "/seeded/RESULTS.json")) if os.path.exists(V + "/seeded/RESULTS.json") else {}
    for p in props:
        ev = json.load(open("%s/evidence/%s.json" % (V, p["id"])))
        mine = {k: v for k, v in res.items() if k.startswith(p["id"] + "-")}
        out.append("| %s | %d | %d | %d | %d/%d |" % (p["id"], ev["coverage"]["obligations"], muts.get(p["id"], 0), eqs.get(p["id"], 0), sum(1 for v in mine.values() if v["status"] == "CAUGHT"), len(mine)))
    return "\n".join(out)

def seeds():
    res = json.load(open(V + "/seeded/RESULTS.json")) if os.path.exists(V + "/seeded/RESULTS.json") else {}
    out = ["| seeded change | what it breaks (from its meta.json) | verdict | reported by |", "|---|---|---|---|"]
    def key(k):
        a, b = k.split("-")
        return (a, int(b))
    for k in sorted(res, key=key):
        meta = {}
        try:
            meta = json.load(open("%s/seeded/%s/meta.json" % (V, k)))
        except Exception:
            pass
        summ = re.sub(r"\s+", " ", (meta.get("summary") or meta.get("what") or meta.get("description") or ""))[:200].replace("|", "\\|")
        rep = ""
        if res[k]["reports"]:
            m = re.match(r"(VIOLATED|UNDECIDED) (\S+) \S+ (\S+)", res[k]["reports"][0])
            if m:
                rep = "%s `%s`" % (m.group(2), m.group(3))
        st = res[k]["status"]
        if st == "CAUGHT" and res[k]["checked_with"] != k.split("-")[0]:
            st += " (by %s)" % res[k]["checked_with"]
        out.append("| %s | %s | %s | %s |" % (k, summ, st, rep))
    return "\n".join(out)

def findings():
    out = ["| kind | property | clause | construct | commit | what failed |", "|---|---|---|---|---|---|"]
    for l in open(V + "/known-findings.jsonl"):
        l = l.strip()
        if not l or l.startswith("#"):
            continue
        r = json.loads(l)
        out.append("| %s | %s | %s | `%s` | %s | %s |" % (r["kind"], r["property"], r.get("clause", ""), r.get("key", "").replace("|", "\\|"), r.get("commit", "—"), re.sub(r"^fixed: property=\S+ \S+ ", "", r.get("what", "")).replace("|", "\\|")[:400]))
    return "\n".join(out)

gen = {"clauses": clauses, "banks": banks, "seeds": seeds, "findings": findings}
s = open(V + "/DESIGN.md").read()
for k, fn in gen.items():
    pat = re.compile(r"(<!-- GEN:%s -->\n).*?(<!-- /GEN:%s -->)" % (k, k), re.S)
    if pat.search(s):
        s = pat.sub(lambda m: m.group(1) + fn() + "\n" + m.group(2), s)
open(V + "/DESIGN.md", "w").write(s)
print("DESIGN.md tables regenerated")
