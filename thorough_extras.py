#!/usr/bin/env python3
"""Thorough-tier extras for one property: runs the mutant bank, the bank of behaviour-preserving edits and the
seeded changes that concern the property (all through -overlay, never touching /repo) and records the counts in the
evidence file. Informational: never changes the check's exit status."""
import json, os, subprocess, sys, glob
pid = sys.argv[1]
ev = "/verif/evidence/%s.json" % pid
def run(cmd):
    r = subprocess.run(cmd, capture_output=True, text=True)
    last = [l for l in r.stdout.splitlines() if l.startswith("{")]
    try:
        return json.loads(last[-1])
    except Exception:
        return {"error": (r.stdout + r.stderr)[-200:]}
mut = run(["/verif/selftest.py", "-p", pid, "-j", "8"])
eq = run(["/verif/selftest.py", "-p", pid, "--equiv", "-j", "8"])
seeds = []
for d in sorted(glob.glob("/verif/seeded/*/")):
    try:
        m = json.load(open(d + "meta.json"))
    except Exception:
        continue
    props = (m.get("check_properties") or m.get("property") or "").split(",")
    if pid in props:
        seeds.append(d.rstrip("/"))
sd = run(["/verif/seedcheck.py", "--props=" + pid] + seeds) if seeds else {}
# independent refactorings that touch a file in which this property has obligations
files = set()
try:
    for o in json.load(open(ev))["coverage"].get("all_obligations", []):
        pos = o.get("pos") or ""
        if ":" in pos:
            files.add(pos.split(":")[0])
except Exception:
    pass
rdirs = []
for d in sorted(glob.glob("/verif/refactors/*/")):
    try:
        touched = set(l[6:].strip() for l in open(d + "patch.diff") if l.startswith("+++ b/"))
    except Exception:
        continue
    if touched & files:
        rdirs.append(d.rstrip("/"))
rf = run(["/verif/refaccheck.py", "--props=" + pid] + rdirs) if rdirs else {}
rf["selected_of"] = len(glob.glob("/verif/refactors/*/"))
try:
    e = json.load(open(ev))
    e["coverage"]["selftest"] = {
        "mutants": mut, "behaviour_preserving_edits": eq,
        "independent_refactorings": rf,
        "seeded_changes": {"evaluated": len(sd), "caught": sum(1 for v in sd.values() if v == "CAUGHT"), "detail": sd},
        "note": "informational: typed single-site edits and independently seeded changes applied through packages.Overlay; does not affect the verdict",
    }
    json.dump(e, open(ev, "w"), indent=1)
except Exception as ex:
    print("thorough_extras: could not update evidence:", ex, file=sys.stderr)
print("selftest: refactorings", rf, "mutants", mut, "equivalents", eq, "seeds caught %d/%d" % (sum(1 for v in sd.values() if v == "CAUGHT"), len(sd)))
