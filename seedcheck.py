#!/usr/bin/env python3
"""Evaluates seeded breaking changes against the checks WITHOUT touching /repo:
each patch is applied to copies of the affected files (via `patch`) and given
to the checker through -overlay. usage: seedcheck.py <dir-with-patch.diff>... | --all"""
import json, os, re, subprocess, sys, tempfile, shutil, glob

def run(seed_dir):
    meta = {}
    mp = os.path.join(seed_dir, "meta.json")
    if os.path.exists(mp):
        try: meta = json.load(open(mp))
        except Exception as e: meta = {"property": "?"}
    prop = meta.get("check_properties") or meta.get("property") or os.path.basename(seed_dir).split("-")[0]
    patch = open(os.path.join(seed_dir, "patch.diff")).read()
    files = re.findall(r"^\+\+\+ b/(\S+)", patch, re.M)
    with tempfile.TemporaryDirectory() as td:
        ov = []
        for f in files:
            dst = os.path.join(td, f)
            os.makedirs(os.path.dirname(dst), exist_ok=True)
            shutil.copy(os.path.join("/repo", f), dst)
        r = subprocess.run(["patch", "-p1", "-s", "-d", td], input=patch, text=True, capture_output=True)
        if r.returncode != 0:
            return prop, "PATCH-FAILED", r.stdout + r.stderr
        for f in files:
            if f.endswith(".go") and not f.endswith("_test.go"):
                ov.append("/repo/%s=%s" % (f, os.path.join(td, f)))
        os.makedirs(os.path.join(td, "verif"))
        if os.path.exists("/verif/known-findings.jsonl"):
            shutil.copy("/verif/known-findings.jsonl", os.path.join(td, "verif"))
        props = prop.split(",") if len(sys.argv) < 3 or not sys.argv[1].startswith("--props=") else sys.argv[1][8:].split(",")
        r = subprocess.run([os.environ.get("STARGZLINT", "/verif/bin/stargzlint"), "-prop", ",".join(props), "-verif", os.path.join(td, "verif"), "-overlay", ",".join(ov)], capture_output=True, text=True)
        viol = [l.strip() for l in r.stdout.splitlines() if l.startswith("  ")]
        st = {0: "MISSED", 1: "CAUGHT", 2: "INVALID"}.get(r.returncode, "?")
        return prop, st, "\n".join(viol[:4]) if st != "INVALID" else (r.stdout + r.stderr)[-500:]

dirs = [a for a in sys.argv[1:] if not a.startswith("--")]
if "--all" in sys.argv:
    dirs = sorted(glob.glob("/verif/seeded/*/"))
res = {}
detail = {}
for d in dirs:
    d = d.rstrip("/")
    prop, st, info = run(d)
    res[os.path.basename(d)] = st
    detail[os.path.basename(d)] = {"checked_with": prop, "status": st, "reports": [re.sub(r"\s+", " ", l.strip())[:260] for l in (info or "").splitlines()[:3]] if st == "CAUGHT" else []}
    print("%-8s %-6s %s" % (st, prop, os.path.basename(d)))
    if info:
        print("     " + info.replace("\n", "\n     "))
print(json.dumps(res))
for a in sys.argv[1:]:
    if a.startswith("--out="):
        json.dump(detail, open(a[6:], "w"), indent=1, sort_keys=True)
if "--write" in sys.argv:
    json.dump(detail, open("/verif/seeded/RESULTS.json", "w"), indent=1, sort_keys=True)
