#!/usr/bin/env python3
"""Runs ALL property checks against every behaviour-preserving refactoring patch in /verif/refactors (produced by
independent agents that were told nothing about the checks; each builds and passes the existing tests). Every check must
stay silent. Patches are applied to copies and passed through -overlay; /repo is not touched.
usage: refaccheck.py [dirs...]"""
import json, os, re, subprocess, sys, tempfile, shutil, glob, concurrent.futures as cf
ALL = ",".join("C%02d" % i for i in range(1, 21))
for a in sys.argv[1:]:
    if a.startswith("--props="):
        ALL = a[8:]
def run(d):
    patch = open(os.path.join(d, "patch.diff")).read()
    files = re.findall(r"^\+\+\+ b/(\S+)", patch, re.M)
    with tempfile.TemporaryDirectory() as td:
        for f in files:
            dst = os.path.join(td, f)
            os.makedirs(os.path.dirname(dst), exist_ok=True)
            if os.path.exists(os.path.join("/repo", f)):
                shutil.copy(os.path.join("/repo", f), dst)
        r = subprocess.run(["patch", "-p1", "-s", "-d", td], input=patch, text=True, capture_output=True)
        if r.returncode != 0:
            return d, "STALE", "patch no longer applies to /repo's tree"
        ov = ["/repo/%s=%s" % (f, os.path.join(td, f)) for f in files if f.endswith(".go") and not f.endswith("_test.go")]
        os.makedirs(os.path.join(td, "verif"))
        shutil.copy("/verif/known-findings.jsonl", os.path.join(td, "verif"))
        r = subprocess.run([os.environ.get("STARGZLINT", "/verif/bin/stargzlint"), "-prop", ALL, "-verif", os.path.join(td, "verif"), "-overlay", ",".join(ov)], capture_output=True, text=True)
        viol = [l.strip() for l in r.stdout.splitlines() if l.startswith("  ")]
        return d, {0: "SILENT", 1: "FALSE_ALARM", 2: "INVALID"}.get(r.returncode, "?"), "\n".join(viol[:4]) if r.returncode == 1 else (r.stdout + r.stderr)[-300:] if r.returncode == 2 else ""
dirs = [a.rstrip("/") for a in sys.argv[1:] if not a.startswith("--")] or sorted(glob.glob("/verif/refactors/*"))
res = {}
with cf.ThreadPoolExecutor(4) as ex:
    for d, st, info in ex.map(run, dirs):
        res[st] = res.get(st, 0) + 1
        if st != "SILENT":
            print(st, os.path.basename(d))
            print("    " + info.replace("\n", "\n    "))
print(json.dumps(res))
sys.exit(1 if res.get("FALSE_ALARM") or res.get("INVALID") else 0)
